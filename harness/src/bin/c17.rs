//! C17 — wake-ups and signals are never lost; the tty is restored on every exit path.
//!
//! Sessions of the REAL `UnixTerminal` on the slave side of a pseudo-terminal.  A peer thread on the master
//! answers the DA1 query, a typist thread sends key bytes, waker threads fire `TerminalWaker::wake` at random
//! times, SIGWINCH / termination signals are raised at the process, polls use zero / finite / infinite
//! time-outs, the terminal is dropped at every step index of a scripted session, after injected handler errors
//! (`Terminal::run`), with a stalled peer and after a hang-up.
//!
//! Judged by an independent oracle (this file): every completed `wake()` is followed by a `Wake` event,
//! `Resize` follows SIGWINCH, keys arrive in the order typed, a termination signal surfaces as `Err(Quit)`,
//! polls return within their time-out (+ 5 s slack: slow machines never produce an alarm below that), after
//! drop the line settings equal those found before the terminal was opened, the epilogue reached the master
//! and the settings were still raw when it did.
//! Tie to the Lean model: the hook `verif_c17` records what every loop iteration learned from the kernel; each
//! poll / dispose is replayed through `SurfModel.PollLoop` driven by those answers (trace refinement): result,
//! events pushed, system calls, queue sizes must agree (correspondence lines).
//! The sessions SAMPLE kernel schedules; they are evidence about the tie and a search for failing inputs,
//! never a proof.  A session that cannot be judged (no pty, constructor failure) is logged as inconclusive.
use serde_json::{Value, json};
use std::collections::VecDeque;
use std::io::Write as _;
use std::os::fd::{FromRawFd, OwnedFd, RawFd};
use std::sync::atomic::{AtomicBool, AtomicU64, AtomicUsize, Ordering};
use std::sync::mpsc;
use std::sync::{Arc, Barrier, Mutex};
use std::time::{Duration, Instant};
use surf_n_term::encoder::{Encoder, TTYEncoder};
use surf_n_term::verif_c17::{self, Rec};
use surf_n_term::{
    TerminalSurfaceExt, DecMode, Error, Face, KeyMod, KeyName, Position, SystemTerminal, Terminal, TerminalAction, TerminalCaps,
    TerminalCommand, TerminalEvent, TerminalWaker,
};
use verif_harness::out::{Out, hex};
use verif_harness::r#gen::Rng;
use verif_harness::{Cfg, guarded};

/// slack granted to every timing expectation
const SLACK: Duration = Duration::from_secs(5);
const DA_REPLY: &[u8] = b"\x1b[?62;4c";
const CPR_REPLY: &[u8] = b"\x1b[5;7R";

// ------------------------------------------------------------------------------------------------ script

#[derive(Clone, Debug, PartialEq)]
enum Timeout {
    Zero,
    Ms(u64),
    Inf,
}

#[derive(Clone, Debug, PartialEq)]
enum Step {
    /// `write_all` of a synthetic printable payload: byte i = 32 + (tag + i) % 95
    Write(usize, usize),
    /// `execute(command(n))`
    Exec(usize),
    Flush,
    FramesDrop,
    Poll(Timeout),
    /// `wake()` called `n` times by the session thread itself
    WakeInline(usize),
    /// waker threads: thread i fires after each of its delays (µs); all start behind one barrier
    WakeThreads(Vec<Vec<u64>>),
    /// the typist sends these printable bytes to the master after `delay` µs
    Keys(Vec<u8>, u64),
    /// the session thread waits until the typist has sent everything queued so far
    KeysSync,
    /// `raise(SIGWINCH)` by the session thread
    Winch,
    /// SIGWINCH sent to the session thread by a helper after `delay` µs (interrupts `select`)
    WinchAsync(u64),
    /// raise SIGTERM (15) / SIGINT (2) / SIGQUIT (3)
    Term(i32),
    PeerPause,
    PeerResume,
    /// close the master side
    HangUp,
    Sleep(u64),
    /// `position()`: the emulator answers the cursor-position query after `delay_ms`; meanwhile a thread wakes
    /// after `wake_us`, the typist types `key` after `key_us`; `suffix` is typed by the emulator in the same write as
    /// its device-attributes answer
    Position { wake_us: u64, key: Vec<u8>, key_us: u64, delay_ms: u64, suffix: Vec<u8> },
    /// `execute(DecModeSet { enable, mode })` for a DEC private mode number (25 cursor, 1000/1003/1006 mouse, 7 wrap)
    Mode(u16, bool),
    /// the application's own sync: `execute(DeviceAttrs)`; the emulator types `prefix` in the same write BEFORE its answer
    SyncDA(Vec<u8>),
}

impl Step {
    fn token(&self) -> String {
        let list = |v: &Vec<u64>| v.iter().map(|d| d.to_string()).collect::<Vec<_>>().join(",");
        match self {
            Step::Write(l, t) => format!("W:{l}:{t}"),
            Step::Exec(n) => format!("x:{n}"),
            Step::Flush => "f".into(),
            Step::FramesDrop => "d".into(),
            Step::Poll(Timeout::Zero) => "p:0".into(),
            Step::Poll(Timeout::Ms(ms)) => format!("p:{ms}"),
            Step::Poll(Timeout::Inf) => "p:inf".into(),
            Step::WakeInline(n) => format!("wi:{n}"),
            Step::WakeThreads(ts) => format!("wt:{}", ts.iter().map(list).collect::<Vec<_>>().join("/")),
            Step::Keys(b, d) => format!("k:{}:{d}", hex(b)),
            Step::KeysSync => "ks".into(),
            Step::Winch => "winch".into(),
            Step::WinchAsync(d) => format!("wa:{d}"),
            Step::Term(s) => format!("term:{s}"),
            Step::PeerPause => "pp".into(),
            Step::PeerResume => "pr".into(),
            Step::HangUp => "hup".into(),
            Step::Sleep(us) => format!("s:{us}"),
            Step::Mode(n, on) => format!("m:{n}:{}", if *on { 1 } else { 0 }),
            Step::SyncDA(prefix) => format!("da:{}", hex(prefix)),
            Step::Position { wake_us, key, key_us, delay_ms, suffix } => format!("pos:{wake_us}:{}:{key_us}:{delay_ms}:{}", hex(key), hex(suffix)),
        }
    }
    fn parse(t: &str) -> Option<Step> {
        let parts: Vec<&str> = t.split(':').collect();
        let list = |s: &str| -> Option<Vec<u64>> {
            if s.is_empty() { Some(vec![]) } else { s.split(',').map(|x| x.parse().ok()).collect() }
        };
        Some(match parts.as_slice() {
            ["W", l, g] => Step::Write(l.parse().ok()?, g.parse().ok()?),
            ["x", n] => Step::Exec(n.parse().ok()?),
            ["f"] => Step::Flush,
            ["d"] => Step::FramesDrop,
            ["p", "inf"] => Step::Poll(Timeout::Inf),
            ["p", "0"] => Step::Poll(Timeout::Zero),
            ["p", ms] => Step::Poll(Timeout::Ms(ms.parse().ok()?)),
            ["wi", n] => Step::WakeInline(n.parse().ok()?),
            ["wt", ts] => Step::WakeThreads(ts.split('/').map(list).collect::<Option<Vec<_>>>()?),
            ["k", h, d] => Step::Keys(unhex(h)?, d.parse().ok()?),
            ["ks"] => Step::KeysSync,
            ["winch"] => Step::Winch,
            ["wa", d] => Step::WinchAsync(d.parse().ok()?),
            ["term", s] => Step::Term(s.parse().ok()?),
            ["pp"] => Step::PeerPause,
            ["pr"] => Step::PeerResume,
            ["hup"] => Step::HangUp,
            ["s", us] => Step::Sleep(us.parse().ok()?),
            ["m", n, on] => Step::Mode(n.parse().ok()?, *on == "1"),
            ["da", prefix] => Step::SyncDA(unhex(prefix)?),
            ["pos", w, k, ku, d, sfx] => Step::Position { wake_us: w.parse().ok()?, key: unhex(k)?, key_us: ku.parse().ok()?, delay_ms: d.parse().ok()?, suffix: unhex(sfx)? },
            _ => return None,
        })
    }
}

fn unhex(h: &str) -> Option<Vec<u8>> {
    if h == "-" {
        return Some(vec![]);
    }
    if h.len() % 2 != 0 {
        return None;
    }
    (0..h.len() / 2).map(|i| u8::from_str_radix(&h[2 * i..2 * i + 2], 16).ok()).collect()
}

#[derive(Clone, Debug)]
struct Session {
    steps: Vec<Step>,
    /// drop the terminal after this many steps (None: after all steps and the final phase)
    drop_at: Option<usize>,
    /// `Some((k, quit))`: drive the steps' polls through `Terminal::run`; the handler's k-th call returns an
    /// error (`quit = false`) or `TerminalAction::Quit` (`quit = true`)
    run_handler: Option<(usize, bool)>,
    /// with `run_handler`: drive through `Terminal::run_render` (renderer, error clean-up path, re-creation on Resize)
    render: bool,
    /// with `run_handler`: the handler's k-th call PANICS; the unwinding is caught by the caller, the terminal is then
    /// dropped as usual (every exit path includes this one in Rust: Drop runs the same code)
    handler_panics: bool,
    /// `duplicate_output` (debugging copy of everything sent): 1 = a file that can be written, 2 = /dev/full (the copy fails as
    /// soon as its 8 KiB buffer is flushed; the poll that notices returns the error, the application releases the terminal)
    tee: u8,
    /// selects the line settings installed on the pty before the terminal is opened
    termios: u64,
    /// the peer answers the size queries, so that the terminal takes its size from escape sequences
    size_esc: bool,
    /// the pty slave is duplicated onto (at least) this descriptor number before the terminal is opened
    high_fd: Option<i32>,
    label: String,
}

impl Session {
    fn to_json(&self) -> Value {
        json!({
            "steps": self.steps.iter().map(|s| s.token()).collect::<Vec<_>>(),
            "drop_at": self.drop_at, "run_handler": self.run_handler.map(|(k, q)| json!([k, q])),
            "termios": self.termios.to_string(), "size_esc": self.size_esc, "render": self.render, "handler_panics": self.handler_panics, "tee": self.tee, "high_fd": self.high_fd, "label": self.label,
        })
    }
    fn from_json(v: &Value) -> Option<Session> {
        Some(Session {
            steps: v["steps"].as_array()?.iter().filter_map(|t| t.as_str().and_then(Step::parse)).collect(),
            drop_at: v["drop_at"].as_u64().map(|n| n as usize),
            run_handler: v["run_handler"].as_array().and_then(|a| Some((a.first()?.as_u64()? as usize, a.get(1)?.as_bool()?))),
            termios: v["termios"].as_str().and_then(|s| s.parse().ok()).unwrap_or(0),
            size_esc: v["size_esc"].as_bool().unwrap_or(false),
            render: v["render"].as_bool().unwrap_or(false),
            handler_panics: v["handler_panics"].as_bool().unwrap_or(false),
            tee: v["tee"].as_u64().unwrap_or(0) as u8,
            high_fd: v["high_fd"].as_i64().map(|n| n as i32),
            label: v["label"].as_str().unwrap_or("replay").to_string(),
        })
    }
}

fn synth(len: usize, tag: usize) -> Vec<u8> {
    (0..len).map(|i| (32 + (tag + i) % 95) as u8).collect()
}

/// commands with stateless encodings that contain no query
fn command(n: usize) -> TerminalCommand {
    match n % 7 {
        0 => TerminalCommand::CursorTo(Position { row: n / 7 % 50, col: n % 131 }),
        1 => TerminalCommand::Char(char::from_u32(0x41 + (n as u32 / 7) % 26).unwrap()),
        2 => TerminalCommand::EraseLine,
        3 => TerminalCommand::CursorSave,
        4 => TerminalCommand::CursorRestore,
        5 => TerminalCommand::EraseChars(n / 7 % 9 + 1),
        _ => TerminalCommand::Raw(format!("<raw {n}>").into_bytes()),
    }
}

/// what `command(n)` must put on the wire
fn command_bytes(n: usize) -> Vec<u8> {
    match n % 7 {
        0 => format!("\x1b[{};{}H", n / 7 % 50 + 1, n % 131 + 1).into_bytes(),
        1 => vec![(0x41 + (n / 7) % 26) as u8],
        2 => b"\x1b[2K".to_vec(),
        3 => b"\x1b7".to_vec(),
        4 => b"\x1b8".to_vec(),
        5 => format!("\x1b[{}X", n / 7 % 9 + 1).into_bytes(),
        _ => format!("<raw {n}>").into_bytes(),
    }
}

fn epilogue_bytes(caps: &TerminalCaps) -> Vec<u8> {
    let mut enc = TTYEncoder::new(caps.clone());
    let mut out = Vec::new();
    for cmd in [
        TerminalCommand::Face(Face::default()),
        TerminalCommand::visible_cursor_set(true),
        TerminalCommand::DecModeSet { enable: false, mode: DecMode::MouseMotions },
        TerminalCommand::DecModeSet { enable: false, mode: DecMode::MouseSGR },
        TerminalCommand::DecModeSet { enable: false, mode: DecMode::MouseReport },
        TerminalCommand::DecModeSet { enable: true, mode: DecMode::AutoWrap },
        TerminalCommand::KeyboardLevel(0),
        TerminalCommand::DeviceAttrs,
    ] {
        enc.encode(&mut out, cmd).unwrap();
    }
    out
}

/// what the property names: mouse reporting off and cursor shown, as xterm control sequences
const EPILOGUE_REQUIRED: [&[u8]; 4] = [b"\x1b[?25h", b"\x1b[?1000l", b"\x1b[?1003l", b"\x1b[?1006l"];

/// DEC private modes as the emulator has them after the bytes `received`: `ESC [ ? Pm h` sets, `ESC [ ? Pm l` resets
fn dec_modes(received: &[u8]) -> std::collections::BTreeMap<u32, bool> {
    let mut modes = std::collections::BTreeMap::new();
    let mut i = 0;
    while i + 3 < received.len() {
        if &received[i..i + 3] == b"\x1b[?" {
            let mut j = i + 3;
            while j < received.len() && (received[j].is_ascii_digit() || received[j] == b';') {
                j += 1;
            }
            if j < received.len() && (received[j] == b'h' || received[j] == b'l') {
                for p in received[i + 3..j].split(|c| *c == b';') {
                    if let Ok(n) = String::from_utf8_lossy(p).parse::<u32>() {
                        modes.insert(n, received[j] == b'h');
                    }
                }
            }
            i = j;
        } else {
            i += 1;
        }
    }
    modes
}

fn find(hay: &[u8], needle: &[u8]) -> Option<usize> {
    if needle.is_empty() || hay.len() < needle.len() {
        return None;
    }
    (0..=hay.len() - needle.len()).find(|i| &hay[*i..*i + needle.len()] == needle)
}

// ------------------------------------------------------------------------------------------------ pty

fn open_pty() -> Result<(RawFd, RawFd), String> {
    unsafe {
        let master = libc::posix_openpt(libc::O_RDWR | libc::O_NOCTTY);
        if master < 0 {
            return Err("posix_openpt failed".into());
        }
        if libc::grantpt(master) != 0 || libc::unlockpt(master) != 0 {
            libc::close(master);
            return Err("grantpt/unlockpt failed".into());
        }
        let mut name = [0 as libc::c_char; 128];
        if libc::ptsname_r(master, name.as_mut_ptr(), name.len()) != 0 {
            libc::close(master);
            return Err("ptsname_r failed".into());
        }
        let slave = libc::open(name.as_ptr(), libc::O_RDWR | libc::O_NOCTTY);
        if slave < 0 {
            libc::close(master);
            return Err("open slave failed".into());
        }
        let ws = libc::winsize { ws_row: 50, ws_col: 132, ws_xpixel: 0, ws_ypixel: 0 };
        libc::ioctl(master, libc::TIOCSWINSZ, &ws);
        let fl = libc::fcntl(master, libc::F_GETFL);
        libc::fcntl(master, libc::F_SETFL, fl | libc::O_NONBLOCK);
        Ok((master, slave))
    }
}

/// canonical words of the line settings, same layout as `verif_c17::termios_words`
fn termios_words(fd: RawFd) -> Option<Vec<u32>> {
    unsafe {
        let mut t: libc::termios = std::mem::zeroed();
        if libc::tcgetattr(fd, &mut t) != 0 {
            return None;
        }
        let mut w = vec![t.c_iflag as u32, t.c_oflag as u32, t.c_cflag as u32, t.c_lflag as u32, t.c_line as u32];
        for i in 0..17 {
            w.push(t.c_cc[i] as u32);
        }
        Some(w)
    }
}

/// every field of the kernel's termios as raw numbers (all 32 special characters, both speeds): what the restore
/// check compares — no helper decides which fields matter
fn termios_full(fd: RawFd) -> Option<Vec<u32>> {
    unsafe {
        let mut t: libc::termios = std::mem::zeroed();
        if libc::tcgetattr(fd, &mut t) != 0 {
            return None;
        }
        let mut w = vec![t.c_iflag as u32, t.c_oflag as u32, t.c_cflag as u32, t.c_lflag as u32, t.c_line as u32];
        w.extend(t.c_cc.iter().map(|c| *c as u32));
        w.push(t.c_ispeed as u32);
        w.push(t.c_ospeed as u32);
        Some(w)
    }
}

fn set_winsize(master: RawFd, rows: usize, cols: usize) {
    let ws = libc::winsize { ws_row: rows as u16, ws_col: cols as u16, ws_xpixel: 0, ws_ypixel: 0 };
    unsafe { libc::ioctl(master, libc::TIOCSWINSZ, &ws) };
}

fn words_token(w: &[u32]) -> String {
    w.iter().map(|x| format!("{x:x}")).collect::<Vec<_>>().join(".")
}

/// install non-default cooked settings (always canonical mode, so that raw mode differs from them)
fn install_termios(fd: RawFd, variant: u64) {
    unsafe {
        let mut t: libc::termios = std::mem::zeroed();
        if libc::tcgetattr(fd, &mut t) != 0 {
            return;
        }
        let bit = |i: u64| (variant >> i) & 1 == 1;
        t.c_lflag |= libc::ICANON;
        let toggle = |flag: &mut libc::tcflag_t, on: bool, mask: libc::tcflag_t| {
            if on { *flag |= mask } else { *flag &= !mask }
        };
        toggle(&mut t.c_lflag, bit(0), libc::ECHO);
        toggle(&mut t.c_lflag, bit(1), libc::ISIG);
        toggle(&mut t.c_lflag, bit(2), libc::IEXTEN);
        toggle(&mut t.c_lflag, bit(3), libc::ECHOE);
        toggle(&mut t.c_iflag, bit(4), libc::ICRNL);
        toggle(&mut t.c_iflag, bit(5), libc::IXON);
        toggle(&mut t.c_oflag, bit(6), libc::OPOST);
        toggle(&mut t.c_oflag, bit(7), libc::ONLCR);
        toggle(&mut t.c_iflag, bit(8), libc::ISTRIP);
        t.c_cc[libc::VMIN] = 1 + ((variant >> 9) & 3) as libc::cc_t;
        t.c_cc[libc::VTIME] = ((variant >> 11) & 3) as libc::cc_t;
        if bit(13) {
            t.c_cc[libc::VINTR] = 7;
        }
        libc::tcsetattr(fd, libc::TCSANOW, &t);
    }
}

/// number of times a write to the (non-blocking) master had to be repeated
static MASTER_WRITE_RETRIES: AtomicU64 = AtomicU64::new(0);
/// writes to the master come from two threads (peer, typist): a non-blocking tty write fails with EAGAIN while
/// another writer holds the tty's write lock, and may be short — serialise and repeat until everything is written
static MASTER_WRITE: Mutex<()> = Mutex::new(());
/// set when a poll stayed blocked for another 5 s after the harness tried everything to unblock it
static HOPELESS: AtomicBool = AtomicBool::new(false);

fn master_write(master: RawFd, bytes: &[u8]) -> bool {
    let _guard = MASTER_WRITE.lock().unwrap_or_else(|e| e.into_inner());
    let mut done = 0;
    let t0 = Instant::now();
    while done < bytes.len() {
        let n = unsafe { libc::write(master, bytes[done..].as_ptr() as *const libc::c_void, bytes.len() - done) };
        if n > 0 {
            done += n as usize;
        } else {
            let errno = std::io::Error::last_os_error().raw_os_error().unwrap_or(0);
            if (errno != libc::EAGAIN && errno != libc::EINTR) || t0.elapsed() > SLACK {
                return false;
            }
            MASTER_WRITE_RETRIES.fetch_add(1, Ordering::SeqCst);
            std::thread::sleep(Duration::from_micros(50));
        }
    }
    true
}

struct Shared {
    received: Mutex<Vec<u8>>,
    count: AtomicUsize,
    /// line settings of the slave sampled by the peer at every DA1 query: (stream position, words)
    at_da: Mutex<Vec<(usize, Option<Vec<u32>>, Instant)>>,
    paused: AtomicBool,
    answer_size: AtomicBool,
    /// the emulator's window: rows, columns (pixels are 20 per row, 10 per column in the escape-sequence answer)
    rows: AtomicUsize,
    cols: AtomicUsize,
    /// delay before the cursor-position query is answered (ms)
    reply_delay_ms: AtomicU64,
    /// typed by the emulator right behind its next device-attributes answer (same write)
    da_suffix: Mutex<Vec<u8>>,
    /// typed by the emulator right before its next device-attributes answer (same write)
    da_prefix: Mutex<Vec<u8>>,
    typed: Arc<Mutex<Vec<u8>>>,
    stop: AtomicBool,
    last_data_ms: AtomicU64,
    origin: Instant,
}

/// peer on the master: drain, answer DA1 (sampling the slave's line settings first)
fn peer(master: RawFd, keep: RawFd, shared: Arc<Shared>) {
    let mut buf = vec![0u8; 1 << 16];
    let mut tail: Vec<u8> = Vec::new();
    while !shared.stop.load(Ordering::SeqCst) {
        if shared.paused.load(Ordering::SeqCst) {
            std::thread::sleep(Duration::from_millis(1));
            continue;
        }
        let mut pfd = libc::pollfd { fd: master, events: libc::POLLIN, revents: 0 };
        let r = unsafe { libc::poll(&mut pfd, 1, 5) };
        if r <= 0 {
            continue;
        }
        let n = unsafe { libc::read(master, buf.as_mut_ptr() as *mut libc::c_void, buf.len()) };
        if n <= 0 {
            // EIO: no slave descriptor open right now (we keep one, so this is transient); EAGAIN: nothing
            std::thread::sleep(Duration::from_millis(1));
            continue;
        }
        let data = &buf[..n as usize];
        let base = {
            let mut rec = shared.received.lock().unwrap();
            rec.extend_from_slice(data);
            shared.count.store(rec.len(), Ordering::SeqCst);
            rec.len()
        };
        shared.last_data_ms.store(shared.origin.elapsed().as_millis() as u64, Ordering::SeqCst);
        // queries, possibly split over reads: DA1 `ESC [ c`, size `ESC [ 14 t` (the reply covers `ESC [ 18 t` too)
        tail.extend_from_slice(data);
        let mut i = 0;
        let mut done = 0;
        while i < tail.len() {
            if tail[i..].starts_with(b"\x1b[c") {
                shared.at_da.lock().unwrap().push((base, termios_words(keep), Instant::now()));
                let suffix = std::mem::take(&mut *shared.da_suffix.lock().unwrap());
                let prefix = std::mem::take(&mut *shared.da_prefix.lock().unwrap());
                if suffix.is_empty() && prefix.is_empty() {
                    master_write(master, DA_REPLY);
                } else {
                    let mut reply = prefix.clone();
                    reply.extend_from_slice(DA_REPLY);
                    reply.extend_from_slice(&suffix);
                    let mut log = shared.typed.lock().unwrap();
                    if master_write(master, &reply) {
                        log.extend_from_slice(&prefix);
                        log.extend_from_slice(&suffix);
                    }
                }
                i += 3;
                done = i;
            } else if tail[i..].starts_with(b"\x1b[6n") {
                let delay = shared.reply_delay_ms.swap(0, Ordering::SeqCst);
                if delay > 0 {
                    std::thread::sleep(Duration::from_millis(delay));
                }
                master_write(master, CPR_REPLY);
                i += 4;
                done = i;
            } else if tail[i..].starts_with(b"\x1b[14t") {
                if shared.answer_size.load(Ordering::SeqCst) {
                    let (r, c) = (shared.rows.load(Ordering::SeqCst), shared.cols.load(Ordering::SeqCst));
                    master_write(master, format!("\x1b[8;{r};{c}t\x1b[4;{};{}t", r * 20, c * 10).as_bytes());
                }
                i += 5;
                done = i;
            } else {
                i += 1;
            }
        }
        // keep what may be the beginning of a query
        let from = done.max(tail.len().saturating_sub(4));
        tail = tail[from..].to_vec();
    }
}

/// typist: sends key bytes to the master in the order queued
fn typist(master: RawFd, rx: mpsc::Receiver<(Vec<u8>, u64)>, typed: Arc<Mutex<Vec<u8>>>, pending: Arc<AtomicUsize>, closed: Arc<AtomicBool>) {
    while let Ok((bytes, delay)) = rx.recv() {
        if delay > 0 {
            std::thread::sleep(Duration::from_micros(delay));
        }
        if !closed.load(Ordering::SeqCst) {
            // the log is locked during the write: an event can never be seen before its byte is in the log, and only
            // bytes that really entered the tty are expected back
            let mut log = typed.lock().unwrap();
            if master_write(master, &bytes) {
                log.extend_from_slice(&bytes);
            }
        }
        pending.fetch_sub(1, Ordering::SeqCst);
    }
}

// ------------------------------------------------------------------------------------------------ trace → model

#[derive(Default)]
struct It {
    now: u128,
    sel: String,
    sel_flags: Option<(bool, bool, bool, bool)>,
    wr: Option<String>,
    sigs: String,
    winch: bool,
    resized: bool,
    wk_pending: Option<u64>,
    wk: Option<String>,
    inp: Option<String>,
    /// was the tty registered for writability when `select` was called (recorded for successful selects)
    interest: Option<bool>,
    sel_slot: Option<usize>,
}

impl It {
    fn token(&self, size_esc: bool) -> String {
        let (wk_r, _sg, tr, tw) = self.sel_flags.unwrap_or((false, false, false, false));
        let wr = self.wr.clone().unwrap_or_else(|| if tw { "x".into() } else { "-".into() });
        let wk = self.wk.clone().unwrap_or_else(|| if wk_r { "x".into() } else { "-".into() });
        let inp = self.inp.clone().unwrap_or_else(|| if tr { "x".into() } else { "-".into() });
        let size_ok = !(self.winch && !size_esc && !self.resized);
        let sigs = if self.sigs.is_empty() { "-" } else { &self.sigs };
        format!("{};{};{};{};{};{};{}", self.now, self.sel, wr, sigs, if size_ok { 1 } else { 0 }, wk, inp)
    }
}

struct PollModel {
    /// `start~iters`
    env: String,
    reads: Vec<String>,
    pushed: Vec<String>,
    iterations: usize,
    retries: usize,
    waker_reads: Vec<u64>,
}

/// environment answers of one `poll`, reconstructed from the records between its `PollStart` and the next one
fn poll_model(recs: &[Rec], timeout_ns: Option<u128>, size_esc: bool, after_nonempty: bool) -> PollModel {
    let mut its: Vec<It> = Vec::new();
    let mut m = PollModel { env: String::new(), reads: vec![], pushed: vec![], iterations: 0, retries: 0, waker_reads: vec![] };
    let mut wk_read_slot: Option<usize> = None;
    for r in recs {
        match r {
            Rec::Iter { delay_ns, first_loop } => {
                let now = match (timeout_ns, delay_ns) {
                    (Some(t), Some(d)) if *d > 0 => t.saturating_sub(*d),
                    (Some(t), Some(_)) => if *first_loop { t + 1 } else { t },
                    _ => 0,
                };
                m.reads.push(match delay_ns { Some(d) => format!("S{d}"), None => "Sn".into() });
                its.push(It { now, sel_slot: Some(m.reads.len() - 1), ..Default::default() });
                m.iterations += 1;
            }
            Rec::Break => {
                its.push(It { now: timeout_ns.unwrap_or(0) + 1, sel: "r0000".into(), ..Default::default() });
            }
            Rec::Select { waker, signal, tty_read, tty_write } => {
                if let Some(it) = its.last_mut() {
                    let b = |x: &bool| if *x { '1' } else { '0' };
                    it.sel = format!("r{}{}{}{}", b(waker), b(signal), b(tty_read), b(tty_write));
                    it.sel_flags = Some((*waker, *signal, *tty_read, *tty_write));
                }
            }
            Rec::SelectErr { retry } => {
                if let Some(it) = its.last_mut() {
                    it.sel = if *retry { "e".into() } else { "x".into() };
                }
                if *retry {
                    m.retries += 1;
                }
            }
            Rec::TtyWrite { offered, accepted } => {
                if let Some(it) = its.last_mut() {
                    it.wr = Some(accepted.to_string());
                }
                m.reads.push(format!("T{offered}>{accepted}"));
            }
            Rec::Signal(n) => {
                if let Some(it) = its.last_mut() {
                    it.sigs.push(match *n {
                        libc::SIGWINCH => 'w',
                        libc::SIGTERM => 't',
                        libc::SIGINT => 'i',
                        libc::SIGQUIT => 'q',
                        _ => 'o',
                    });
                    if *n == libc::SIGWINCH {
                        it.winch = true;
                    }
                }
            }
            Rec::Pushed(tok) => {
                if tok == "resize" {
                    if let Some(it) = its.last_mut() {
                        it.resized = true;
                    }
                }
                m.pushed.push(tok.clone());
            }
            Rec::Queued(_) => {}
            Rec::WakerPending(n) => {
                if let Some(it) = its.last_mut() {
                    it.wk_pending = Some(*n);
                    it.wk = Some("0".into());
                }
                wk_read_slot = Some(m.reads.len());
                m.reads.push("W0".into());
            }
            Rec::WakerNonZero => {
                if let Some(it) = its.last_mut() {
                    let n = it.wk_pending.unwrap_or(1);
                    let k = if n == u64::MAX { 1 } else { n.clamp(1, 1024) };
                    it.wk = Some(k.to_string());
                    m.waker_reads.push(k);
                    if let Some(slot) = wk_read_slot {
                        m.reads[slot] = format!("W{k}");
                    }
                }
            }
            Rec::TtyRead(bytes) => {
                if let Some(it) = its.last_mut() {
                    it.inp = Some(hex(bytes));
                }
                m.reads.push(format!("R{}", bytes.len()));
            }
            Rec::Interest(b) => {
                if let Some(it) = its.last_mut() {
                    it.interest = Some(*b);
                }
            }
            Rec::PollStart { .. } | Rec::Dispose { .. } | Rec::Restore(_) => {}
        }
    }
    // interest in writability at every `select`: recorded when the call succeeded; an interrupted or failed call leaves
    // the queue as it is, so its interest is that of the next call (or the state of the queue when the poll returned)
    let mut next = after_nonempty;
    for it in its.iter().rev() {
        if let Some(slot) = it.sel_slot {
            let w = it.interest.unwrap_or(next);
            m.reads[slot].push_str(if w { "w1" } else { "w0" });
            next = w;
        }
    }
    for t in m.pushed.iter_mut() {
        *t = model_token(t);
    }
    // an iteration cut short before `select` answered (cannot happen: select always answers) keeps sel empty
    for it in its.iter_mut() {
        if it.sel.is_empty() {
            it.sel = "x".into();
        }
    }
    let iters = if its.is_empty() { "-".to_string() } else { its.iter().map(|i| i.token(size_esc)).collect::<Vec<_>>().join("|") };
    m.env = format!("0~{iters}");
    m
}

/// requests the loop has seen and must have turned into queue entries within the same iteration
fn trace_oracle(recs: &[Rec], size_esc: bool, io_error: bool) -> Vec<(&'static str, String, String)> {
    let mut out = Vec::new();
    // split into iterations
    let mut iters: Vec<Vec<&Rec>> = Vec::new();
    for r in recs {
        match r {
            Rec::Iter { .. } | Rec::Break => iters.push(vec![r]),
            _ => {
                if let Some(last) = iters.last_mut() {
                    last.push(r);
                }
            }
        }
    }
    let n = iters.len();
    for (idx, it) in iters.iter().enumerate() {
        // the iteration in which the poll failed with an I/O error may have been cut short
        let cut = io_error && idx + 1 == n;
        for (i, r) in it.iter().enumerate() {
            let rest = &it[i + 1..];
            match r {
                Rec::WakerPending(k) if *k > 0 && *k != u64::MAX => {
                    let next_stop = rest.iter().position(|x| matches!(x, Rec::TtyRead(_))).unwrap_or(rest.len());
                    if !rest[..next_stop].iter().any(|x| matches!(x, Rec::Pushed(t) if t == "wake")) && !cut {
                        out.push(("the waker pipe held bytes when the loop read it, but no Wake event was queued",
                            format!("Wake queued in the iteration that drains {k} pending byte(s)"), "no Wake queued".to_string()));
                    }
                }
                Rec::Signal(sig) if *sig == libc::SIGWINCH => {
                    let next_stop = rest.iter().position(|x| matches!(x, Rec::Signal(_) | Rec::WakerPending(_) | Rec::TtyRead(_))).unwrap_or(rest.len());
                    let seg = &rest[..next_stop];
                    let ok = if size_esc {
                        seg.iter().any(|x| matches!(x, Rec::Queued(_)))
                    } else {
                        seg.iter().any(|x| matches!(x, Rec::Pushed(t) if t == "resize"))
                    };
                    if !ok && !cut {
                        out.push(("a SIGWINCH taken from the pending set queued neither a Resize event nor the size query",
                            if size_esc { "size query queued".to_string() } else { "Resize queued".to_string() }, "nothing queued".to_string()));
                    }
                }
                _ => {}
            }
        }
    }
    out
}

/// the hook's event token as the model driver prints it
fn model_token(t: &str) -> String {
    if t.starts_with("o:CursorPosition") { "cpr".to_string() } else { t.to_string() }
}

fn result_token(r: &Result<Option<TerminalEvent>, Error>) -> String {
    match r {
        Ok(None) => "ok:none".into(),
        Ok(Some(e)) => format!("ok:{}", model_token(&verif_c17::canon(e))),
        Err(Error::Quit) => "err:quit".into(),
        Err(_) => "err:io".into(),
    }
}

/// bytes the tty accepted according to the hook's write records
fn accepted_sum(recs: &[Rec]) -> usize {
    recs.iter().map(|x| if let Rec::TtyWrite { accepted, .. } = x { *accepted } else { 0 }).sum()
}

fn list(v: &[String]) -> String {
    if v.is_empty() { "-".into() } else { v.join(",") }
}

// ------------------------------------------------------------------------------------------------ session

#[derive(Default)]
struct Outcome {
    inconclusive: Option<String>,
    failures: Vec<(String, String, String)>,
    /// request for the Lean model and the observations of the implementation
    trace: Option<(String, String)>,
    executed: Vec<String>,
    polls: usize,
    iterations: usize,
    select_retries: usize,
    wakes: usize,
    wake_events: usize,
    coalesced_reads: usize,
    keys: usize,
    resizes: usize,
    quits: usize,
    dropped_after: String,
    restore_checked: bool,
    epilogue_checked: bool,
    drop_ms: u128,
    /// dispose's bounded wait (1 s per poll) ran out while output was still queued
    release_timed_out: bool,
    /// the session failed once and passed when run again (reported as inconclusive)
    flaky: bool,
    /// situation in which the terminal was released, for the classification of findings
    class: Option<String>,
}

enum HErr {
    Term(Error),
    Injected,
}
impl From<Error> for HErr {
    fn from(e: Error) -> Self {
        HErr::Term(e)
    }
}

struct InPoll {
    since: Option<(Instant, Option<Duration>)>,
}

struct Runner {
    master: RawFd,
    shared: Arc<Shared>,
    size_esc: bool,
    waker: TerminalWaker,
    wake_times: Arc<Mutex<Vec<Instant>>>,
    winch_times: Arc<Mutex<Vec<Instant>>>,
    waker_threads: Vec<std::thread::JoinHandle<()>>,
    helper_threads: Vec<std::thread::JoinHandle<()>>,
    keys_tx: mpsc::Sender<(Vec<u8>, u64)>,
    typed: Arc<Mutex<Vec<u8>>>,
    typist_pending: Arc<AtomicUsize>,
    master_closed: Arc<AtomicBool>,
    in_poll: Arc<Mutex<InPoll>>,
    stuck: Arc<AtomicBool>,
    session_thread: libc::pthread_t,
    // observations
    keys_seen: Vec<u8>,
    /// return times of the polls that delivered a `Wake` / a `Resize`
    wake_events: Vec<Instant>,
    resize_events: Vec<Instant>,
    term_raised: Option<Instant>,
    quit_seen: bool,
    hung_up: bool,
    poll_failed: bool,
    /// what the terminal read from the tty and queued, in order (diagnostics for lost-input reports)
    input_log: Vec<String>,
    frames_dropped: bool,
    /// window sizes the emulator has had (rows, columns)
    sizes: Vec<(usize, usize)>,
    /// bytes the tty accepted so far (sum over the hook's write records)
    sent: usize,
    injected_panic: bool,
    /// a payload too large to be replayed through the model was written: the session is judged by the oracle only
    big_output: bool,
    /// the debugging copy goes to /dev/full: a poll error is the expected consequence, not a reason to put the session aside
    tee_full: bool,
    /// the session wants to drop the terminal while the peer does not read
    keep_stalled: bool,
    req: String,
    exp: Vec<String>,
    out: Outcome,
}

impl Runner {
    fn fail(&mut self, what: &str, expected: String, got: String) {
        if self.out.failures.len() < 4 {
            self.out.failures.push((what.to_string(), expected, got));
        }
    }

    fn state_token(&self, term: &SystemTerminal) -> String {
        let (len, chunks) = verif_c17::queue(term);
        format!("q{len}/{chunks}e{}", verif_c17::events_queue(term).len())
    }

    /// book-keeping after a `poll` returned
    fn after_poll(&mut self, term: &SystemTerminal, result: &Result<Option<TerminalEvent>, Error>, started: Instant, timeout: Option<Duration>) {
        let ended = Instant::now();
        self.in_poll.lock().unwrap().since = None;
        self.out.polls += 1;
        // trace refinement
        let recs = verif_c17::take_trace();
        self.sent += accepted_sum(&recs);
        for x in recs.iter() {
            match x {
                Rec::TtyRead(b) => self.input_log.push(format!("read:{}", String::from_utf8_lossy(b).escape_default())),
                Rec::Pushed(t) if t != "wake" => self.input_log.push(format!("push:{t}")),
                _ => {}
            }
        }
        let timeout_ns = timeout.map(|d| d.as_nanos());
        let m = poll_model(&recs, timeout_ns, self.size_esc, verif_c17::queue(term).1 > 0);
        self.out.iterations += m.iterations;
        self.out.select_retries += m.retries;
        self.out.coalesced_reads += m.waker_reads.iter().filter(|k| **k > 1).count();
        self.req.push_str(&format!(" p:{}:{}", timeout_ns.map(|t| t.to_string()).unwrap_or("n".into()), m.env));
        self.exp.push(format!("{}[{}]{}r0[{}]", result_token(result), list(&m.pushed), self.state_token(term), m.reads.join(",")));
        // oracle on what the loop saw (hook records): a non-empty waker pipe that was read queues Wake; a SIGWINCH taken
        // from the pending set queues Resize (ioctl size) or the size query (escape-sequence size)
        for (what, exp, got) in trace_oracle(&recs, self.size_esc, matches!(result, Err(e) if !matches!(e, Error::Quit))) {
            self.fail(what, exp, got);
        }
        let elapsed = ended - started;
        if let Some(t) = timeout {
            if elapsed > t + SLACK {
                self.fail("poll returned more than 5 s after its time-out", format!("at most {:?} + 5 s", t), format!("{elapsed:?}"));
            }
        }
        if self.stuck.swap(false, Ordering::SeqCst) {
            self.fail(
                "poll did not return within 5 s of its deadline / of the wake request (the harness had to unblock it)",
                "poll returns".into(), format!("still inside poll({timeout:?}) after {elapsed:?}"),
            );
        }
        match result {
            Ok(Some(TerminalEvent::Wake)) => {
                self.out.wake_events += 1;
                self.wake_events.push(ended);
            }
            Ok(Some(TerminalEvent::Resize(size))) => {
                // raw numbers of the public fields against the sizes the emulator has had (ioctl: no pixel size;
                // escape-sequence answer: 20 x 10 pixels per cell)
                let got = (size.cells.height, size.cells.width, size.pixels.height, size.pixels.width);
                let esc = self.size_esc;
                let px = |r: usize, c: usize| if esc { (r, c, r * 20, c * 10) } else { (r, c, 0, 0) };
                if !self.sizes.iter().any(|(r, c)| px(*r, *c) == got) {
                    let want: Vec<_> = self.sizes.iter().map(|(r, c)| px(*r, *c)).collect();
                    self.fail("the size in a Resize event is none of the sizes the window has had",
                        format!("(rows, columns, pixel height, pixel width) one of {want:?}"), format!("{got:?}"));
                }
                self.out.resizes += 1;
                self.resize_events.push(ended);
            }
            Ok(Some(TerminalEvent::Key(key))) => {
                // structural pattern on the public fields / constants, not the crate's comparison impls
                if let surf_n_term::Key { name: KeyName::Char(c), mode: KeyMod::EMPTY } = *key {
                    self.keys_seen.push(c as u32 as u8);
                    self.out.keys += 1;
                    let typed = self.typed.lock().unwrap().clone();
                    if !typed.starts_with(&self.keys_seen) {
                        let n = self.keys_seen.len();
                        self.fail(
                            "key events do not arrive in the order the bytes were typed",
                            format!("prefix of {:?}", String::from_utf8_lossy(&typed[..typed.len().min(n + 4)])),
                            format!("{:?}", String::from_utf8_lossy(&self.keys_seen)),
                        );
                    }
                }
            }
            Ok(_) => {}
            Err(Error::Quit) => {
                self.out.quits += 1;
                self.quit_seen = true;
                self.poll_failed = true;
                if self.term_raised.is_none() && !self.hung_up {
                    // nobody asked for it: tell the known benign causes (the trace shows them) from a spurious quit
                    let empty_read = recs.iter().any(|x| matches!(x, Rec::TtyRead(b) if b.is_empty()));
                    let term_signal = recs.iter().any(|x| matches!(x, Rec::Signal(n) if [libc::SIGTERM, libc::SIGINT, libc::SIGQUIT].contains(n)));
                    if empty_read {
                        // read returned 0 / EAGAIN after select reported the tty readable (guard_io turns it into Quit)
                        if self.out.inconclusive.is_none() {
                            self.out.inconclusive = Some("quit-on-empty-read".into());
                        }
                    } else if term_signal {
                        if self.out.inconclusive.is_none() {
                            self.out.inconclusive = Some("external-termination-signal".into());
                        }
                    } else {
                        self.fail("poll returned Err(Quit) although no termination signal was raised, the tty is not hung up and no read returned 0",
                            "an event or None".into(), "Err(Quit)".into());
                    }
                }
            }
            Err(e) => {
                self.poll_failed = true;
                if !self.hung_up && !self.tee_full && self.out.inconclusive.is_none() {
                    self.out.inconclusive = Some(format!("poll-error:{e:?}"));
                }
            }
        }
    }

    /// book-keeping after `position()` returned: its inner polls are replayed through the model's `position`
    fn after_position(&mut self, term: &SystemTerminal, result: &Result<Position, Error>) {
        self.in_poll.lock().unwrap().since = None;
        self.shared.reply_delay_ms.store(0, Ordering::SeqCst);
        let recs = verif_c17::take_trace();
        self.sent += accepted_sum(&recs);
        for x in recs.iter() {
            match x {
                Rec::TtyRead(b) => self.input_log.push(format!("read:{}", String::from_utf8_lossy(b).escape_default())),
                Rec::Pushed(t) if t != "wake" => self.input_log.push(format!("push:{t}")),
                _ => {}
            }
        }
        // one segment per inner poll
        let mut segs: Vec<(Option<u128>, Vec<Rec>)> = Vec::new();
        for x in recs.iter() {
            match x {
                Rec::PollStart { timeout_ns, .. } => segs.push((*timeout_ns, Vec::new())),
                other => {
                    if let Some(sg) = segs.last_mut() {
                        sg.1.push(other.clone());
                    }
                }
            }
        }
        let nonempty_after = verif_c17::queue(term).1 > 0;
        let mut envs = Vec::new();
        let mut pushed: Vec<String> = Vec::new();
        let n = segs.len();
        for (i, (to, sg)) in segs.iter().enumerate() {
            // (queue state between inner polls is not observed: assume pending output while more polls follow)
            let m = poll_model(sg, *to, self.size_esc, if i + 1 == n { nonempty_after } else { true });
            self.out.iterations += m.iterations;
            self.out.select_retries += m.retries;
            envs.push(m.env);
            pushed.extend(m.pushed);
        }
        self.out.polls += n;
        let res = match result {
            Ok(_) => "ok",
            Err(Error::Quit) => "err:quit",
            Err(_) => "err:io",
        };
        let evq: Vec<String> = verif_c17::events_queue(term).iter().map(|t| model_token(t)).collect();
        self.req.push_str(&format!(" q:{}", if envs.is_empty() { "-".to_string() } else { envs.join("/") }));
        self.exp.push(format!("{res}[{}]{}[{}]", list(&pushed), self.state_token(term), list(&evq)));
        for (what, exp, got) in trace_oracle(&recs, self.size_esc, matches!(result, Err(e) if !matches!(e, Error::Quit))) {
            self.fail(what, exp, got);
        }
        if self.stuck.swap(false, Ordering::SeqCst) {
            self.fail("position() did not return within 10 s although the emulator answered (the harness had to unblock it)",
                "position returns".into(), "still inside position()".into());
        }
        match result {
            Ok(_) => {}
            Err(Error::Quit) => {
                self.out.quits += 1;
                self.quit_seen = true;
                self.poll_failed = true;
                if self.term_raised.is_none() && !self.hung_up && self.out.inconclusive.is_none() {
                    self.out.inconclusive = Some("quit-inside-position".into());
                }
            }
            Err(e) => {
                self.poll_failed = true;
                if !self.hung_up && self.out.inconclusive.is_none() {
                    self.out.inconclusive = Some(format!("position-error:{e:?}"));
                }
            }
        }
    }

    fn timeout_of(t: &Timeout) -> Option<Duration> {
        match t {
            Timeout::Zero => Some(Duration::new(0, 0)),
            Timeout::Ms(ms) => Some(Duration::from_millis(*ms)),
            Timeout::Inf => None,
        }
    }

    fn before_poll(&mut self, timeout: Option<Duration>) -> Instant {
        let now = Instant::now();
        self.in_poll.lock().unwrap().since = Some((now, timeout));
        now
    }

    /// every step except `Poll`
    fn exec_other(&mut self, term: &mut SystemTerminal, step: &Step) {
        match step {
            Step::Write(l, t) => {
                if *l > 1_000_000 {
                    self.big_output = true;
                }
                term.write_all(&synth(*l, *t)).unwrap();
                self.req.push_str(&format!(" W:{l}:{t}"));
                self.exp.push(self.state_token(term));
            }
            Step::Exec(n) => {
                // the bytes the model queues are written down in the harness (xterm control sequences), not taken from the encoder
                let p = command_bytes(*n);
                term.execute(command(*n)).unwrap();
                self.req.push_str(&format!(" w:{}", hex(&p)));
                self.exp.push(self.state_token(term));
            }
            Step::Flush => {
                term.flush().unwrap();
                self.req.push_str(" f");
                self.exp.push(self.state_token(term));
            }
            Step::FramesDrop => {
                term.frames_drop();
                self.frames_dropped = true;
                self.req.push_str(" d");
                self.exp.push(self.state_token(term));
            }
            Step::WakeInline(n) => {
                for _ in 0..*n {
                    // time stamps are taken BEFORE the call: an event delivered while the call is in progress may
                    // already be the answer to it (taking them afterwards would be a race in the oracle)
                    let at = Instant::now();
                    if self.waker.wake().is_ok() {
                        self.wake_times.lock().unwrap().push(at);
                    }
                }
            }
            Step::WakeThreads(ts) => {
                let barrier = Arc::new(Barrier::new(ts.len()));
                for delays in ts.iter().cloned() {
                    let waker = self.waker.clone();
                    let times = self.wake_times.clone();
                    let barrier = barrier.clone();
                    self.waker_threads.push(std::thread::spawn(move || {
                        barrier.wait();
                        for d in delays {
                            if d > 0 {
                                std::thread::sleep(Duration::from_micros(d));
                            }
                            let at = Instant::now();
                            if waker.wake().is_ok() {
                                times.lock().unwrap().push(at);
                            }
                        }
                    }));
                }
            }
            Step::Keys(bytes, delay) => {
                self.typist_pending.fetch_add(1, Ordering::SeqCst);
                let _ = self.keys_tx.send((bytes.clone(), *delay));
            }
            Step::KeysSync => self.keys_sync(),
            Step::Winch => {
                // the window really changes: a new size (rows and columns differ) before the signal
                let (r0, c0) = (self.shared.rows.load(Ordering::SeqCst), self.shared.cols.load(Ordering::SeqCst));
                let (r1, c1) = (if r0 >= 90 { 21 } else { r0 + 1 }, if c0 >= 250 { 71 } else { c0 + 3 });
                self.shared.rows.store(r1, Ordering::SeqCst);
                self.shared.cols.store(c1, Ordering::SeqCst);
                if !self.hung_up {
                    set_winsize(self.master, r1, c1);
                }
                self.sizes.push((r1, c1));
                let at = Instant::now();
                unsafe { libc::raise(libc::SIGWINCH) };
                self.winch_times.lock().unwrap().push(at);
            }
            Step::WinchAsync(delay) => {
                let target = self.session_thread;
                let times = self.winch_times.clone();
                let delay = *delay;
                self.helper_threads.push(std::thread::spawn(move || {
                    std::thread::sleep(Duration::from_micros(delay));
                    let at = Instant::now();
                    unsafe { libc::pthread_kill(target, libc::SIGWINCH) };
                    times.lock().unwrap().push(at);
                }));
            }
            Step::Term(sig) => {
                // only safe while signal-hook's handler is installed: check the disposition first
                let mut old: libc::sigaction = unsafe { std::mem::zeroed() };
                unsafe { libc::sigaction(*sig, std::ptr::null(), &mut old) };
                if old.sa_sigaction != libc::SIG_DFL && old.sa_sigaction != libc::SIG_IGN {
                    self.term_raised = Some(Instant::now());
                    unsafe { libc::raise(*sig) };
                } else if self.out.inconclusive.is_none() {
                    self.out.inconclusive = Some("no-handler-for-termination-signal".into());
                }
            }
            Step::PeerPause => self.shared.paused.store(true, Ordering::SeqCst),
            Step::PeerResume => self.shared.paused.store(false, Ordering::SeqCst),
            Step::HangUp => {
                if !self.hung_up {
                    self.keys_sync();
                    self.hung_up = true;
                    self.master_closed.store(true, Ordering::SeqCst);
                    self.shared.stop.store(true, Ordering::SeqCst);
                    // the peer thread notices `stop` within 5 ms; the descriptor is closed after it left its loop
                    std::thread::sleep(Duration::from_millis(12));
                    unsafe { libc::close(self.master) };
                }
            }
            Step::Sleep(us) => std::thread::sleep(Duration::from_micros(*us)),
            Step::Mode(n, on) => {
                let mode = match n {
                    25 => DecMode::VisibleCursor,
                    1000 => DecMode::MouseReport,
                    1003 => DecMode::MouseMotions,
                    1006 => DecMode::MouseSGR,
                    _ => DecMode::AutoWrap,
                };
                let number = if [25u16, 1000, 1003, 1006].contains(n) { *n } else { 7 };
                term.execute(TerminalCommand::DecModeSet { enable: *on, mode }).unwrap();
                // the bytes the model queues are written down here, not taken from the crate's encoder
                let raw = format!("\x1b[?{number}{}", if *on { 'h' } else { 'l' });
                self.req.push_str(&format!(" w:{}", hex(raw.as_bytes())));
                self.exp.push(self.state_token(term));
            }
            Step::SyncDA(prefix) => {
                *self.shared.da_prefix.lock().unwrap() = prefix.clone();
                term.execute(TerminalCommand::DeviceAttrs).unwrap();
                self.req.push_str(&format!(" w:{}", hex(b"\x1b[c")));
                self.exp.push(self.state_token(term));
            }
            Step::Position { wake_us, key, key_us, delay_ms, suffix } => {
                self.shared.paused.store(false, Ordering::SeqCst);
                self.shared.reply_delay_ms.store(*delay_ms, Ordering::SeqCst);
                *self.shared.da_suffix.lock().unwrap() = suffix.clone();
                if *wake_us > 0 {
                    let (waker, times, d) = (self.waker.clone(), self.wake_times.clone(), *wake_us);
                    self.waker_threads.push(std::thread::spawn(move || {
                        std::thread::sleep(Duration::from_micros(d));
                        let at = Instant::now();
                        if waker.wake().is_ok() {
                            times.lock().unwrap().push(at);
                        }
                    }));
                }
                if !key.is_empty() {
                    self.typist_pending.fetch_add(1, Ordering::SeqCst);
                    let _ = self.keys_tx.send((key.clone(), *key_us));
                }
                let _ = verif_c17::take_trace();
                self.before_poll(None);
                let res = term.position();
                self.after_position(term, &res);
            }
            Step::Poll(_) => unreachable!(),
        }
    }

    fn keys_sync(&self) {
        let t0 = Instant::now();
        while self.typist_pending.load(Ordering::SeqCst) > 0 && t0.elapsed() < SLACK {
            std::thread::sleep(Duration::from_micros(200));
        }
    }

    fn join_helpers(&mut self) {
        for h in self.waker_threads.drain(..) {
            let _ = h.join();
        }
        for h in self.helper_threads.drain(..) {
            let _ = h.join();
        }
        self.keys_sync();
    }

    fn outstanding(&self) -> Vec<(&'static str, Instant)> {
        let mut v = Vec::new();
        if self.quit_seen {
            return v;
        }
        if let Some(t) = self.term_raised {
            v.push(("termination signal did not surface as Err(Quit)", t));
            return v;
        }
        // EVERY request is matched against the events delivered after it was issued (requests may coalesce: one
        // event answers all requests issued before the poll that delivered it returned); the oldest open one is named
        let open = |requests: &[Instant], events: &[Instant]| -> Option<Instant> {
            requests.iter().filter(|t| !events.iter().any(|e| e >= *t)).min().cloned()
        };
        if let Some(t) = open(&self.wake_times.lock().unwrap(), &self.wake_events) {
            v.push(("a completed wake() was not followed by a Wake event", t));
        }
        if let Some(t) = open(&self.winch_times.lock().unwrap(), &self.resize_events) {
            v.push(("SIGWINCH was not followed by a Resize event", t));
        }
        if self.keys_seen.len() < self.typed.lock().unwrap().len() && !self.hung_up {
            v.push(("typed bytes were not delivered as key events", Instant::now() - Duration::from_millis(1)));
        }
        v
    }

    /// keep polling until every obligation is met or has been outstanding for more than the slack
    fn final_phase(&mut self, term: &mut SystemTerminal) {
        self.join_helpers();
        if !self.keep_stalled {
            self.shared.paused.store(false, Ordering::SeqCst);
        }
        let t0 = Instant::now();
        let mut polls = 0;
        loop {
            let open = self.outstanding();
            if open.is_empty() || self.poll_failed {
                break;
            }
            if t0.elapsed() > SLACK && polls >= 40 {
                let log = self.input_log.join(" ");
                let typed = String::from_utf8_lossy(&self.typed.lock().unwrap()).to_string();
                for (what, since) in open {
                    if what.starts_with("SIGWINCH") && self.size_esc && self.frames_dropped {
                        // the size query that answers SIGWINCH in this mode may have been in a dropped frame
                        self.out.class = Some("resize-lost-after-frames_drop-in-escape-size-mode".into());
                    }
                    self.fail(what, "delivered within 5 s".into(), format!("not delivered after {:?} and {polls} further polls; typed {typed:?}, seen {:?}; tty input log: {}",
                        since.elapsed(), String::from_utf8_lossy(&self.keys_seen), &log[log.len().saturating_sub(1500)..]));
                }
                break;
            }
            let timeout = Some(Duration::from_millis(if polls % 3 == 0 { 0 } else { 15 }));
            let started = self.before_poll(timeout);
            let r = term.poll(timeout);
            self.after_poll(term, &r, started, timeout);
            polls += 1;
        }
    }
}

/// capabilities the terminal must arrive at with this emulator and this environment (main() fixes TERM / COLORTERM /
/// SURFNTERM): 256 colours, no kitty keyboard — written down here, not read from the terminal object
const CAPS_TOKEN: &str = "e0";

fn run_session(s: &Session) -> Outcome {
    let mut outcome = Outcome::default();
    let (master, slave) = match open_pty() {
        Ok(x) => x,
        Err(e) => {
            outcome.inconclusive = Some(format!("no-pty:{e}"));
            return outcome;
        }
    };
    // descriptor numbering is the caller's business: sometimes hand the terminal a tty descriptor far above the sockets it
    // creates itself
    let slave = match s.high_fd {
        Some(n) => unsafe {
            let nfd = libc::fcntl(slave, libc::F_DUPFD, n);
            if nfd >= 0 {
                libc::close(slave);
                nfd
            } else {
                slave
            }
        },
        None => slave,
    };
    // our own descriptor of the slave for the whole session: the pty must outlive the terminal
    let keep = unsafe { libc::dup(slave) };
    install_termios(keep, s.termios);
    let (rows0, cols0) = (20 + (s.termios / 64 % 60) as usize, 70 + (s.termios / 4096 % 120) as usize);
    set_winsize(master, rows0, cols0);
    let before = termios_words(keep);
    let before_full = termios_full(keep);
    let typed: Arc<Mutex<Vec<u8>>> = Arc::new(Mutex::new(Vec::new()));
    let shared = Arc::new(Shared {
        rows: AtomicUsize::new(rows0), cols: AtomicUsize::new(cols0), reply_delay_ms: AtomicU64::new(0), da_suffix: Mutex::new(Vec::new()), da_prefix: Mutex::new(Vec::new()), typed: typed.clone(),
        received: Mutex::new(Vec::new()), count: AtomicUsize::new(0), at_da: Mutex::new(Vec::new()),
        paused: AtomicBool::new(false), answer_size: AtomicBool::new(s.size_esc), stop: AtomicBool::new(false), last_data_ms: AtomicU64::new(0), origin: Instant::now(),
    });
    let peer_thread = {
        let shared = shared.clone();
        std::thread::spawn(move || peer(master, keep, shared))
    };
    let typist_pending = Arc::new(AtomicUsize::new(0));
    let master_closed = Arc::new(AtomicBool::new(false));
    let (keys_tx, keys_rx) = mpsc::channel();
    let typist_thread = {
        let (typed, pending, closed) = (typed.clone(), typist_pending.clone(), master_closed.clone());
        std::thread::spawn(move || typist(master, keys_rx, typed, pending, closed))
    };
    verif_c17::enable(true);
    let _ = verif_c17::take_trace();
    let mut term = match SystemTerminal::new_from_fd(unsafe { OwnedFd::from_raw_fd(slave) }) {
        Ok(t) => t,
        Err(e) => {
            outcome.inconclusive = Some(format!("constructor:{e:?}"));
            shared.stop.store(true, Ordering::SeqCst);
            drop(keys_tx);
            let _ = peer_thread.join();
            let _ = typist_thread.join();
            unsafe {
                libc::close(keep);
                libc::close(master);
            }
            return outcome;
        }
    };
    // settle: everything the constructor queued is sent, nothing is waiting in the event queue
    let mut setup_note: Option<String> = None;
    let mut sent0 = 0usize;
    let t0 = Instant::now();
    loop {
        let r = term.poll(Some(Duration::from_millis(1)));
        sent0 += accepted_sum(&verif_c17::take_trace());
        if t0.elapsed() > SLACK || r.is_err() {
            // the script is not run; the terminal is released and judged (restore, closing sequence); only when that
            // finds nothing is the session put aside as inconclusive
            setup_note = Some("setup-not-settled".to_string());
            break;
        }
        if term.frames_pending() == 0 && matches!(r, Ok(None)) && shared.count.load(Ordering::SeqCst) >= sent0 {
            break;
        }
    }
    let _ = verif_c17::take_trace();
    let tee_path = std::env::temp_dir().join(format!("c17-tee-{}", std::process::id()));
    match s.tee {
        1 => { let _ = term.duplicate_output(&tee_path); }
        2 => { let _ = term.duplicate_output("/dev/full"); }
        _ => {}
    }
    let size_esc = verif_c17::size_from_escape(&term);
    let saved = verif_c17::saved_termios(&term);
    let before_tok = before.as_ref().map(|w| words_token(w)).unwrap_or("none".into());
    let mut r = Runner {
        master, shared: shared.clone(), size_esc, waker: term.waker(),
        wake_times: Default::default(), winch_times: Default::default(), waker_threads: vec![], helper_threads: vec![],
        keys_tx, typed, typist_pending, master_closed, in_poll: Arc::new(Mutex::new(InPoll { since: None })),
        stuck: Arc::new(AtomicBool::new(false)), session_thread: unsafe { libc::pthread_self() },
        keys_seen: vec![], wake_events: vec![], resize_events: vec![], term_raised: None, quit_seen: false,
        hung_up: false, poll_failed: false, input_log: vec![], frames_dropped: false, sizes: vec![(rows0, cols0)], sent: sent0, injected_panic: false, big_output: false, tee_full: s.tee == 2, keep_stalled: s.label.contains("stalled"),
        req: format!("c17 s o:{before_tok}:1111 z:{}", if size_esc { 1 } else { 0 }),
        exp: vec![format!("saved={}/5", words_token(&saved)), "q0/0e0".into()],
        out: outcome,
    };
    // the saved settings are those found before the terminal was opened
    if before.as_deref() != Some(saved.as_slice()) {
        r.fail("the settings saved by the constructor are not those the tty had when it was opened",
            before_tok.clone(), words_token(&saved));
    }
    // unsticker: a poll that overstays is reported and then unblocked (peer resumed, wake, a key)
    let unsticker_stop = Arc::new(AtomicBool::new(false));
    let unsticker = {
        let (in_poll, stuck, stop, shared, waker) = (r.in_poll.clone(), r.stuck.clone(), unsticker_stop.clone(), shared.clone(), term.waker());
        let (tx, pending) = (r.keys_tx.clone(), r.typist_pending.clone());
        std::thread::spawn(move || {
            let mut fired_for: Option<Instant> = None;
            while !stop.load(Ordering::SeqCst) {
                std::thread::sleep(Duration::from_millis(25));
                let since = in_poll.lock().unwrap().since;
                if let Some((st, to)) = since {
                    let limit = to.unwrap_or(SLACK) + SLACK;
                    if fired_for == Some(st) && st.elapsed() > limit + SLACK {
                        HOPELESS.store(true, Ordering::SeqCst);
                    }
                    if st.elapsed() > limit && fired_for != Some(st) {
                        fired_for = Some(st);
                        stuck.store(true, Ordering::SeqCst);
                        shared.paused.store(false, Ordering::SeqCst);
                        let _ = waker.wake();
                        pending.fetch_add(1, Ordering::SeqCst);
                        let _ = tx.send((b"Z".to_vec(), 500_000));
                    }
                }
            }
        })
    };

    let n_steps = s.drop_at.unwrap_or(s.steps.len()).min(s.steps.len());
    let steps: Vec<Step> = s.steps[..n_steps].to_vec();
    let mut panicked = false;
    if r.out.inconclusive.is_none() && setup_note.is_none() {
        let body = guarded(|| {
            match s.run_handler {
                None => {
                    for step in steps.iter() {
                        r.out.executed.push(step.token());
                        match step {
                            Step::Poll(t) => {
                                let timeout = Runner::timeout_of(t);
                                let started = r.before_poll(timeout);
                                let res = term.poll(timeout);
                                r.after_poll(&term, &res, started, timeout);
                                if r.poll_failed {
                                    break;
                                }
                            }
                            other => r.exec_other(&mut term, other),
                        }
                    }
                    if s.drop_at.is_none() && !r.poll_failed {
                        r.final_phase(&mut term);
                    }
                }
                Some((k, quit)) => {
                    // the polls are made by `Terminal::run`; the handler executes the steps between two polls
                    let mut queue: VecDeque<Step> = steps.iter().cloned().collect();
                    let mut calls = 0usize;
                    let mut current: Option<(Instant, Option<Duration>)>;
                    // steps up to the first poll
                    let mut first: Option<Option<Duration>> = None;
                    while let Some(step) = queue.pop_front() {
                        r.out.executed.push(step.token());
                        if let Step::Poll(t) = &step {
                            first = Some(Runner::timeout_of(t));
                            break;
                        }
                        r.exec_other(&mut term, &step);
                    }
                    if let Some(first) = first {
                        // `run_render` makes its first poll with a zero time-out whatever the script says
                        let first = if s.render { Some(Duration::new(0, 0)) } else { first };
                        current = Some((r.before_poll(first), first));
                        let mut core = |term: &mut SystemTerminal, event: Option<TerminalEvent>| -> Result<TerminalAction<()>, HErr> {
                            let (started, timeout) = current.take().unwrap();
                            r.after_poll(&*term, &Ok(event), started, timeout);
                            calls += 1;
                            if calls >= k {
                                if s.handler_panics {
                                    r.injected_panic = true;
                                    panic!("injected handler panic");
                                }
                                return if quit { Ok(TerminalAction::Quit(())) } else { Err(HErr::Injected) };
                            }
                            while let Some(step) = queue.pop_front() {
                                r.out.executed.push(step.token());
                                if let Step::Poll(t) = &step {
                                    let timeout = Runner::timeout_of(t);
                                    current = Some((r.before_poll(timeout), timeout));
                                    return Ok(match timeout {
                                        None => TerminalAction::Wait,
                                        Some(d) => TerminalAction::Sleep(d),
                                    });
                                }
                                r.exec_other(term, &step);
                            }
                            Ok(TerminalAction::Quit(()))
                        };
                        let res: Result<(), HErr> = if s.render {
                            let mut frames = 0usize;
                            term.run_render(|term, event, mut surface| {
                                // something to render: a box every frame, a coloured background every other frame
                                frames += 1;
                                if frames % 2 == 0 {
                                    surface.erase("bg=#102030".parse().unwrap());
                                }
                                surface.draw_box(None);
                                core(term, event)
                            })
                        } else {
                            term.run(first, |term, event| core(term, event))
                        };
                        if let Err(HErr::Term(e)) = res {
                            // the poll inside `run` / `run_render` failed
                            let (started, timeout) = current.take().unwrap_or((Instant::now(), None));
                            r.after_poll(&term, &Err(e), started, timeout);
                        }
                    }
                }
            }
        });
        if body.is_err() && r.injected_panic {
            // the handler's own panic: the terminal object is intact and is released below like after any other exit
            r.in_poll.lock().unwrap().since = None;
        } else if body.is_err() {
            panicked = true;
            r.fail("the terminal panicked", "no panic".into(), format!("panic after steps {:?}", r.out.executed));
        }
    }
    r.in_poll.lock().unwrap().since = None;
    r.join_helpers();
    r.out.dropped_after = if r.poll_failed { if r.quit_seen { "quit".into() } else { "error".into() } }
        else if s.run_handler.is_some() { "handler".into() } else if s.drop_at.is_some() { "mid-session".into() } else { "end".into() };

    // ---- drop
    let stalled = r.shared.paused.load(Ordering::SeqCst) && s.label.contains("stalled") && !r.hung_up;
    if !stalled {
        r.shared.paused.store(false, Ordering::SeqCst);
    }
    r.sent += accepted_sum(&verif_c17::take_trace());
    let send_before = r.sent;
    let hung_up = r.hung_up;
    if r.term_raised.is_some() && !r.quit_seen && r.out.class.is_none() {
        r.out.class = Some("termination-signal-pending-at-drop".into());
    }
    let _ = verif_c17::take_trace();
    if panicked {
        // do not run the destructor of a terminal that panicked (it would poll again)
        std::mem::forget(term);
    } else {
        let t_drop = Instant::now();
        let dropped = guarded(move || drop(term));
        r.out.drop_ms = t_drop.elapsed().as_millis();
        if dropped.is_err() {
            r.fail("dropping the terminal panicked", "no panic".into(), "panic".into());
        }
    }
    // a waker outlives the terminal: calling it afterwards (from this and from another thread) must simply return
    {
        let (w1, w2) = (r.waker.clone(), r.waker.clone());
        let late = guarded(move || {
            let _ = w1.wake();
            let _ = std::thread::spawn(move || { let _ = w2.wake(); }).join();
        });
        if late.is_err() {
            r.fail("wake() called after the terminal was released panicked", "returns (Ok or Err)".into(), "panic".into());
        }
    }
    let recs = verif_c17::take_trace();
    verif_c17::enable(false);
    unsticker_stop.store(true, Ordering::SeqCst);
    let _ = unsticker.join();
    // everything the kernel accepted reaches the peer
    let accepted: usize = recs.iter().map(|x| if let Rec::TtyWrite { accepted, .. } = x { *accepted } else { 0 }).sum();
    r.shared.paused.store(false, Ordering::SeqCst);
    if !hung_up {
        let t0 = Instant::now();
        while r.shared.count.load(Ordering::SeqCst) < send_before + accepted {
            if t0.elapsed() > SLACK {
                if r.out.inconclusive.is_none() {
                    r.out.inconclusive = Some("peer-timeout".into());
                }
                break;
            }
            std::thread::sleep(Duration::from_micros(300));
        }
    }
    let after = termios_full(keep);
    let received = r.shared.received.lock().unwrap().clone();
    if !panicked && !recs.is_empty() {
        // ---- oracle: restore
        if !hung_up {
            r.out.restore_checked = true;
            if before_full != after {
                r.fail("line settings after drop differ from those found when the tty was opened",
                    before_full.as_ref().map(|w| words_token(w)).unwrap_or("none".into()), after.as_ref().map(|w| words_token(w)).unwrap_or("none".into()));
            }
        }
        // dispose waits for the answer to its sync request with poll(1 s) and gives up on a time-out: a bounded wait by
        // design.  When the wait ran out (the last inner poll left through the deadline `break`) while output was still
        // queued, the emulator did not drain the tty within that second (load, huge backlog): whether the closing
        // sequence arrives is then a matter of timing, not of the code — inconclusive for the closing-sequence oracles
        // (the restore of the line settings is judged all the same)
        let (release_timed_out, queued_at_exit) = {
            let mut last_seg_break = false;
            let mut in_seg = false;
            let mut queued_exit = 0usize;
            for x in recs.iter() {
                match x {
                    Rec::Dispose { step, queued, .. } => {
                        if *step == "poll" {
                            in_seg = true;
                            last_seg_break = false;
                        } else {
                            in_seg = false;
                        }
                        if *step == "loop_exit" {
                            queued_exit = *queued;
                        }
                    }
                    Rec::Break if in_seg => last_seg_break = true,
                    _ => {}
                }
            }
            (last_seg_break, queued_exit)
        };
        if release_timed_out && queued_at_exit > 0 {
            r.out.release_timed_out = true;
        }
        // ---- oracle: epilogue delivered
        if !hung_up && !stalled && r.out.inconclusive.is_none() && !r.out.release_timed_out {
            r.out.epilogue_checked = true;
            let tail = &received[send_before.min(received.len())..];
            // what the closing sequence is FOR, judged on the emulator's side from the bytes it received over the whole
            // session (independent of what the application or the crate's encoder believe was sent)
            let modes = dec_modes(&received);
            let bad: Vec<String> = [(25u32, true), (1000, false), (1003, false), (1006, false)].iter()
                .filter(|(n, want)| modes.get(n).copied().unwrap_or(*n == 25) != *want)
                .map(|(n, want)| format!("?{n} {}", if *want { "reset" } else { "set" })).collect();
            if !bad.is_empty() {
                r.fail("after the terminal was released the emulator is left with the cursor hidden or mouse reporting on",
                    "cursor shown (?25 set), mouse reporting off (?1000 ?1003 ?1006 reset)".into(), bad.join(", "));
            }
            for need in EPILOGUE_REQUIRED {
                if find(tail, need).is_none() {
                    r.fail("the closing sequence lacks a required control sequence",
                        String::from_utf8_lossy(need).escape_default().to_string(),
                        String::from_utf8_lossy(&tail[tail.len().saturating_sub(64)..]).escape_default().to_string());
                }
            }
        }
        // ---- trace refinement of dispose
        let mut polls: Vec<String> = Vec::new();
        let mut seg: Option<Vec<Rec>> = None;
        let mut last_state = (0usize, 0usize);
        let mut restore_ok = false;
        let mut signals_off = false;
        let mut restore_words: Option<Vec<u32>> = None;
        let mut queued_before_epilogue = 0usize;
        let mut epilogue_growth: Option<usize> = None;
        for x in recs.iter() {
            match x {
                Rec::Dispose { step, queued, events, signals_closed } => {
                    if let Some(sg) = seg.take() {
                        polls.push(poll_model(&sg, Some(1_000_000_000), size_esc, *queued > 0).env);
                    }
                    last_state = (*queued, *events);
                    match *step {
                        "frames_drop" => queued_before_epilogue = *queued,
                        "poll" => seg = Some(Vec::new()),
                        "tcsetattr_ok" => restore_ok = true,
                        // the signals are switched off before the closing sequence is queued
                        "execute_many" => {
                            signals_off = *signals_closed;
                            epilogue_growth = Some(queued.saturating_sub(queued_before_epilogue));
                        }
                        _ => {}
                    }
                }
                Rec::Restore(w) => restore_words = Some(w.clone()),
                other => {
                    if let Some(sg) = seg.as_mut() {
                        sg.push(other.clone());
                    }
                }
            }
        }
        if let Some(w) = &restore_words {
            if Some(w.as_slice()) != before.as_deref() {
                r.fail("tcsetattr at drop is not called with the settings found when the tty was opened", before_tok.clone(), words_token(w));
            }
        } else {
            r.fail("drop never reached tcsetattr(saved)", "tcsetattr(saved) on every exit path".into(), "no restore step recorded".into());
        }
        let handed = &received[send_before.min(received.len())..(send_before + accepted).min(received.len())];
        if handed.len() == accepted && accepted <= 60_000 && restore_words.is_some() && (!hung_up) {
            let mut log: Vec<String> = Vec::new();
            if signals_off {
                log.push("X".into());
            }
            if !handed.is_empty() {
                log.push(format!("W{}", hex(handed)));
            }
            log.push("C".into());
            log.push(format!("T{}", words_token(&saved)));
            r.req.push_str(&format!(" x:{}:-:{}:{}", CAPS_TOKEN, if polls.is_empty() { "-".to_string() } else { polls.join("/") }, if restore_ok { 1 } else { 0 }));
            // `g`: bytes by which execute_many made the queue grow = the complete closing sequence (timing independent)
            r.exp.push(format!("{}[{}]q{}e{}g{}", if restore_ok { "ok" } else { "err" }, log.join(","), last_state.0, last_state.1,
                epilogue_growth.map(|g| g.to_string()).unwrap_or("?".into())));
        }
    }
    r.out.wakes = r.wake_times.lock().unwrap().len();
    if let (Some(note), true, None) = (setup_note, r.out.failures.is_empty(), &r.out.inconclusive) {
        r.out.inconclusive = Some(note);
    }
    // shut down
    r.shared.stop.store(true, Ordering::SeqCst);
    let big_output = r.big_output;
    let Runner { keys_tx, req, exp, mut out, .. } = r;
    drop(keys_tx);
    let _ = peer_thread.join();
    let _ = typist_thread.join();
    unsafe {
        libc::close(keep);
        if !hung_up {
            libc::close(master);
        }
    }
    // the bytes the renderer queues are not known to the harness: render sessions are judged by the oracle only
    let _ = std::fs::remove_file(&tee_path);
    // (a failing copy leaves the chunk in the queue after the tty took it — not part of the model: oracle only)
    out.trace = if s.render || big_output || s.tee == 2 { None } else { Some((req, exp.join(" "))) };
    out
}

// ------------------------------------------------------------------------------------------------ generation

fn keys(rng: &mut Rng, n: usize) -> Vec<u8> {
    (0..n).map(|_| *rng.pick(b"abcdefghijklmnopqrstuvwxyz0123456789")).collect()
}

fn sess(label: &str, steps: Vec<Step>, termios: u64) -> Session {
    Session { steps, drop_at: None, run_handler: None, render: false, handler_panics: false, tee: 0, termios, size_esc: termios % 5 == 0,
        high_fd: match termios % 8 { 1 | 2 => Some(40 + (termios / 8 % 24) as i32), 3 => Some(64 + (termios / 8 % 200) as i32), _ => None },
        label: label.to_string() }
}

/// the scripted session that is dropped at every step index
fn scripted() -> Vec<Step> {
    use Step::*;
    vec![
        Exec(3), Write(40, 1), Flush, Poll(Timeout::Zero), WakeInline(1), Keys(b"ab".to_vec(), 0), KeysSync, Poll(Timeout::Ms(5)),
        Winch, Poll(Timeout::Ms(5)), PeerPause, Write(150_000, 2), Flush, Write(30, 3), Flush, Poll(Timeout::Ms(3)), WakeInline(2), Winch,
        Keys(b"cd".to_vec(), 0), KeysSync, Poll(Timeout::Ms(3)), PeerResume, Poll(Timeout::Ms(20)), Poll(Timeout::Zero), Poll(Timeout::Zero),
        WakeThreads(vec![vec![2000], vec![2500, 100]]), Poll(Timeout::Inf), Poll(Timeout::Ms(10)),
    ]
}

fn fixed_sessions(rng: &mut Rng) -> Vec<Session> {
    use Step::*;
    let z = || Poll(Timeout::Zero);
    let ms = |n| Poll(Timeout::Ms(n));
    let mut v = vec![
        sess("wake-before-poll", vec![WakeInline(1), z(), z()], rng.next()),
        // coalescing: 2, 3 and 8 pending bytes, the buffer size and one more, two buffers
        sess("wake-coalesce-2", vec![WakeInline(2), z(), z(), ms(2)], rng.next()),
        sess("wake-coalesce-3", vec![WakeInline(3), ms(2), z()], rng.next()),
        sess("wake-coalesce-8-threads", vec![WakeThreads(vec![vec![0]; 8]), Sleep(3000), z(), z()], rng.next()),
        sess("wake-1024", vec![WakeInline(1024), z(), z(), z()], rng.next()),
        sess("wake-1025", vec![WakeInline(1025), z(), z(), z()], rng.next()),
        sess("wake-2048", vec![WakeInline(2048), z(), z(), z()], rng.next()),
        // a wake together with input and a signal in one iteration
        sess("wake-with-keys", vec![Keys(b"xy".to_vec(), 0), KeysSync, WakeInline(1), Winch, ms(5), z(), z(), z()], rng.next()),
        sess("wake-with-queued-events", vec![Keys(b"pqrs".to_vec(), 0), KeysSync, ms(5), WakeInline(1), z(), z(), z(), z()], rng.next()),
        // infinite time-out, woken by threads
        sess("poll-inf-1-thread", vec![WakeThreads(vec![vec![8000]]), Poll(Timeout::Inf)], rng.next()),
        sess("poll-inf-8-threads", vec![WakeThreads((0..8).map(|i| vec![3000 + 700 * i, 50]).collect()), Poll(Timeout::Inf), Poll(Timeout::Ms(20))], rng.next()),
        sess("poll-inf-key", vec![Keys(b"k".to_vec(), 6000), Poll(Timeout::Inf)], rng.next()),
        // output pending while input, wake-ups and signals arrive
        sess("pending-output-winch", vec![PeerPause, Write(300_000, 5), Flush, ms(2), Winch, ms(10), PeerResume, ms(30), z()], rng.next()),
        sess("pending-output-keys", vec![PeerPause, Write(200_000, 6), Flush, ms(2), Keys(b"hello".to_vec(), 0), KeysSync, WakeInline(1), ms(10),
            PeerResume, ms(30), z(), z(), z(), z(), z(), z()], rng.next()),
        sess("finite-deadline-with-pending-output", vec![PeerPause, Write(400_000, 7), Flush, ms(25), ms(25), WakeThreads(vec![vec![1000, 1000, 1000, 1000]]),
            ms(25), PeerResume, ms(50)], rng.next()),
        // select interrupted by a signal
        sess("winch-interrupts-select", vec![WinchAsync(4000), ms(30), z(), WinchAsync(2000), WakeThreads(vec![vec![9000]]), Poll(Timeout::Inf), ms(5)], rng.next()),
        // termination signals
        sess("sigterm", vec![z(), Term(libc::SIGTERM), ms(5), z()], rng.next()),
        sess("sigint-with-queued-events", vec![Keys(b"uv".to_vec(), 0), KeysSync, ms(5), WakeInline(1), Term(libc::SIGINT), z(), z(), z(), z(), z()], rng.next()),
        sess("sigquit-pending-output", vec![PeerPause, Write(200_000, 8), Flush, ms(2), Term(libc::SIGQUIT), ms(10), ms(10)], rng.next()),
        // hang-up: the tty is no longer open on the other side
        sess("hangup", vec![Exec(1), z(), HangUp, ms(10), z()], rng.next()),
        sess("hangup-pending-output", vec![PeerPause, Write(100_000, 9), Flush, ms(1), HangUp, ms(10)], rng.next()),
        // drop with a peer that does not read (the closing sequence cannot be delivered; settings still restored)
        sess("stalled-drop", vec![PeerPause, Write(300_000, 10), Flush, ms(5)], rng.next()),
        // escape-size mode: the size query that answers SIGWINCH is queued behind pending frames, which are dropped
        Session { size_esc: true, ..sess("sizequery-frames-drop", vec![Winch, PeerPause, Write(214_983, 10), Flush, Write(1395, 51), ms(3), Exec(267),
            FramesDrop, ms(7), PeerResume], rng.next()) },
        sess("drop-immediately", vec![], rng.next()),
        // a termination signal arrives but is not observed by a poll before the terminal is released, output pending
        Session { drop_at: Some(5), ..sess("pendingterm-drop-with-output", vec![PeerPause, Write(200_000, 11), Flush, ms(2), Term(libc::SIGTERM)], rng.next()) },
        Session { drop_at: Some(3), ..sess("pendingterm-drop-small-output", vec![Exec(4), Flush, Term(libc::SIGINT)], rng.next()) },
        sess("drop-with-frames", vec![Write(20, 1), Flush, Write(30, 2), Flush, Exec(0), Flush], rng.next()),
    ];
    // escape-size mode, SIGWINCH while the poll runs with an EMPTY write queue: the size query is queued inside the loop and
    // must still be written (interest in writability is recomputed every iteration); the poll has no time-out
    v.push(Session { size_esc: true, ..sess("sizequery-idle-poll-inf", vec![WinchAsync(3000), WakeThreads(vec![vec![8000]]), Poll(Timeout::Inf), ms(20), z(), z()], rng.next()) });
    v.push(Session { size_esc: true, ..sess("sizequery-idle-poll-inf-raised-before", vec![Winch, WakeThreads(vec![vec![3000]]), Poll(Timeout::Inf), ms(20), z(), z()], rng.next()) });
    // position(): events that arrive while it waits for the emulator are set aside and must come back, also when the
    // emulator is slow (1.6 s) — and in arrival order when more input follows the answer in the same read
    v.push(sess("position-slow-answer", vec![Position { wake_us: 200_000, key: b"a".to_vec(), key_us: 300_000, delay_ms: 1600, suffix: vec![] }, z(), z(), z()], rng.next()));
    v.push(sess("position-fast-answer", vec![WakeInline(1), Position { wake_us: 500, key: b"xy".to_vec(), key_us: 0, delay_ms: 3, suffix: vec![] }, z(), z(), z(), z()], rng.next()));
    v.push(sess("position-input-behind-answer", vec![Keys(b"a".to_vec(), 0), KeysSync, Position { wake_us: 0, key: vec![], key_us: 0, delay_ms: 5, suffix: b"b".to_vec() },
        z(), z(), z()], rng.next()));
    // DEC modes: what the closing sequence is for.  Modes on and delivered, then released — plainly; after the application's own
    // clean-up went into a frame that the release drops (behind an explicit flush, behind a backlog); after its clean-up was sent
    let modes_on = || vec![Mode(1000, true), Mode(1003, true), Mode(1006, true), Mode(25, false), Flush, ms(5), z()];
    let cleanup = || vec![Mode(1003, false), Mode(1006, false), Mode(1000, false), Mode(25, true)];
    let at_end = |label: &str, steps: Vec<Step>, rng: &mut Rng| { let n = steps.len(); Session { drop_at: Some(n), ..sess(label, steps, rng.next()) } };
    v.push(at_end("modes-release-plain", modes_on(), rng));
    v.push(at_end("modes-cleanup-in-dropped-frame", [modes_on(), vec![Write(10, 1), Flush], cleanup()].concat(), rng));
    v.push(at_end("modes-cleanup-behind-backlog", [modes_on(), vec![PeerPause, Write(200_000, 2), Flush, ms(2)], cleanup()].concat(), rng));
    v.push(at_end("modes-cleanup-sent", [modes_on(), cleanup(), vec![Flush, ms(5)]].concat(), rng));
    // debugging copy of the output (`duplicate_output`): to a file; to /dev/full with little output (the copy stays in its buffer);
    // to /dev/full with more than the 8 KiB buffer in small frames: the poll that flushes the copy fails AFTER the tty took its frame, the
    // application releases the terminal with one small frame still queued (what is left fits into one tty write: with a large frame
    // left over, upstream itself does not get the closing sequence out — see level_note)
    v.push(Session { tee: 1, ..at_end("tee-file", [modes_on(), vec![Write(20_000, 6), Flush, ms(10), z()]].concat(), rng) });
    v.push(Session { tee: 2, ..at_end("tee-full-short", modes_on(), rng) });
    v.push(Session { tee: 2, ..at_end("tee-full-after-error", [modes_on(), vec![Write(3000, 7), Flush, ms(5), Write(3000, 8), Flush, ms(5),
        Write(3000, 9), Flush, ms(5), z()]].concat(), rng) });
    // the application's own sync report is still queued when the terminal is released (key and report came in one read)
    v.push(at_end("stale-sync-report-at-drop", [modes_on(), vec![SyncDA(b"q".to_vec()), ms(20)]].concat(), rng));
    // one frame of 6 MB in flight (only its beginning accepted by the tty) when the terminal is released; controls 1 and 3 MB
    for (mb, tag) in [(6usize, 3usize), (1, 4), (3, 5)] {
        v.push(at_end(&format!("modes-frame-in-flight-{mb}mb"), [modes_on(), vec![PeerPause, Write(mb * 1_000_000, tag), ms(50)]].concat(), rng));
    }
    // exact numbers of pending wake bytes (a drain loop with a small buffer loses multiples of its size)
    for n in [4usize, 8, 16, 32, 64, 128, 192, 256] {
        v.push(sess(&format!("wake-count-{n}"), vec![WakeInline(n), z(), z(), ms(2)], rng.next()));
    }
    // a burst of SIGWINCH while output is pending: the second one is handled while the first Resize is still queued
    v.push(Session { size_esc: false, ..sess("winch-burst-pending-output", vec![PeerPause, Write(300_000, 12), Flush, Winch, WinchAsync(3000),
        ms(20), PeerResume, ms(30), z(), z()], rng.next()) });
    v.push(Session { size_esc: true, ..sess("winch-burst-pending-output-escape-size", vec![PeerPause, Write(300_000, 13), Flush, Winch, WinchAsync(3000),
        ms(20), PeerResume, ms(30), z(), z(), z()], rng.next()) });
    // Terminal::run_render: handler error at call k, quit, a Resize mid-session (renderer re-created), a poll error
    // (termination signal: erase + frame + poll(0) clean-up path), frames pending at drop
    for (k, quit, term_signal) in [(1usize, false, false), (3, false, false), (5, false, false), (4, true, false), (99, false, false), (99, false, true)] {
        let mut steps = vec![Poll(Timeout::Zero), WakeInline(1), Keys(b"rs".to_vec(), 0), KeysSync, Poll(Timeout::Ms(5)), Poll(Timeout::Zero),
            Winch, Poll(Timeout::Ms(5)), Poll(Timeout::Zero), WakeThreads(vec![vec![3000]]), Poll(Timeout::Inf)];
        if term_signal {
            steps.extend([Term(libc::SIGTERM), Poll(Timeout::Ms(5)), Poll(Timeout::Zero)]);
        }
        steps.push(Poll(Timeout::Zero));
        let mut s = sess(&format!("render-{}-{k}", if term_signal { "sigterm" } else if quit { "quit" } else { "error" }), steps, rng.next());
        s.run_handler = Some((k, quit));
        s.render = true;
        v.push(s);
    }
    // the handler panics: unwinding leaves `run` / `run_render`, the terminal is dropped afterwards
    for (k, render) in [(2usize, false), (3, true)] {
        let mut s = sess(&format!("handler-panic-{}-{k}", if render { "render" } else { "run" }), vec![Mode(1000, true), Mode(25, false), Poll(Timeout::Zero), WakeInline(1),
            Poll(Timeout::Ms(5)), Write(3000, 2), Poll(Timeout::Zero), Poll(Timeout::Ms(5)), Poll(Timeout::Zero)], rng.next());
        s.run_handler = Some((k, false));
        s.render = render;
        s.handler_panics = true;
        v.push(s);
    }
    for (k, quit) in [(1, false), (2, false), (4, false), (3, true), (99, false)] {
        let mut s = sess(&format!("run-handler-{}-{k}", if quit { "quit" } else { "error" }),
            vec![Poll(Timeout::Zero), WakeInline(1), Keys(b"rs".to_vec(), 0), KeysSync, Poll(Timeout::Ms(5)), Exec(2), Poll(Timeout::Zero),
                Winch, Write(5000, 4), Poll(Timeout::Ms(5)), WakeThreads(vec![vec![3000]]), Poll(Timeout::Inf), Poll(Timeout::Zero)], rng.next());
        s.run_handler = Some((k, quit));
        v.push(s);
    }
    v
}

fn random_session(rng: &mut Rng, idx: u64, thorough: bool) -> Session {
    use Step::*;
    let n = 4 + rng.below(14) as usize;
    let mut steps = Vec::new();
    let mut paused = false;
    let mut wake_guaranteed = false;
    let mut terminated = false;
    for _ in 0..n {
        match rng.below(20) {
            0..=4 => {
                let t = match rng.below(8) {
                    0..=2 => Timeout::Zero,
                    3..=5 => Timeout::Ms(1 + rng.below(12)),
                    6 => Timeout::Ms(15 + rng.below(25)),
                    _ => if wake_guaranteed && !paused { Timeout::Inf } else { Timeout::Ms(1 + rng.below(5)) },
                };
                // an infinite time-out only directly after waker threads were started: any poll may consume the wake
                wake_guaranteed = false;
                steps.push(Poll(t));
            }
            5 => steps.push(WakeInline(if rng.chance(1, 4) { 1 + rng.below(300) as usize } else { 1 + rng.below(4) as usize })),
            6..=8 => {
                let threads = 1 + rng.below(8) as usize;
                let ts: Vec<Vec<u64>> = (0..threads).map(|_| (0..1 + rng.below(3)).map(|_| rng.below(6000)).collect()).collect();
                steps.push(WakeThreads(ts));
                wake_guaranteed = true;
            }
            9..=10 => {
                let nk = 1 + rng.below(6) as usize;
                let k = keys(rng, nk);
                steps.push(Keys(k, rng.below(4000)));
                if rng.chance(1, 2) {
                    steps.push(KeysSync);
                }
            }
            11 => steps.push(Winch),
            12 => steps.push(WinchAsync(rng.below(5000))),
            13 => {
                if rng.chance(1, 3) {
                    steps.push(Mode(*rng.pick(&[25u16, 1000, 1003, 1006, 7]), rng.chance(1, 2)))
                } else {
                    steps.push(Write(1 + rng.below(3000) as usize, rng.below(95) as usize))
                }
            }
            14 => steps.push(Exec(rng.below(500) as usize)),
            15 => steps.push(Flush),
            16 => {
                if paused {
                    steps.push(PeerResume);
                    paused = false;
                } else if rng.chance(1, 2) {
                    steps.push(PeerPause);
                    steps.push(Write(80_000 + rng.below(200_000) as usize, rng.below(95) as usize));
                    steps.push(Flush);
                    paused = true;
                }
            }
            17 => {
                if rng.chance(1, 2) {
                    steps.push(Sleep(rng.below(3000)))
                } else {
                    // a slow emulator now and then (thorough tier only: each costs more than a second)
                    let delay_ms = if thorough && rng.chance(1, 12) { 1100 + rng.below(700) } else { rng.below(4) };
                    let nk = 1 + rng.below(3) as usize;
                    let key = if rng.chance(1, 2) { keys(rng, nk) } else { vec![] };
                    let suffix = if rng.chance(1, 3) { keys(rng, 1) } else { vec![] };
                    steps.push(Position { wake_us: if rng.chance(1, 2) { 1 + rng.below(delay_ms * 500 + 2000) } else { 0 }, key, key_us: rng.below(delay_ms * 500 + 2000), delay_ms, suffix });
                    paused = false;
                    wake_guaranteed = false;
                }
            }
            18 => {
                if rng.chance(1, 4) {
                    steps.push(FramesDrop)
                }
            }
            _ => {
                if rng.chance(1, 5) && !terminated {
                    steps.push(Term(*rng.pick(&[libc::SIGTERM, libc::SIGINT, libc::SIGQUIT])));
                    steps.push(Poll(Timeout::Ms(3)));
                    wake_guaranteed = false;
                    terminated = true;
                }
            }
        }
    }
    if paused {
        steps.push(PeerResume);
    }
    let mut s = sess(&format!("random-{idx}"), steps, rng.next());
    match rng.below(10) {
        0..=2 => s.drop_at = Some(rng.below(s.steps.len() as u64 + 1) as usize),
        3 => {
            s.run_handler = Some((1 + rng.below(6) as usize, rng.chance(1, 3)));
            s.render = rng.chance(1, 3);
        }
        _ => {}
    }
    s
}

// ------------------------------------------------------------------------------------------------ main

struct Totals {
    sessions: u64,
    inconclusive: u64,
    polls: usize,
    iterations: usize,
    retries: usize,
    wakes: usize,
    wake_events: usize,
    coalesced: usize,
    keys: usize,
    resizes: usize,
    quits: usize,
    restore_checked: u64,
    epilogue_checked: u64,
    traces: u64,
    release_timed_out: u64,
    flaky: u64,
}

/// run one session on a worker thread; a session that hangs altogether is a finding, and the process must go on
fn run_guarded(s: &Session) -> Result<Outcome, String> {
    let (tx, rx) = mpsc::channel();
    let s2 = s.clone();
    std::thread::spawn(move || {
        let r = guarded(|| run_session(&s2));
        let _ = tx.send(r);
    });
    HOPELESS.store(false, Ordering::SeqCst);
    let t0 = Instant::now();
    loop {
        match rx.recv_timeout(Duration::from_millis(200)) {
            Ok(Ok(o)) => return Ok(o),
            Ok(Err(())) => return Err("the session panicked".into()),
            Err(mpsc::RecvTimeoutError::Disconnected) => return Err("the session thread died".into()),
            Err(mpsc::RecvTimeoutError::Timeout) => {
                if HOPELESS.load(Ordering::SeqCst) {
                    return Err("a poll never returned: not on its deadline + 5 s / 10 s after a wake request, and not within 5 more seconds after the \
                        harness resumed the peer, fired the waker and typed a key".into());
                }
                if t0.elapsed() > Duration::from_secs(60) {
                    return Err("the session did not finish within 60 s (poll or drop never returned)".into());
                }
            }
        }
    }
}

/// Run a session; when it fails, run it again (twice; once after a hang).  Schedules and machine load differ from run to
/// run while a defect of the code fails every time: only a session that fails EVERY time is reported, otherwise it is
/// logged as inconclusive (`flaky`).
fn run_confirmed(s: &Session) -> Result<Outcome, String> {
    let first = run_guarded(s);
    let failed = |r: &Result<Outcome, String>| match r { Ok(o) => !o.failures.is_empty(), Err(_) => true };
    if !failed(&first) {
        return first;
    }
    let reruns = if first.is_err() { 1 } else { 2 };
    for _ in 0..reruns {
        let again = run_guarded(s);
        if !failed(&again) {
            let mut o = again.unwrap();
            o.flaky = true;
            if o.inconclusive.is_none() {
                o.inconclusive = Some(format!("flaky:{}", match &first { Ok(f) => f.failures[0].0.clone(), Err(e) => e.clone() }));
            }
            return Ok(o);
        }
    }
    first
}

fn report(out: &mut Out, tot: &mut Totals, s: &Session, res: Result<Outcome, String>) -> bool {
    tot.sessions += 1;
    let o = match res {
        Ok(o) => o,
        Err(what) => {
            out.fail(&what, s.to_json(), json!("session completes"), json!("hung / panicked"));
            return false;
        }
    };
    let key = format!("{:?}{:?}{:?}", s.steps, s.drop_at, s.run_handler);
    out.case(&key, o.polls > 0 || !o.dropped_after.is_empty());
    out.hist(&format!("dropped-after:{}", o.dropped_after));
    out.hist(&format!("kind:{}", s.label.split('-').next().unwrap_or("?")));
    out.hist(if s.size_esc { "size:escape-sequences" } else { "size:ioctl" });
    tot.polls += o.polls;
    tot.iterations += o.iterations;
    tot.retries += o.select_retries;
    tot.wakes += o.wakes;
    tot.wake_events += o.wake_events;
    tot.coalesced += o.coalesced_reads;
    tot.keys += o.keys;
    tot.resizes += o.resizes;
    tot.quits += o.quits;
    tot.restore_checked += o.restore_checked as u64;
    tot.epilogue_checked += o.epilogue_checked as u64;
    tot.release_timed_out += o.release_timed_out as u64;
    tot.flaky += o.flaky as u64;
    if o.release_timed_out {
        out.hist("inconclusive:release-timed-out-with-output-queued");
    }
    if let Some(why) = &o.inconclusive {
        tot.inconclusive += 1;
        out.hist(&format!("inconclusive:{}", why.split(':').next().unwrap_or("?")));
    }
    for (what, exp, got) in o.failures.iter() {
        let mut input = s.to_json();
        if let Some(c) = &o.class {
            input["class"] = json!(c);
        }
        out.fail(what, input, json!(exp), json!(got));
    }
    if o.failures.is_empty() && o.inconclusive.is_none() {
        if let Some((req, exp)) = &o.trace {
            out.corr(req, exp);
            tot.traces += 1;
        }
    }
    out.sample(json!({"session": s.to_json(), "polls": o.polls, "wakes": o.wakes, "wake_events": o.wake_events, "keys": o.keys,
        "resizes": o.resizes, "quits": o.quits, "dropped_after": o.dropped_after, "drop_ms": o.drop_ms as u64}));
    true
}

fn finish_extra(out: &mut Out, tot: &Totals) {
    out.extra("pty", json!({
        "sessions": tot.sessions, "inconclusive_sessions": tot.inconclusive, "polls": tot.polls, "loop_iterations": tot.iterations,
        "select_interrupted": tot.retries, "wake_calls": tot.wakes, "wake_events": tot.wake_events, "waker_reads_of_more_than_one_byte": tot.coalesced,
        "key_events": tot.keys, "resize_events": tot.resizes, "quit_errors": tot.quits, "restore_checked": tot.restore_checked,
        "epilogue_checked": tot.epilogue_checked, "traces_validated": tot.traces,
        "releases_timed_out_with_output_queued": tot.release_timed_out, "sessions_failed_once_then_passed": tot.flaky,
        "master_write_retries": MASTER_WRITE_RETRIES.load(Ordering::SeqCst),
        "note": "sampling of thread / kernel schedules on a real pseudo-terminal, not a proof; every timing expectation has 5 s of slack; \
                 sessions that cannot be judged are counted as inconclusive, never as violations",
    }));
}

const RULE: &str = "sessions of the real UnixTerminal on a pty: white-box sessions (coalescing at 2/3/8/1024/1025/2048 pending wake bytes, wake together \
    with input and signals, infinite time-outs woken by 1..8 threads, output pending while input / SIGWINCH / wakes arrive, select interrupted by a \
    signal, SIGTERM / SIGINT / SIGQUIT, hang-up, stalled peer, Terminal::run with handler errors), one scripted session dropped at every step index, \
    then random sessions (4..17 steps, a third dropped mid-way or run through Terminal::run); distinct by script; non-trivial = at least one poll or a drop";

fn main() {
    // the capabilities the terminal detects depend on the environment: fix it (before any thread exists)
    unsafe {
        std::env::set_var("TERM", "xterm-256color");
        std::env::remove_var("COLORTERM");
        std::env::remove_var("SURFNTERM");
    }
    let cfg = Cfg::from_env();
    let mut out = cfg.out();
    verif_harness::silence_panics();
    let mut rng = Rng::new(cfg.seed);
    let mut tot = Totals { sessions: 0, inconclusive: 0, polls: 0, iterations: 0, retries: 0, wakes: 0, wake_events: 0, coalesced: 0, keys: 0,
        resizes: 0, quits: 0, restore_checked: 0, epilogue_checked: 0, traces: 0, release_timed_out: 0, flaky: 0 };
    if let Some(v) = cfg.replay.clone() {
        if let Some(s) = Session::from_json(&v["failure"]["input"]) {
            // schedules are not reproducible: try a few times
            for _ in 0..5 {
                let before = out.failure_count;
                let r = run_guarded(&s);
                report(&mut out, &mut tot, &s, r);
                if out.failure_count > before {
                    break;
                }
            }
        }
        finish_extra(&mut out, &tot);
        out.finish("replay of one recorded failing session");
        return;
    }
    // the model's closing sequence against the encoder's, for every capability set
    for (depth, d) in [(surf_n_term::encoder::ColorDepth::TrueColor, 't'), (surf_n_term::encoder::ColorDepth::EightBit, 'e'), (surf_n_term::encoder::ColorDepth::Gray, 'g')] {
        for kitty in [false, true] {
            let caps = TerminalCaps { depth, glyphs: false, kitty_keyboard: kitty };
            out.corr(&format!("c17 e {d}{}", if kitty { 1 } else { 0 }), &hex(&epilogue_bytes(&caps)));
        }
    }
    let t0 = Instant::now();
    let (target, budget) = if cfg.thorough { (20000u64, Duration::from_secs(480)) } else { (300u64, Duration::from_secs(55)) };
    let mut all: Vec<Session> = fixed_sessions(&mut rng);
    let script = scripted();
    for i in 0..=script.len() {
        let mut s = sess(&format!("scripted-drop-at-{i}"), script.clone(), rng.next());
        s.drop_at = if i == script.len() { None } else { Some(i) };
        all.push(s);
    }
    let mut hung = 0;
    for s in all.iter() {
        let r = run_confirmed(s);
        if !report(&mut out, &mut tot, s, r) {
            hung += 1;
            if hung >= 2 {
                break;
            }
        }
        if out.failure_count >= 8 {
            break;
        }
    }
    let mut idx = 0u64;
    while hung < 2 && tot.sessions < target && t0.elapsed() < budget && out.failure_count < 8 {
        let s = random_session(&mut rng, idx, cfg.thorough);
        idx += 1;
        let r = run_confirmed(&s);
        if !report(&mut out, &mut tot, &s, r) {
            hung += 1;
        }
    }
    // the write queue behind `execute` / `write`: the closing sequence is queued with `execute_many(..).unwrap_or(())`, so a
    // queue that refuses data loses it silently — `Write for IOQueue` accepts everything, whatever is already waiting
    {
        use surf_n_term::common::IOQueue;
        let mut q = IOQueue::new();
        let big = vec![b'x'; 5 << 20];
        let first = q.write(&big).map_err(|e| e.kind());
        let second = q.write(b"\x1b[?25h").map_err(|e| e.kind());
        out.case("ioqueue-backlog", true);
        if first != Ok(big.len()) || second != Ok(6) || q.len() != big.len() + 6 {
            out.fail("the write queue refuses output behind a backlog (the closing sequence queued by the release would be lost)",
                json!({"label": "ioqueue-backlog", "backlog": big.len(), "then": "ESC[?25h"}), json!("both writes accepted in full"),
                json!(format!("{first:?} then {second:?}, len {}", q.len())));
        }
    }
    finish_extra(&mut out, &tot);
    out.finish(RULE);
    // worker threads of hung sessions may still be blocked inside the terminal
    std::process::exit(0);
}
