//! C19: serialised forms round-trip; no JSON document crashes deserialisation.
//!
//! (a) in-process: FaceAttrs operator programs, faces (Display/FromStr/serde), sizes, key chords, images
//!     (crops, 1/3/4 channel inputs) — correspondence with `SurfModel.Serde` / `SurfModel.KeyParse`, and an
//!     independent oracle: structural equality after the round trip / documented pixels.
//! (c) glyph / text / view-tree documents: correspondence with `SurfModel.SerdeView` (verdict for every document,
//!     the layout trees of the deserialised view for documents on the exact grid of the C10 layout model).
//! (b) JSON fuzz: structured documents for image / glyph / text / view tree, run in child processes
//!     (`c19 batch <in> <out>`): oracle = Ok or Err, never a panic / abort / hang / huge allocation; every
//!     value that deserialises is laid out and rendered.
use serde::Deserialize;
use serde::de::DeserializeSeed;
use serde_json::{Value, json};
use std::collections::HashMap;
use std::io::Write as _;
use std::str::FromStr;
use std::sync::atomic::{AtomicUsize, Ordering};
use surf_n_term::view::*;
use surf_n_term::*;
use verif_harness::{Cfg, r#gen::Rng, guarded, out::Out, out::hex};

// ---------------------------------------------------------------------------------------------
// counting allocator: largest single allocation request since the last reset

struct CountingAlloc;
static MAX_REQ: AtomicUsize = AtomicUsize::new(0);
unsafe impl std::alloc::GlobalAlloc for CountingAlloc {
    unsafe fn alloc(&self, l: std::alloc::Layout) -> *mut u8 {
        MAX_REQ.fetch_max(l.size(), Ordering::Relaxed);
        unsafe { std::alloc::System.alloc(l) }
    }
    unsafe fn dealloc(&self, p: *mut u8, l: std::alloc::Layout) {
        unsafe { std::alloc::System.dealloc(p, l) }
    }
    unsafe fn realloc(&self, p: *mut u8, l: std::alloc::Layout, n: usize) -> *mut u8 {
        MAX_REQ.fetch_max(n, Ordering::Relaxed);
        unsafe { std::alloc::System.realloc(p, l, n) }
    }
    unsafe fn alloc_zeroed(&self, l: std::alloc::Layout) -> *mut u8 {
        MAX_REQ.fetch_max(l.size(), Ordering::Relaxed);
        unsafe { std::alloc::System.alloc_zeroed(l) }
    }
}
#[global_allocator]
static ALLOC: CountingAlloc = CountingAlloc;

/// no single allocation while handling one (capped) document may exceed this
const ALLOC_CAP: usize = 32 << 20;
/// a zero-area size whose other dimension is above this makes `SurfaceOwned::new_with` idle for a long time
const IDLE_DIM: u64 = 1 << 16;

// ---------------------------------------------------------------------------------------------
// small helpers

fn cps(s: &str) -> String {
    if s.is_empty() { "-".to_string() } else { s.chars().map(|c| (c as u32).to_string()).collect::<Vec<_>>().join(",") }
}

fn b64(data: &[u8]) -> String {
    const T: &[u8; 64] = b"ABCDEFGHIJKLMNOPQRSTUVWXYZabcdefghijklmnopqrstuvwxyz0123456789+/";
    let mut s = String::new();
    for c in data.chunks(3) {
        let n = (c[0] as u32) << 16 | (*c.get(1).unwrap_or(&0) as u32) << 8 | *c.get(2).unwrap_or(&0) as u32;
        s.push(T[(n >> 18) as usize & 63] as char);
        s.push(T[(n >> 12) as usize & 63] as char);
        s.push(if c.len() > 1 { T[(n >> 6) as usize & 63] as char } else { '=' });
        s.push(if c.len() > 2 { T[n as usize & 63] as char } else { '=' });
    }
    s
}

fn unhex(s: &str) -> Vec<u8> {
    if s == "-" {
        return vec![];
    }
    (0..s.len() / 2).map(|i| u8::from_str_radix(&s[2 * i..2 * i + 2], 16).unwrap_or(0)).collect()
}

/// JSON text builder that can express what `serde_json::Value` cannot: repeated keys, key order, raw tokens
#[derive(Clone, Debug)]
enum J {
    Raw(String),
    Str(String),
    Obj(Vec<(String, J)>),
    Arr(Vec<J>),
}

impl J {
    /// some object of the document repeats a key (only the text path of serde_json shows that to the visitors)
    fn has_repeated_key(&self) -> bool {
        match self {
            J::Obj(es) => {
                let mut seen = std::collections::HashSet::new();
                es.iter().any(|(k, v)| !seen.insert(k.as_str()) || v.has_repeated_key())
            }
            J::Arr(xs) => xs.iter().any(|v| v.has_repeated_key()),
            _ => false,
        }
    }
    fn write(&self, out: &mut String) {
        match self {
            J::Raw(r) => out.push_str(r),
            J::Str(s) => out.push_str(&serde_json::to_string(s).unwrap()),
            J::Obj(es) => {
                out.push('{');
                for (i, (k, v)) in es.iter().enumerate() {
                    if i > 0 {
                        out.push(',');
                    }
                    out.push_str(&serde_json::to_string(k).unwrap());
                    out.push(':');
                    v.write(out);
                }
                out.push('}');
            }
            J::Arr(xs) => {
                out.push('[');
                for (i, v) in xs.iter().enumerate() {
                    if i > 0 {
                        out.push(',');
                    }
                    v.write(out);
                }
                out.push(']');
            }
        }
    }
    fn text(&self) -> String {
        let mut s = String::new();
        self.write(&mut s);
        s
    }
    fn num(n: impl std::fmt::Display) -> J {
        J::Raw(n.to_string())
    }
    fn s(x: &str) -> J {
        J::Str(x.to_string())
    }
}

// ---------------------------------------------------------------------------------------------
// FaceAttrs observed through the public API

const FLAGS: [(FaceAttrs, u16, &str); 5] = [
    (FaceAttrs::BOLD, 8, "bold"),
    (FaceAttrs::ITALIC, 16, "italic"),
    (FaceAttrs::BLINK, 32, "blink"),
    (FaceAttrs::REVERSE, 64, "reverse"),
    (FaceAttrs::STRIKE, 128, "strike"),
];
const CONSTS: [(FaceAttrs, u16); 11] = [
    (FaceAttrs::EMPTY, 0),
    (FaceAttrs::UNDERLINE, 1),
    (FaceAttrs::UNDERLINE_DOUBLE, 2),
    (FaceAttrs::UNDERLINE_CURLY, 3),
    (FaceAttrs::UNDERLINE_DOTTED, 4),
    (FaceAttrs::UNDERLINE_DASHED, 5),
    (FaceAttrs::BOLD, 8),
    (FaceAttrs::ITALIC, 16),
    (FaceAttrs::BLINK, 32),
    (FaceAttrs::REVERSE, 64),
    (FaceAttrs::STRIKE, 128),
];

fn under_num(u: UnderlineStyle) -> u16 {
    match u {
        UnderlineStyle::None => 0,
        UnderlineStyle::Straight => 1,
        UnderlineStyle::Double => 2,
        UnderlineStyle::Curly => 3,
        UnderlineStyle::Dotted => 4,
        UnderlineStyle::Dashed => 5,
    }
}
fn under_of(n: u16) -> UnderlineStyle {
    match n {
        1 => UnderlineStyle::Straight,
        2 => UnderlineStyle::Double,
        3 => UnderlineStyle::Curly,
        4 => UnderlineStyle::Dotted,
        5 => UnderlineStyle::Dashed,
        _ => UnderlineStyle::None,
    }
}
/// the attribute word as far as the public API shows it: underline style + the five flags
fn attrs_bits(a: FaceAttrs) -> u16 {
    under_num(a.underline()) + FLAGS.iter().filter(|(f, _, _)| a.contains(*f)).map(|(_, b, _)| *b).sum::<u16>()
}
/// the value built from named constants with the by-value operators that shows the same attributes
fn attrs_of_bits(bits: u16) -> FaceAttrs {
    let mut a = FaceAttrs::from(under_of(bits & 7));
    for (f, b, _) in FLAGS.iter() {
        if bits & b != 0 {
            a = a | *f;
        }
    }
    a
}

/// what a value feeds to a hasher through its (derived) `Hash`: the raw fields, without any accessor
#[derive(Default)]
struct RecordingHasher(Vec<u64>);
impl std::hash::Hasher for RecordingHasher {
    fn finish(&self) -> u64 {
        0
    }
    fn write(&mut self, bytes: &[u8]) {
        for b in bytes {
            self.0.push(*b as u64);
        }
    }
    fn write_u16(&mut self, i: u16) {
        self.0.push(i as u64);
    }
    fn write_u32(&mut self, i: u32) {
        self.0.push(i as u64);
    }
    fn write_u64(&mut self, i: u64) {
        self.0.push(i);
    }
    fn write_usize(&mut self, i: usize) {
        self.0.push(i as u64);
    }
}
fn hash_words<T: std::hash::Hash>(t: &T) -> Vec<u64> {
    let mut h = RecordingHasher::default();
    t.hash(&mut h);
    h.0
}
/// the private `bits: u16` of a `FaceAttrs`, read raw (derived `Hash` writes the one field); the accessor based
/// `attrs_bits` is cross-checked against it wherever both are available
fn attrs_raw(a: FaceAttrs) -> u64 {
    hash_words(&a).first().copied().unwrap_or(u64::MAX)
}
/// the private `bits: u32` of a `KeyMod`, read raw
fn keymod_raw(m: KeyMod) -> u64 {
    hash_words(&m).first().copied().unwrap_or(u64::MAX)
}
/// a face as raw pieces: colour bytes and the raw attribute word — equality of faces is judged on these, not
/// through `PartialEq for Face`
fn face_raw(f: &Face) -> (Option<[u8; 4]>, Option<[u8; 4]>, u64) {
    (f.fg.map(|c| c.to_rgba()), f.bg.map(|c| c.to_rgba()), attrs_raw(f.attrs))
}

fn color_wire(c: Option<RGBA>) -> String {
    match c {
        None => "none".to_string(),
        Some(c) => {
            let [r, g, b, a] = c.to_rgba();
            format!("{r}.{g}.{b}.{a}")
        }
    }
}
fn color_from_wire(s: &str) -> Option<RGBA> {
    let v: Vec<u8> = s.split('.').filter_map(|x| x.parse().ok()).collect();
    if v.len() == 4 { Some(RGBA::new(v[0], v[1], v[2], v[3])) } else { None }
}
fn face_wire(f: &Face) -> String {
    format!("{} {} {}", color_wire(f.fg), color_wire(f.bg), attrs_raw(f.attrs))
}

// ---------------------------------------------------------------------------------------------
// context shared by the in-process cases

struct Ctx {
    out: Out,
    rng: Rng,
    thorough: bool,
    /// children that died in a batch but answered when their document was run alone (load / memory pressure)
    inconclusive_kills: u64,
    /// documents whose handling requested a large allocation that the size of the document itself justifies
    large_allocations: u64,
    /// layout / render errors seen per kind of error site, for the evidence
    layout_errors: u64,
}

/// an allocation is backed by the document when it is proportional to the bytes the document itself carries
fn alloc_backed(max_req: usize, doc_len: usize) -> bool {
    max_req <= 64 * doc_len + (1 << 20)
}

include!("c19/part_a.rs");
include!("c19/part_a2.rs");
include!("c19/part_b.rs");
include!("c19/part_c.rs");
include!("c19/main_part.rs");
