// part (a): in-process round trips and correspondence (included into c19.rs)

/// every serde_json route: text, pretty text, bytes (slice and reader), writer, `Value`
fn serde_paths<T: serde::Serialize + serde::de::DeserializeOwned>(v: &T) -> Vec<(&'static str, Result<T, String>)> {
    fn run<T>(f: impl FnOnce() -> Result<T, serde_json::Error>) -> Result<T, String> {
        match guarded(f) {
            Ok(Ok(x)) => Ok(x),
            Ok(Err(e)) => Err(format!("error {e}")),
            Err(()) => Err("panic".to_string()),
        }
    }
    vec![
        ("to_string/from_str", run(|| serde_json::to_string(v).and_then(|s| serde_json::from_str::<T>(&s)))),
        ("to_string_pretty/from_str", run(|| serde_json::to_string_pretty(v).and_then(|s| serde_json::from_str::<T>(&s)))),
        ("to_vec/from_slice", run(|| serde_json::to_vec(v).and_then(|b| serde_json::from_slice::<T>(&b)))),
        ("to_vec_pretty/from_reader", run(|| serde_json::to_vec_pretty(v).and_then(|b| serde_json::from_reader::<_, T>(&b[..])))),
        ("to_writer/from_reader", run(|| {
            let mut buf = Vec::new();
            serde_json::to_writer(&mut buf, v)?;
            serde_json::from_reader::<_, T>(std::io::Cursor::new(buf))
        })),
        ("to_value/from_value", run(|| serde_json::to_value(v).and_then(serde_json::from_value::<T>))),
    ]
}

// ---------------------------------------------------------------------------------------------
// A1: FaceAttrs operator programs

/// run a program (wire form, see `SurfModel.Serde.attrProgram`) on the real operators
fn run_attr_program(prog: &str) -> Option<(Vec<FaceAttrs>, String)> {
    let mut vals: Vec<FaceAttrs> = Vec::new();
    let mut shown: Vec<String> = Vec::new();
    for item in prog.split(',') {
        let (op, rest) = item.split_at(1);
        let v = match op {
            "k" => {
                let b: u16 = rest.parse().ok()?;
                CONSTS.iter().find(|(_, x)| *x == b)?.0
            }
            "u" => FaceAttrs::from(under_of(rest.parse().ok()?)),
            _ => {
                let ij: Vec<usize> = rest.split('.').filter_map(|x| x.parse().ok()).collect();
                if ij.len() != 2 {
                    return None;
                }
                let (a, b) = (*vals.get(ij[0])?, *vals.get(ij[1])?);
                match op {
                    "o" => a | b,
                    "a" => a & b,
                    "x" => a ^ b,
                    "i" => a.insert(b),
                    "r" => a.remove(b),
                    "O" => {
                        let mut t = a;
                        t |= b;
                        t
                    }
                    "A" => {
                        let mut t = a;
                        t &= b;
                        t
                    }
                    "X" => {
                        let mut t = a;
                        t ^= b;
                        t
                    }
                    "c" => {
                        shown.push(if a.contains(b) { "t" } else { "f" }.to_string());
                        vals.push(FaceAttrs::EMPTY);
                        continue;
                    }
                    _ => return None,
                }
            }
        };
        // the raw word (not what the accessors show) goes to the model
        shown.push(attrs_raw(v).to_string());
        vals.push(v);
    }
    Some((vals, shown.join(",")))
}

fn gen_attr_program(rng: &mut Rng, len: usize) -> String {
    let mut items: Vec<String> = Vec::new();
    for n in 0..len {
        if n < 2 || rng.chance(1, 4) {
            if rng.chance(1, 6) {
                items.push(format!("u{}", rng.below(6)));
            } else {
                items.push(format!("k{}", rng.pick(&CONSTS).1));
            }
        } else {
            let op = *rng.pick(&["o", "a", "x", "i", "r", "O", "O", "A", "X", "X", "c"]);
            items.push(format!("{op}{}.{}", rng.below(n as u64), rng.below(n as u64)));
        }
    }
    items.join(",")
}

/// the property for one attribute value: a face carrying it survives Display → FromStr and serde_json
fn face_round_trip(face: &Face) -> Result<(), (String, String)> {
    let s = guarded(|| face.to_string()).map_err(|_| ("Display".to_string(), "panic".to_string()))?;
    match guarded(|| s.parse::<Face>()) {
        Ok(Ok(f)) if face_raw(&f) == face_raw(face) => {}
        Ok(Ok(f)) => return Err((format!("text {s:?}"), format!("parsed back as {}", face_wire(&f)))),
        Ok(Err(e)) => return Err((format!("text {s:?}"), format!("parse error {e}"))),
        Err(()) => return Err((format!("text {s:?}"), "FromStr panicked".to_string())),
    }
    for (route, r) in serde_paths(face) {
        match r {
            Ok(f) if face_raw(&f) == face_raw(face) => {}
            Ok(f) => return Err((route.to_string(), format!("deserialised as {}", face_wire(&f)))),
            Err(e) => return Err((route.to_string(), e)),
        }
    }
    Ok(())
}

fn attr_case(ctx: &mut Ctx, prog: &str) {
    let Ok(Some((vals, shown))) = guarded(|| run_attr_program(prog)) else {
        ctx.out.fail("FaceAttrs operator panicked", json!({"kind": "attrs", "program": prog}), json!("a value"), json!("panic"));
        return;
    };
    ctx.out.corr(&format!("c19 attrs {prog}"), &shown);
    let nontrivial = vals.iter().any(|v| attrs_bits(*v) & 7 != 0) && vals.iter().any(|v| attrs_bits(*v) >> 3 != 0);
    ctx.out.case(&format!("attrs {prog}"), nontrivial);
    ctx.out.hist("attrs-program");
    for (i, v) in vals.iter().enumerate() {
        // canonical = equal to the value rebuilt from what it shows
        // raw word = what the accessors show (and `==` agrees with the raw comparison)
        let canonical = attrs_raw(*v) == attrs_bits(*v) as u64 && (attrs_of_bits(attrs_bits(*v)) == *v);
        let face = Face::new(None, None, *v);
        let rt = face_round_trip(&face);
        if !canonical || rt.is_err() {
            ctx.out.fail(
                "FaceAttrs value reachable through the public operators is not canonical / does not survive serialisation",
                json!({"kind": "attrs", "program": prog, "value_index": i}),
                json!(format!("attributes {} round-trip unchanged", attrs_bits(*v))),
                json!(format!("canonical={canonical} round-trip={rt:?}")),
            );
            break;
        }
    }
}

// ---------------------------------------------------------------------------------------------
// A2: faces

fn gen_rgba(rng: &mut Rng) -> RGBA {
    let a = match rng.below(8) {
        0..=3 => 255,
        4 => 0,
        5 => 254,
        6 => 1,
        _ => rng.below(256) as u8,
    };
    let ch = |rng: &mut Rng| match rng.below(6) {
        0 => 0,
        1 => 255,
        2 => 15,
        3 => 16,
        _ => rng.below(256) as u8,
    };
    RGBA::new(ch(rng), ch(rng), ch(rng), a)
}

fn gen_attrs(rng: &mut Rng) -> (FaceAttrs, String) {
    let n = 1 + rng.below(8) as usize;
    loop {
        let prog = gen_attr_program(rng, n);
        if prog.split(',').last().map(|i| i.starts_with('c')).unwrap_or(true) {
            continue;
        }
        if let Ok(Some((vals, _))) = guarded(|| run_attr_program(&prog)) {
            return (*vals.last().unwrap(), prog);
        }
    }
}

fn face_res_wire(r: &Result<Result<Face, Error>, ()>) -> String {
    match r {
        Err(()) => "panic".to_string(),
        Ok(Err(_)) => "err".to_string(),
        Ok(Ok(f)) => format!("ok {}", face_wire(f)),
    }
}

/// a face value: print, parse back, serde — plus correspondence of printer and parser
fn face_case(ctx: &mut Ctx, face: Face, how: &str) {
    let input = json!({"kind": "face", "fg": color_wire(face.fg), "bg": color_wire(face.bg), "attrs_program": how, "attrs": attrs_bits(face.attrs)});
    let printed = guarded(|| face.to_string());
    let Ok(printed) = printed else {
        ctx.out.fail("Face Display panicked", input, json!("text"), json!("panic"));
        return;
    };
    ctx.out.corr(&format!("c19 face print {}", face_wire(&face)), &cps(&printed));
    let parsed = guarded(|| printed.parse::<Face>());
    ctx.out.corr(&format!("c19 face parse {} -", cps(&printed)), &face_res_wire(&parsed));
    if let Err((at, got)) = face_round_trip(&face) {
        ctx.out.fail("Face does not survive serialisation followed by deserialisation", input, json!(format!("{} at {at}", face_wire(&face))), json!(got));
    }
    ctx.out.case(&format!("face {}", face_wire(&face)), face.fg.is_some() || face.bg.is_some() || !face.attrs.is_empty());
    ctx.out.hist(match (face.fg.map(|c| c.alpha()), face.bg.map(|c| c.alpha())) {
        (Some(255), _) | (_, Some(255)) => "face:opaque-colour",
        (Some(_), _) | (_, Some(_)) => "face:translucent-colour",
        _ => "face:no-colour",
    });
    if ctx.out.evaluations % 997 == 0 {
        ctx.out.sample(json!({"kind": "face", "printed": printed}));
    }
}

fn color_table() -> HashMap<String, RGBA> {
    let mut t = HashMap::new();
    t.insert("purple".to_string(), RGBA::new(177, 98, 134, 255));
    t.insert("gruv-red-2".to_string(), RGBA::new(204, 36, 29, 128));
    t.insert("é".to_string(), RGBA::new(1, 2, 3, 0));
    t.insert("#12".to_string(), RGBA::new(9, 9, 9, 9));
    t
}
fn table_wire(t: &HashMap<String, RGBA>) -> String {
    let mut items: Vec<String> = t
        .iter()
        .map(|(k, v)| format!("{}={}", k.chars().map(|c| (c as u32).to_string()).collect::<Vec<_>>().join("_"), color_wire(Some(*v))))
        .collect();
    items.sort();
    if items.is_empty() { "-".to_string() } else { items.join(";") }
}

/// an arbitrary string through `Face::from_str_named`: never a panic; what parses prints and parses back to
/// itself; correspondence (strings with the `/alpha` suffix are outside the model)
fn face_string_case(ctx: &mut Ctx, s: &str) {
    let table = color_table();
    let input = json!({"kind": "face-string", "string": s});
    let r = guarded(|| Face::from_str_named(s, &table));
    if r.is_err() {
        ctx.out.fail("Face::from_str_named panicked", input.clone(), json!("Ok or Err"), json!("panic"));
    }
    if !s.contains('/') {
        ctx.out.corr(&format!("c19 face parse {} {}", cps(s), table_wire(&table)), &face_res_wire(&r));
    } else {
        ctx.out.hist("face-string:alpha-suffix(no correspondence)");
    }
    let accepted = matches!(r, Ok(Ok(_)));
    if let Ok(Ok(f)) = &r {
        if let Err((at, got)) = face_round_trip(f) {
            ctx.out.fail("a parsed Face does not print and parse back to itself", input, json!(format!("{} at {at}", face_wire(f))), json!(got));
        }
    }
    // `FromStr` is `from_str_named` over the SVG colour table: a string that parses with the private table and
    // names no colour of it must parse to the same face through `FromStr` (and through serde)
    if let Ok(Ok(f)) = &r {
        let uses_table = table.keys().any(|k| s.contains(k.as_str()));
        if !uses_table {
            let via_from_str = guarded(|| s.parse::<Face>());
            let via_serde = guarded(|| serde_json::from_value::<Face>(Value::String(s.to_string())));
            if !matches!(&via_from_str, Ok(Ok(g)) if g == f) || !matches!(&via_serde, Ok(Ok(g)) if g == f) {
                ctx.out.fail(
                    "Face: FromStr / Deserialize disagree with from_str_named on a string without colour names",
                    json!({"kind": "face-string", "string": s}),
                    json!(face_wire(f)),
                    json!(format!("{:?} / {:?}", via_from_str.map(|r| r.map(|g| face_wire(&g)).map_err(|e| e.to_string())), via_serde.map(|r| r.map(|g| face_wire(&g)).map_err(|e| e.to_string())))),
                );
            }
        }
    }
    ctx.out.case(&format!("face-string {s}"), accepted);
    ctx.out.hist(if accepted { "face-string:accepted" } else { "face-string:rejected" });
}

const ATTR_NAMES: [&str; 10] =
    ["underline", "underline_double", "underline_curly", "underline_dotted", "underline_dashed", "bold", "italic", "blink", "reverse", "strike"];

fn gen_color_string(rng: &mut Rng) -> String {
    let hexd = |rng: &mut Rng, n: usize, upper: bool| -> String {
        (0..n).map(|_| { let c = char::from_digit(rng.below(16) as u32, 16).unwrap(); if upper && rng.chance(1, 2) { c.to_ascii_uppercase() } else { c } }).collect()
    };
    match rng.below(14) {
        0..=3 => format!("#{}", hexd(rng, 6, false)),
        4..=5 => format!("#{}", hexd(rng, 8, true)),
        6 => {
            let n = *rng.pick(&[0usize, 1, 2, 3, 4, 5, 7, 9, 10]);
            format!("#{}", hexd(rng, n, false))
        }
        7 => {
            let n = *rng.pick(&[6usize, 8]);
            let mut s: Vec<char> = format!("#{}", hexd(rng, n, true)).chars().collect();
            let i = rng.below(s.len() as u64) as usize;
            s[i] = *rng.pick(&['g', 'G', ' ', '#', 'é', '-', '+', 'x', '\u{ff11}']);
            s.into_iter().collect()
        }
        8 => "purple".to_string(),
        9 => rng.pick(&["gruv-red-2", "é", "#12", "red", "Purple", "", "firebrick"]).to_string(),
        10 => format!("#{}ééé", hexd(rng, 0, false)), // 7 bytes, 4 characters
        11 => format!("#{}é", hexd(rng, 4, false)),   // 7 bytes
        12 => format!("{}/{}", rng.pick(&["purple", "#102030", "#10203040"]), rng.pick(&[".5", "0", "1", "2", "x", "", "-1", "1e40", "NaN"])),
        _ => format!(" #{} ", hexd(rng, 6, true)),
    }
}

fn gen_face_string(rng: &mut Rng) -> String {
    let n = rng.below(6) as usize;
    let mut segs: Vec<String> = Vec::new();
    for _ in 0..n {
        let seg = match rng.below(12) {
            0..=2 => format!("fg={}", gen_color_string(rng)),
            3..=4 => format!("bg={}", gen_color_string(rng)),
            5..=7 => rng.pick(&ATTR_NAMES).to_string(),
            8 => format!("{}={}", rng.pick(&ATTR_NAMES), rng.pick(&["", "x", "#102030", "="])),
            9 => rng.pick(&["", " ", "Bold", "BOLD", "foreground=#102030", "fg", "bg", "fg=", "=fg", "under line", "bold|italic", "fg=#102030=bg", "\u{a0}bold\u{3000}", "bold\u{200b}"]).to_string(),
            10 => format!("{} = {}", rng.pick(&["fg", "bg", " fg", "bg "]), gen_color_string(rng)),
            _ => format!(" {} ", rng.pick(&ATTR_NAMES)),
        };
        segs.push(seg);
    }
    let sep = *rng.pick(&[",", ",", ",", ", ", " ,", ",,"]);
    segs.join(sep)
}

fn face_corner_strings() -> Vec<String> {
    [
        "", ",", ",,", " ", "fg=#98971a,bg=#bdae93, bold ,underline", "fg=#000000", "fg=#00000000", "fg=#000000ff", "fg=#FFFFFF", "bg=#0000000",
        "underline,underline_double", "underline_dotted,underline_curly", "underline_dashed,underline", "bold,bold", "strike,reverse,blink,italic,bold",
        "fg=#102030,fg=#405060", "fg=purple", "fg=é", "fg=#12", "bg=purple/.3,fg=#282828", "fg=#1020/0", "fg", "fg=", "bold=1", "=", "==", "fg==#102030",
        "fg=#ééé", "fg=#1234é", "fg=#12345\u{80}", "underline_", "_", "fg=#1020304", "fg=#10203", "fg= #102030", "fg=#102030 ", "fg=#10 2030",
    ]
    .iter()
    .map(|s| s.to_string())
    .collect()
}

// ---------------------------------------------------------------------------------------------
// A3: sizes

#[derive(Clone, Debug)]
enum UV {
    Num(u128),
    Bad(String),
}
#[derive(Clone, Debug)]
enum SizeDoc {
    Map(Vec<(String, UV, String)>), // key, value, raw json used for an unknown key
    Seq(Vec<UV>),
    Other(String),
}

fn uv_json(v: &UV) -> String {
    match v {
        UV::Num(n) => n.to_string(),
        UV::Bad(s) => s.clone(),
    }
}
fn uv_wire(v: &UV) -> String {
    match v {
        UV::Num(n) => n.to_string(),
        UV::Bad(_) => "bad".to_string(),
    }
}
fn size_doc_json(d: &SizeDoc) -> String {
    match d {
        SizeDoc::Map(es) => {
            let items: Vec<String> = es
                .iter()
                .map(|(k, v, raw)| format!("{}:{}", serde_json::to_string(k).unwrap(), if k == "height" || k == "width" { uv_json(v) } else { raw.clone() }))
                .collect();
            format!("{{{}}}", items.join(","))
        }
        SizeDoc::Seq(vs) => format!("[{}]", vs.iter().map(uv_json).collect::<Vec<_>>().join(",")),
        SizeDoc::Other(s) => s.clone(),
    }
}
fn size_doc_wire(d: &SizeDoc) -> String {
    match d {
        SizeDoc::Map(es) => {
            let mut s = "c19 size de map".to_string();
            for (k, v, _) in es {
                let k = if k == "height" || k == "width" { k.as_str() } else { "x" };
                s.push_str(&format!(" {k}={}", if k == "x" { "0".to_string() } else { uv_wire(v) }));
            }
            s
        }
        SizeDoc::Seq(vs) => {
            let mut s = "c19 size de seq".to_string();
            for v in vs {
                s.push_str(&format!(" {}", uv_wire(v)));
            }
            s
        }
        SizeDoc::Other(_) => "c19 size de other".to_string(),
    }
}

const EXTREME: [u128; 16] = [
    0, 1, 2, 3, 7, 65535, 65536, (1 << 31) - 1, 1 << 32, (1 << 32) + 1, 1 << 53, 1 << 62, 1 << 63, (1 << 63) + 1, u64::MAX as u128 - 1, u64::MAX as u128,
];
const BAD_USIZE: [&str; 12] = ["-1", "1.5", "1e3", "\"5\"", "null", "true", "[]", "{}", "-0.0", "1E400", "[1]", "\"\""];

fn gen_uv(rng: &mut Rng) -> UV {
    match rng.below(10) {
        0..=3 => UV::Num(rng.below(50) as u128),
        4..=6 => UV::Num(*rng.pick(&EXTREME)),
        7 => UV::Num(rng.next() as u128),
        8 => UV::Num(*rng.pick(&[1u128 << 64, (1u128 << 64) + 1, 1u128 << 70, u128::MAX])),
        _ => UV::Bad(rng.pick(&BAD_USIZE).to_string()),
    }
}

fn gen_size_doc(rng: &mut Rng) -> SizeDoc {
    match rng.below(10) {
        0..=4 => {
            let mut es = vec![("height".to_string(), gen_uv(rng), String::new()), ("width".to_string(), gen_uv(rng), String::new())];
            for _ in 0..rng.below(3) {
                match rng.below(5) {
                    0 => es.push((rng.pick(&["height", "width"]).to_string(), gen_uv(rng), String::new())),
                    1 if !es.is_empty() => {
                        let i = rng.below(es.len() as u64) as usize;
                        es.remove(i);
                    }
                    2 => es.push((rng.pick(&["Height", "h", "", "size", "widthx"]).to_string(), UV::Num(0), rng.pick(&["1", "null", "[1,{\"a\":2}]", "\"x\"", "{\"height\":3}"]).to_string())),
                    3 => es.reverse(),
                    _ => {}
                }
            }
            SizeDoc::Map(es)
        }
        5..=8 => SizeDoc::Seq((0..*rng.pick(&[2u64, 2, 2, 2, 0, 1, 3, 4])).map(|_| gen_uv(rng)).collect()),
        _ => SizeDoc::Other(rng.pick(&["null", "5", "\"3 4\"", "true", "1.5", "\"\""]).to_string()),
    }
}

fn size_res_wire(r: &Result<Result<Size, String>, ()>) -> String {
    match r {
        Err(()) => "panic".to_string(),
        Ok(Err(_)) => "err".to_string(),
        Ok(Ok(s)) => format!("ok {} {}", s.height, s.width),
    }
}

fn size_doc_case(ctx: &mut Ctx, d: &SizeDoc) {
    let text = size_doc_json(d);
    let r = guarded(|| serde_json::from_str::<Size>(&text).map_err(|e| e.to_string()));
    if r.is_err() {
        ctx.out.fail("Size deserialisation panicked", json!({"kind": "size-doc", "doc": text}), json!("Ok or Err"), json!("panic"));
    }
    ctx.out.corr(&size_doc_wire(d), &size_res_wire(&r));
    // the Value route must agree with the text route whenever the text is a JSON value without repeated keys
    ctx.out.case(&format!("size-doc {text}"), matches!(r, Ok(Ok(_))));
    ctx.out.hist(if matches!(r, Ok(Ok(_))) { "size-doc:accepted" } else { "size-doc:rejected" });
}

fn size_case(ctx: &mut Ctx, s: Size) {
    let input = json!({"kind": "size", "height": s.height.to_string(), "width": s.width.to_string()});
    let js = guarded(|| serde_json::to_string(&s).map_err(|e| e.to_string()));
    match &js {
        Ok(Ok(js)) => {
            let back = guarded(|| serde_json::from_str::<Size>(js).map_err(|e| e.to_string()));
            if !matches!(&back, Ok(Ok(b)) if (b.height, b.width) == (s.height, s.width)) {
                ctx.out.fail("Size does not survive serde_json", input.clone(), json!(format!("{s:?}")), json!(format!("{js} -> {back:?}")));
            }
            // the serialised form is what the model's `Size.ser` says: a map height, width
            let v: Value = serde_json::from_str(js).unwrap_or(Value::Null);
            let keys: Vec<String> = v.as_object().map(|m| m.keys().cloned().collect()).unwrap_or_default();
            let shown = format!("{} {} {}", keys.join("+"), v["height"], v["width"]);
            ctx.out.corr(&format!("c19 size de map height={} width={}", s.height, s.width), &format!("ok {} {}", s.height, s.width));
            if shown != format!("height+width {} {}", s.height, s.width) {
                ctx.out.hist("size:serialised-form-differs-from-model(harmless)");
            }
        }
        other => ctx.out.fail("Size serialisation failed", input.clone(), json!("json"), json!(format!("{other:?}"))),
    }
    for (route, r) in serde_paths(&s) {
        if !matches!(&r, Ok(b) if (b.height, b.width) == (s.height, s.width)) {
            ctx.out.fail("Size does not survive serde_json", json!({"kind": "size", "height": s.height.to_string(), "width": s.width.to_string(), "route": route}), json!(format!("{} x {}", s.height, s.width)), json!(format!("{r:?}")));
        }
    }
    let via_value = guarded(|| serde_json::to_value(s).and_then(serde_json::from_value::<Size>).map_err(|e| e.to_string()));
    if !matches!(&via_value, Ok(Ok(b)) if (b.height, b.width) == (s.height, s.width)) {
        ctx.out.fail("Size does not survive to_value/from_value", input.clone(), json!(format!("{s:?}")), json!(format!("{via_value:?}")));
    }
    // text form
    let printed = s.to_string();
    ctx.out.corr(&format!("c19 size print {} {}", s.height, s.width), &cps(&printed));
    let back = guarded(|| printed.parse::<Size>().map_err(|e| e.to_string()));
    if !matches!(&back, Ok(Ok(b)) if (b.height, b.width) == (s.height, s.width)) {
        ctx.out.fail("Size Display does not parse back", input, json!(format!("{s:?}")), json!(format!("{printed:?} -> {back:?}")));
    }
    ctx.out.case(&format!("size {} {}", s.height, s.width), s.height > 1 || s.width > 1);
    ctx.out.hist("size:value");
}

fn size_string_case(ctx: &mut Ctx, text: &str) {
    let r = guarded(|| text.parse::<Size>().map_err(|e| e.to_string()));
    if r.is_err() {
        ctx.out.fail("Size::from_str panicked", json!({"kind": "size-string", "string": text}), json!("Ok or Err"), json!("panic"));
    }
    ctx.out.corr(&format!("c19 size parse {}", cps(text)), &size_res_wire(&r));
    ctx.out.case(&format!("size-string {text}"), matches!(r, Ok(Ok(_))));
    ctx.out.hist(if matches!(r, Ok(Ok(_))) { "size-string:accepted" } else { "size-string:rejected" });
}

fn gen_size_string(rng: &mut Rng) -> String {
    let num = |rng: &mut Rng| -> String {
        match rng.below(12) {
            0..=4 => rng.below(200).to_string(),
            5 => rng.pick(&EXTREME).to_string(),
            6 => format!("+{}", rng.below(100)),
            7 => format!("{:0>5}", rng.below(100)),
            8 => rng.pick(&["", "+", "-", "-1", "1.0", "1e2", "x", "１", "18446744073709551616", "18446744073709551615", "0x10", "1_0"]).to_string(),
            9 => format!(" {} ", rng.below(100)),
            10 => format!("\u{a0}{}\t", rng.below(100)),
            _ => rng.next().to_string(),
        }
    };
    let sep = *rng.pick(&[" ", " ", ",", "  ", ", ", "x", "\t", ""]);
    let mut s = format!("{}{}{}", num(rng), sep, num(rng));
    if rng.chance(1, 6) {
        s.push_str(&format!("{}{}", rng.pick(&[" ", ","]), num(rng)));
    }
    s
}
