// part (a) continued: key chords and images

// ---------------------------------------------------------------------------------------------
// A4: key chords written in the textual syntax

const KEYMODS: [(KeyMod, u32); 9] = [
    (KeyMod::SHIFT, 1),
    (KeyMod::ALT, 2),
    (KeyMod::CTRL, 4),
    (KeyMod::SUPER, 8),
    (KeyMod::HYPER, 16),
    (KeyMod::META, 32),
    (KeyMod::CAPSLOCK, 64),
    (KeyMod::NUMLOCK, 128),
    (KeyMod::PRESS, 256),
];

fn name_wire(n: &KeyName) -> String {
    use KeyName::*;
    let (v, p): (&str, u128) = match n {
        Backspace => ("Backspace", 0),
        Char(c) => ("Char", *c as u128),
        Delete => ("Delete", 0),
        Insert => ("Insert", 0),
        Down => ("Down", 0),
        End => ("End", 0),
        Enter => ("Enter", 0),
        Esc => ("Esc", 0),
        F(i) => ("F", *i as u128),
        Home => ("Home", 0),
        Left => ("Left", 0),
        MouseLeft => ("MouseLeft", 0),
        MouseMiddle => ("MouseMiddle", 0),
        MouseMove => ("MouseMove", 0),
        MouseRight => ("MouseRight", 0),
        MouseWheelDown => ("MouseWheelDown", 0),
        MouseWheelUp => ("MouseWheelUp", 0),
        PageDown => ("PageDown", 0),
        PageUp => ("PageUp", 0),
        Right => ("Right", 0),
        Tab => ("Tab", 0),
        Up => ("Up", 0),
    };
    format!("{v}:{p}")
}
fn key_wire(k: &Key) -> String {
    // the raw modifier word (derived `Hash`), cross-checked against what `contains` shows
    let shown: u64 = KEYMODS.iter().filter(|(f, _)| k.mode.contains(*f)).map(|(_, b)| *b as u64).sum();
    let raw = keymod_raw(k.mode);
    if raw == shown { format!("{}:{}", name_wire(&k.name), raw) } else { format!("{}:{}!contains-shows-{}", name_wire(&k.name), raw, shown) }
}
fn chord_wire(c: &[Key]) -> String {
    if c.is_empty() { "-".to_string() } else { c.iter().map(key_wire).collect::<Vec<_>>().join(",") }
}

const KEY_NAMES: [&str; 16] =
    ["left", "up", "right", "down", "pageup", "pagedown", "end", "home", "tab", "enter", "escape", "esc", "space", "backspace", "delete", "insert"];
const KEY_MODS: [&str; 8] = ["alt", "ctrl", "shift", "press", "super", "hyper", "meta", "capslock"];
const KEY_PLAIN: &str = "abcdefghijklmnopqrstuvwxyz0123456789`-=[]\\;,./";

fn rand_case(rng: &mut Rng, s: &str) -> String {
    match rng.below(4) {
        0 | 1 => s.to_string(),
        2 => s.to_ascii_uppercase(),
        _ => s.chars().map(|c| if rng.chance(1, 2) { c.to_ascii_uppercase() } else { c }).collect(),
    }
}

fn gen_key_string(rng: &mut Rng) -> String {
    let mut parts: Vec<String> = Vec::new();
    let nm = match rng.below(6) {
        0..=1 => 0,
        2..=3 => 1,
        4 => 2,
        _ => rng.below(9) as usize,
    };
    for _ in 0..nm {
        let m: &str = *rng.pick(&KEY_MODS);
        parts.push(rand_case(rng, m));
    }
    let name = match rng.below(6) {
        0..=1 => {
            let n: &str = *rng.pick(&KEY_NAMES);
            rand_case(rng, n)
        }
        2 => {
            let d = match rng.below(6) {
                0 => "0".to_string(),
                1 => rng.below(36).to_string(),
                2 => format!("{:0>4}", rng.below(100)),
                3 => "18446744073709551615".to_string(),
                4 => "18446744073709551616".to_string(),
                _ => rng.next().to_string(),
            };
            rand_case(rng, &format!("f{d}"))
        }
        _ => {
            let cs: Vec<char> = KEY_PLAIN.chars().collect();
            let c = rng.pick(&cs).to_string();
            rand_case(rng, &c)
        }
    };
    let pos = if rng.chance(3, 4) { parts.len() } else { rng.below(parts.len() as u64 + 1) as usize };
    parts.insert(pos, name);
    parts.join("+")
}

fn gen_chord_string(rng: &mut Rng) -> String {
    let n = 1 + rng.below(4);
    let mut s = String::new();
    if rng.chance(1, 6) {
        s.push(' ');
    }
    for i in 0..n {
        if i > 0 {
            for _ in 0..(1 + rng.below(2) * rng.below(3)) {
                s.push(' ');
            }
        }
        s.push_str(&gen_key_string(rng));
    }
    if rng.chance(1, 6) {
        s.push(' ');
    }
    if rng.chance(1, 8) {
        // damage
        let mut cs: Vec<char> = s.chars().collect();
        let i = rng.below(cs.len() as u64 + 1) as usize;
        cs.insert(i, *rng.pick(&['+', ' ', '"', 'A', '\t', '_', ',']));
        s = cs.into_iter().collect();
    }
    s
}

/// a chord written as text: what parses must survive Display → FromStr and serde_json unchanged
fn chord_case(ctx: &mut Ctx, s: &str) {
    let input = json!({"kind": "chord", "string": s});
    let r = guarded(|| KeyChord::from_str(s));
    let ans = match &r {
        Err(()) => {
            ctx.out.fail("KeyChord::from_str panicked", input.clone(), json!("Ok or Err"), json!("panic"));
            "panic".to_string()
        }
        Ok(Err(_)) => "err".to_string(),
        Ok(Ok(c)) => format!("{}|{}", chord_wire(c.keys()), cps(&c.to_string())),
    };
    if s.is_ascii() {
        ctx.out.corr(&format!("c19 chord pc {} -", cps(s)), &ans);
    }
    if let Ok(Ok(c)) = &r {
        let printed = c.to_string();
        match guarded(|| KeyChord::from_str(&printed)) {
            Ok(Ok(c2)) if chord_wire(c2.keys()) == chord_wire(c.keys()) => {}
            other => ctx.out.fail(
                "KeyChord: printed form does not parse back to the same chord",
                input.clone(),
                json!(chord_wire(c.keys())),
                json!(format!("printed {printed:?} -> {:?}", other.map(|r| r.map(|c| chord_wire(c.keys())).map_err(|e| e.to_string())))),
            ),
        }
        for (route, r2) in serde_paths(c) {
            if !matches!(&r2, Ok(c2) if chord_wire(c2.keys()) == chord_wire(c.keys())) {
                ctx.out.fail(
                    "KeyChord does not survive serde_json",
                    json!({"kind": "chord", "string": s, "route": route}),
                    json!(chord_wire(c.keys())),
                    json!(format!("{:?}", r2.map(|c| chord_wire(c.keys())))),
                );
                break;
            }
        }
    }
    ctx.out.case(&format!("chord {s}"), matches!(r, Ok(Ok(_))));
    ctx.out.hist(if matches!(r, Ok(Ok(_))) { "chord:accepted" } else { "chord:rejected" });
}

// ---------------------------------------------------------------------------------------------
// A5: images

/// one selector of a crop, in the model's wire form and as applied to the real image
#[derive(Clone, Debug)]
enum SelW {
    Full,
    Range(i64, i64),
    From(i64),
    To(i64),
    Incl(i64, i64),
}
impl SelW {
    fn tok(&self) -> String {
        match self {
            SelW::Full => "full".into(),
            SelW::Range(a, b) => format!("range:{a}:{b}"),
            SelW::From(a) => format!("from:{a}"),
            SelW::To(b) => format!("to:{b}"),
            SelW::Incl(a, b) => format!("incl:{a}:{b}"),
        }
    }
    fn parse(s: &str) -> Option<SelW> {
        let p: Vec<&str> = s.split(':').collect();
        let n = |i: usize| p.get(i).and_then(|x| x.parse::<i64>().ok());
        Some(match p[0] {
            "full" => SelW::Full,
            "range" => SelW::Range(n(1)?, n(2)?),
            "from" => SelW::From(n(1)?),
            "to" => SelW::To(n(1)?),
            "incl" => SelW::Incl(n(1)?, n(2)?),
            _ => return None,
        })
    }
}
fn gen_sel(rng: &mut Rng, n: usize) -> SelW {
    let n = n as i64;
    let v = |rng: &mut Rng| rng.range(-n - 1, n + 1);
    match rng.below(7) {
        0 | 1 => SelW::Full,
        2 | 3 => SelW::Range(v(rng), v(rng)),
        4 => SelW::From(v(rng)),
        5 => SelW::To(v(rng)),
        _ => SelW::Incl(v(rng), v(rng)),
    }
}
fn crop(img: &Image, r: &SelW, c: &SelW) -> Image {
    macro_rules! cols {
        ($rows:expr) => {
            match c {
                SelW::Full => img.crop($rows, ..),
                SelW::Range(a, b) => img.crop($rows, *a..*b),
                SelW::From(a) => img.crop($rows, *a..),
                SelW::To(b) => img.crop($rows, ..*b),
                SelW::Incl(a, b) => img.crop($rows, *a..=*b),
            }
        };
    }
    match r {
        SelW::Full => cols!(..),
        SelW::Range(a, b) => cols!(*a..*b),
        SelW::From(a) => cols!(*a..),
        SelW::To(b) => cols!(..*b),
        SelW::Incl(a, b) => cols!(*a..=*b),
    }
}
fn image_from(h: usize, w: usize, rgba: &[u8]) -> Image {
    Image::from(SurfaceOwned::new_with(Size::new(h, w), |p| {
        let o = 4 * (p.row * w + p.col);
        RGBA::new(rgba[o], rgba[o + 1], rgba[o + 2], rgba[o + 3])
    }))
}

/// pixels of an image (or view) row by row, read from the backing buffer with the strides of its shape —
/// no accessor of the crate involved; `Surface::get` and `Surface::iter` are cross-checked against it
fn pixels_of(img: &Image) -> Vec<u8> {
    let sh = img.shape();
    let data = img.data();
    let mut v = Vec::new();
    for r in 0..sh.height {
        for c in 0..sh.width {
            match data.get(sh.start + r * sh.row_stride + c * sh.col_stride) {
                Some(p) => v.extend_from_slice(&p.to_rgba()),
                None => v.extend_from_slice(&[0xde, 0xad, 0xbe, 0xef, 0x00]), // never equal to a pixel stream
            }
        }
    }
    v
}
/// the same pixels through `Surface::get` and through `Surface::iter`
fn pixels_via_accessors(img: &Image) -> (Vec<u8>, Vec<u8>) {
    let sh = img.shape();
    let mut g = Vec::new();
    for r in 0..sh.height {
        for c in 0..sh.width {
            match img.get(Position::new(r, c)) {
                Some(p) => g.extend_from_slice(&p.to_rgba()),
                None => g.push(0xee),
            }
        }
    }
    let it: Vec<u8> = img.iter().flat_map(|p| p.to_rgba()).collect();
    (g, it)
}

fn image_res_wire(r: &Result<Result<Image, String>, ()>) -> String {
    match r {
        Err(()) => "panic".to_string(),
        Ok(Err(_)) => "err".to_string(),
        Ok(Ok(img)) => format!("ok {} {} {}", img.shape().height, img.shape().width, hex(&pixels_of(img))),
    }
}

/// a step of a chain: crop, or transposition (strides swapped: a view that is not row-contiguous)
#[derive(Clone, Debug)]
enum Step {
    V(SelW, SelW),
    T,
}
fn steps_tok(st: &[Step]) -> String {
    if st.is_empty() {
        "-".to_string()
    } else {
        st.iter().map(|s| match s { Step::V(r, c) => format!("V;{};{}", r.tok(), c.tok()), Step::T => "T".to_string() }).collect::<Vec<_>>().join("/")
    }
}
fn steps_parse(s: &str) -> Option<Vec<Step>> {
    if s == "-" {
        return Some(vec![]);
    }
    s.split('/')
        .map(|st| {
            if st == "T" {
                return Some(Step::T);
            }
            let p: Vec<&str> = st.split(';').collect();
            if p.len() == 3 && p[0] == "V" { Some(Step::V(SelW::parse(p[1])?, SelW::parse(p[2])?)) } else { None }
        })
        .collect()
}

/// Python slice of an axis of length `n`: `None` = empty selection
fn py_sel(sel: &SelW, n: usize) -> Option<(usize, usize)> {
    let n = n as i128;
    let idx = |i: i64| -> i128 { let i = i as i128; if i < 0 { (i + n).max(0) } else { i.min(n) } };
    let end_incl = |e: i64| -> i128 { let e = e as i128; if e >= n { n } else if e < -n { 0 } else { (if e < 0 { e + n } else { e }) + 1 } };
    let (a, b) = match sel {
        SelW::Full => (0, n),
        SelW::Range(a, b) => (idx(*a), idx(*b)),
        SelW::From(a) => (idx(*a), n),
        SelW::To(b) => (0, idx(*b)),
        SelW::Incl(a, b) => (idx(*a), end_incl(*b)),
    };
    if a < b { Some((a as usize, b as usize)) } else { None }
}

/// the window a chain selects on the plain pixel matrix, computed here from the raw bytes (no crate code)
fn window_of(h: usize, w: usize, rgba: &[u8], steps: &[Step]) -> Vec<Vec<[u8; 4]>> {
    let mut m: Vec<Vec<[u8; 4]>> =
        (0..h).map(|r| (0..w).map(|c| { let o = 4 * (r * w + c); [rgba[o], rgba[o + 1], rgba[o + 2], rgba[o + 3]] }).collect()).collect();
    if w == 0 {
        m.clear();
    }
    for st in steps {
        let (mh, mw) = (m.len(), m.first().map(|r| r.len()).unwrap_or(0));
        m = match st {
            Step::V(rs, cs) => match (py_sel(rs, mh), py_sel(cs, mw)) {
                (Some((r0, r1)), Some((c0, c1))) => m[r0..r1].iter().map(|row| row[c0..c1].to_vec()).collect(),
                _ => Vec::new(),
            },
            Step::T => (0..mw).map(|c| (0..mh).map(|r| m[r][c]).collect()).collect(),
        };
    }
    m
}

fn image_case(ctx: &mut Ctx, h: usize, w: usize, rgba: &[u8], chain: &[(SelW, SelW)]) {
    let steps: Vec<Step> = chain.iter().map(|(r, c)| Step::V(r.clone(), c.clone())).collect();
    image_case_steps(ctx, h, w, rgba, &steps);
}

/// serialise a (cropped / transposed) image, deserialise, compare pixel for pixel; correspondence of both directions
fn image_case_steps(ctx: &mut Ctx, h: usize, w: usize, rgba: &[u8], steps: &[Step]) {
    let input = json!({"kind": "image", "h": h, "w": w, "rgba": hex(rgba), "chain": steps_tok(steps)});
    let mut img = image_from(h, w, rgba);
    for st in steps {
        img = match st {
            Step::V(r, c) => crop(&img, r, c),
            Step::T => {
                let sh = img.shape();
                Image::from_parts(
                    std::sync::Arc::from(img.data().to_vec()),
                    Shape { width: sh.height, height: sh.width, col_stride: sh.row_stride, row_stride: sh.col_stride, ..sh },
                )
            }
        };
    }
    // expectation from the raw bytes; the image's own view of itself is cross-checked against it
    let window = window_of(h, w, rgba, steps);
    let want: Vec<u8> = window.iter().flatten().flatten().copied().collect();
    let (vh, vw) = (img.shape().height, img.shape().width);
    let (via_get, via_iter) = pixels_via_accessors(&img);
    if pixels_of(&img) != want || via_get != want || via_iter != want || vh * vw * 4 != want.len() {
        ctx.out.fail(
            "a cropped / transposed image does not show the window of the pixel matrix (raw buffer, Surface::get or Surface::iter)",
            input.clone(),
            json!(hex(&want)),
            json!(format!("{vh}x{vw} raw {} get {} iter {}", hex(&pixels_of(&img)), hex(&via_get), hex(&via_iter))),
        );
    }
    let js = guarded(|| serde_json::to_string(&img).map_err(|e| e.to_string()));
    let js = match js {
        Ok(Ok(js)) => js,
        other => {
            ctx.out.fail("Image serialisation failed or panicked", input, json!("json"), json!(format!("{other:?}")));
            return;
        }
    };
    // what was written, for the model of `Serialize`
    let v: Value = serde_json::from_str(&js).unwrap_or(Value::Null);
    let shown = match (v["size"]["height"].as_u64(), v["size"]["width"].as_u64(), v["channels"].as_u64(), v["data"].as_str()) {
        (Some(sh), Some(sw), Some(4), Some(d)) => format!("ok {sh} {sw} {}", hex(d.as_bytes())),
        _ => format!("other {js}"),
    };
    ctx.out.corr(&format!("c19 image ser {h} {w} {} {}", hex(rgba), steps_tok(steps)), &shown);
    for (route, back) in serde_paths(&img) {
        let ok = matches!(&back, Ok(b) if b.shape().height == vh && b.shape().width == vw && pixels_of(b) == want);
        if !ok {
            ctx.out.fail(
                "Image does not survive serialisation followed by deserialisation pixel for pixel",
                json!({"kind": "image", "h": h, "w": w, "rgba": hex(rgba), "chain": steps_tok(steps), "route": route}),
                json!(format!("{vh}x{vw} {}", hex(&want))),
                json!(image_res_wire(&Ok(back))),
            );
            break;
        }
    }
    ctx.out.case(&format!("image {h} {w} {} {}", hex(rgba), steps_tok(steps)), vh * vw > 1);
    let transposed = steps.iter().any(|s| matches!(s, Step::T));
    ctx.out.hist(if steps.is_empty() { "image:whole" } else if vh * vw == 0 { "image:empty-view" } else if transposed { "image:transposed/strided" } else { "image:crop" });
    ctx.out.hist(&format!("image:pixels<{}", if vh * vw == 0 { 1 } else { (vh * vw).next_power_of_two().max(2) }));
}

/// entries of an image document as the visitor meets them
#[derive(Clone, Debug)]
enum Ent {
    Data(String),              // a JSON string
    Channels(u64),             // an integer that fits usize
    Size(u64, u64, bool),      // well-typed size; bool: written as a map
    Other(String, String),     // unknown key, raw value
    Bad(String, String),       // known key, ill-typed raw value
}
fn ent_json(e: &Ent) -> (String, J) {
    match e {
        Ent::Data(t) => ("data".into(), J::Str(t.clone())),
        Ent::Channels(n) => ("channels".into(), J::num(n)),
        Ent::Size(h, w, false) => ("size".into(), J::Arr(vec![J::num(h), J::num(w)])),
        Ent::Size(h, w, true) => ("size".into(), J::Obj(vec![("height".into(), J::num(h)), ("width".into(), J::num(w))])),
        Ent::Other(k, v) => (k.clone(), J::Raw(v.clone())),
        Ent::Bad(k, v) => (k.clone(), J::Raw(v.clone())),
    }
}
fn ent_wire(e: &Ent) -> String {
    match e {
        Ent::Data(t) => format!("d:{}", hex(t.as_bytes())),
        Ent::Channels(n) => format!("c:{n}"),
        Ent::Size(h, w, _) => format!("s:{h},{w}"),
        Ent::Other(..) => "o".into(),
        Ent::Bad(..) => "b".into(),
    }
}
fn ents_json(es: &[Ent]) -> String {
    J::Obj(es.iter().map(ent_json).collect()).text()
}
fn ents_to_value(es: &[Ent]) -> Value {
    Value::Array(
        es.iter()
            .map(|e| match e {
                Ent::Data(t) => json!(["d", t]),
                Ent::Channels(n) => json!(["c", n]),
                Ent::Size(h, w, m) => json!(["s", h, w, m]),
                Ent::Other(k, v) => json!(["o", k, v]),
                Ent::Bad(k, v) => json!(["b", k, v]),
            })
            .collect(),
    )
}
fn ents_from_value(v: &Value) -> Vec<Ent> {
    v.as_array()
        .map(|a| {
            a.iter()
                .filter_map(|e| {
                    let s = |i: usize| e[i].as_str().unwrap_or("").to_string();
                    Some(match e[0].as_str()? {
                        "d" => Ent::Data(s(1)),
                        "c" => Ent::Channels(e[1].as_u64()?),
                        "s" => Ent::Size(e[1].as_u64()?, e[2].as_u64()?, e[3].as_bool().unwrap_or(false)),
                        "o" => Ent::Other(s(1), s(2)),
                        _ => Ent::Bad(s(1), s(2)),
                    })
                })
                .collect()
        })
        .unwrap_or_default()
}

/// zero area with a huge extent: before the repair of `SurfaceOwned::new_with` the visitor, having accepted the
/// lengths, idled through a loop over the huge extent — such documents are judged in child processes only
fn idles(es: &[Ent]) -> bool {
    let mut last = None;
    for e in es {
        if let Ent::Size(h, w, _) = e {
            last = Some((*h, *w));
        }
        if let Ent::Bad(..) = e {
            break;
        }
    }
    matches!(last, Some((h, w)) if (h == 0 || w == 0) && h.max(w) > IDLE_DIM)
}

/// independent reading of a document: the documented meaning of the three fields
fn image_doc_expect(es: &[Ent]) -> Option<(u64, u64, Vec<u8>)> {
    // only for documents in which every known key occurs at most once and is well typed
    let mut size = None;
    let mut ch = 3u64;
    let mut data: Option<Vec<u8>> = None;
    for e in es {
        match e {
            Ent::Size(h, w, _) if size.is_none() => size = Some((*h, *w)),
            Ent::Channels(n) if ch == 3 => ch = *n,
            Ent::Data(t) if data.is_none() => data = Some(b64_decode_strict(t)?),
            Ent::Other(..) => {}
            _ => return None,
        }
    }
    let (h, w) = size?;
    let data = data.unwrap_or_default();
    if ![1, 3, 4].contains(&ch) || (ch as u128 * h as u128).checked_mul(w as u128) != Some(data.len() as u128) {
        return None;
    }
    let mut px = Vec::new();
    for p in data.chunks(ch as usize) {
        match ch {
            1 => px.extend_from_slice(&[p[0], p[0], p[0], 255]),
            3 => px.extend_from_slice(&[p[0], p[1], p[2], 255]),
            _ => px.extend_from_slice(p),
        }
    }
    Some((h, w, px))
}
/// RFC 4648 decoding of canonical text only (alphabet, `=` padding at the end, zero pad bits)
fn b64_decode_strict(t: &str) -> Option<Vec<u8>> {
    let b = t.as_bytes();
    if b.len() % 4 != 0 {
        return None;
    }
    let val = |c: u8| -> Option<u32> {
        Some(match c {
            b'A'..=b'Z' => c - b'A',
            b'a'..=b'z' => c - b'a' + 26,
            b'0'..=b'9' => c - b'0' + 52,
            b'+' => 62,
            b'/' => 63,
            _ => return None,
        } as u32)
    };
    let mut out = Vec::new();
    for (i, q) in b.chunks(4).enumerate() {
        let last = i + 1 == b.len() / 4;
        let pad = q.iter().rev().take_while(|c| **c == b'=').count();
        if pad > 2 || (pad > 0 && !last) {
            return None;
        }
        let mut n = 0u32;
        for c in &q[..4 - pad] {
            n = n << 6 | val(*c)?;
        }
        n <<= 6 * pad as u32;
        out.push((n >> 16) as u8);
        if pad < 2 {
            out.push((n >> 8) as u8);
        }
        if pad < 1 {
            out.push(n as u8);
        }
        if b64(&out[out.len() - (3 - pad)..]) != String::from_utf8_lossy(q) {
            return None;
        }
    }
    Some(out)
}

/// an image document: deserialise in-process, correspondence with the visitor model; where the document is
/// plain (every field once, well typed, canonical base64) the independent reading above is the oracle
fn image_doc_case(ctx: &mut Ctx, es: &[Ent]) {
    if idles(es) {
        ctx.out.hist("image-doc:left to the child processes (zero area, huge extent)");
        return;
    }
    let text = ents_json(es);
    let input = json!({"kind": "image-doc", "doc": text, "entries": ents_to_value(es)});
    MAX_REQ.store(0, Ordering::Relaxed);
    let r = guarded(|| serde_json::from_str::<Image>(&text).map_err(|e| e.to_string()));
    let max_req = MAX_REQ.load(Ordering::Relaxed);
    if r.is_err() {
        ctx.out.fail("Image deserialisation panicked", input.clone(), json!("Ok or Err"), json!("panic"));
    }
    if max_req > ALLOC_CAP && !alloc_backed(max_req, text.len()) {
        ctx.out.fail("Image deserialisation allocates in proportion to the declared size before / without the data length check", input.clone(), json!(format!("<= {ALLOC_CAP} bytes or backed by the document's own length")), json!(max_req));
    } else if max_req > ALLOC_CAP {
        ctx.large_allocations += 1;
    }
    let shown = image_res_wire(&r);
    let wire: Vec<String> = es.iter().map(ent_wire).collect();
    ctx.out.corr(&format!("c19 image de {}", wire.join(" ")), &shown);
    // a data text whose length is not a multiple of four is not base64 of anything (RFC 4648; C14_length_error:
    // reading it to the end never ends cleanly): the visitor must reject the document, not decode a prefix
    let reached_bad_length = {
        let mut hit = false;
        for e in es {
            match e {
                Ent::Bad(..) => break,
                Ent::Channels(n) if ![1, 3, 4].contains(n) => break,
                Ent::Data(t) if t.len() % 4 != 0 => {
                    hit = true;
                    break;
                }
                _ => {}
            }
        }
        hit
    };
    if reached_bad_length && matches!(r, Ok(Ok(_))) {
        ctx.out.fail(
            "Image document whose data text is not base64 (length not a multiple of four) is accepted: data silently truncated",
            input.clone(),
            json!("err"),
            json!(shown.chars().take(200).collect::<String>()),
        );
    }
    if let Some((h, w, px)) = image_doc_expect(es) {
        let want = format!("ok {h} {w} {}", hex(&px));
        if shown != want {
            ctx.out.fail("Image document does not decode to the documented pixels", input, json!(want), json!(shown));
        }
        ctx.out.hist("image-doc:plain");
    }
    ctx.out.case(&format!("image-doc {text}"), matches!(r, Ok(Ok(_))) || es.len() > 3);
    ctx.out.hist(match &r {
        Ok(Ok(_)) => "image-doc:accepted",
        Ok(Err(_)) => "image-doc:rejected",
        Err(()) => "image-doc:panic",
    });
}

fn gen_bytes(rng: &mut Rng, n: usize) -> Vec<u8> {
    match rng.below(4) {
        0 => (0..n).map(|i| (i * 7 + 3) as u8).collect(),
        1 => (0..n).map(|i| if i % 4 == 3 { 255 } else { rng.below(256) as u8 }).collect(),
        _ => (0..n).map(|_| rng.below(256) as u8).collect(),
    }
}

fn gen_dim(rng: &mut Rng) -> u64 {
    match rng.below(8) {
        0..=2 => rng.below(6),
        3..=5 => *rng.pick(&EXTREME) as u64,
        6 => 1u64 << rng.below(64),
        _ => rng.next(),
    }
}

/// structured image document: a consistent one, then a few edits
fn gen_image_ents(rng: &mut Rng, max_dim: u64, allow_idle: bool) -> Vec<Ent> {
    let (h, w) = (rng.below(max_dim + 1), rng.below(max_dim + 1));
    let ch = *rng.pick(&[1u64, 3, 3, 4, 4]);
    let data = gen_bytes(rng, (ch * h * w) as usize);
    let mut es = vec![Ent::Size(h, w, rng.chance(1, 2)), Ent::Channels(ch), Ent::Data(b64(&data))];
    if ch == 3 && rng.chance(1, 2) {
        es.remove(1);
    }
    // key order
    for _ in 0..rng.below(3) {
        let (i, j) = (rng.below(es.len() as u64) as usize, rng.below(es.len() as u64) as usize);
        es.swap(i, j);
    }
    let edits = match rng.below(10) {
        0..=3 => 0,
        4..=7 => 1,
        _ => 2 + rng.below(2),
    };
    for _ in 0..edits {
        let at = rng.below(es.len() as u64 + 1) as usize;
        match rng.below(13) {
            0 => es.insert(at, Ent::Size(gen_dim(rng), gen_dim(rng), rng.chance(1, 2))),
            1 => {
                // replace the size by an extreme one
                for e in es.iter_mut() {
                    if let Ent::Size(a, b, _) = e {
                        if rng.chance(1, 2) { *a = gen_dim(rng) } else { *b = gen_dim(rng) }
                    }
                }
            }
            2 => es.insert(at, Ent::Channels(*rng.pick(&[0u64, 1, 2, 3, 4, 5, 255, 256, 1 << 32, u64::MAX]))),
            3 => {
                // data too short / too long
                let k = 1 + rng.below(9) as usize;
                for e in es.iter_mut() {
                    if let Ent::Data(t) = e {
                        let mut d = b64_decode_strict(t).unwrap_or_default();
                        if rng.chance(1, 2) {
                            d.truncate(d.len().saturating_sub(k));
                        } else {
                            d.extend(gen_bytes(rng, k));
                        }
                        *t = b64(&d);
                    }
                }
            }
            4 => {
                // text that is not canonical base64
                for e in es.iter_mut() {
                    if let Ent::Data(t) = e {
                        let mut cs: Vec<char> = t.chars().collect();
                        match rng.below(4) {
                            0 => {
                                cs.pop();
                            }
                            1 => cs.push(*rng.pick(&['A', '=', '*', ' '])),
                            2 if !cs.is_empty() => {
                                let i = rng.below(cs.len() as u64) as usize;
                                cs[i] = *rng.pick(&['=', '*', '-', '_', ' ', '\n', 'é', '\0']);
                            }
                            _ => cs.extend("====".chars()),
                        }
                        *t = cs.into_iter().collect();
                    }
                }
            }
            5 => {
                // the data split over two `data` keys
                if let Some(i) = es.iter().position(|e| matches!(e, Ent::Data(_))) {
                    if let Ent::Data(t) = es[i].clone() {
                        let d = b64_decode_strict(&t).unwrap_or_default();
                        let cut = rng.below(d.len() as u64 + 1) as usize;
                        es[i] = Ent::Data(b64(&d[..cut]));
                        es.insert((i + 1 + rng.below((es.len() - i) as u64) as usize).min(es.len()), Ent::Data(b64(&d[cut..])));
                    }
                }
            }
            6 => {
                let k = rng.below(7) as usize;
                es.insert(at, Ent::Data(b64(&gen_bytes(rng, k))))
            }
            7 if !es.is_empty() => {
                es.remove(at.min(es.len() - 1));
            }
            8 => es.insert(
                at,
                Ent::Other(
                    rng.pick(&["type", "Size", "datum", "", "channel", "é"]).to_string(),
                    rng.pick(&["\"image\"", "null", "[[1,2],{\"data\":\"AAAA\"}]", "1e308", "{\"size\":[1,1]}"]).to_string(),
                ),
            ),
            9 => es.insert(at, Ent::Bad("size".into(), rng.pick(&["\"1 1\"", "[1]", "[1,2,3]", "[-1,1]", "[1.5,1]", "null", "{\"height\":1}", "{\"height\":1,\"width\":2,\"height\":3}", "[18446744073709551616,1]", "7"]).to_string())),
            10 => es.insert(at, Ent::Bad("channels".into(), rng.pick(&["-1", "1.0", "\"4\"", "null", "18446744073709551616", "[4]", "4e0"]).to_string())),
            11 => es.insert(at, Ent::Bad("data".into(), rng.pick(&["5", "null", "[\"AAAA\"]", "{}", "true"]).to_string())),
            _ => {}
        }
    }
    // in-process documents keep clear of the idle loop of the unrepaired `new_with` (a hang cannot be caught
    // in-process); the documents of the child processes do not
    if !allow_idle && idles(&es) {
        for e in es.iter_mut() {
            if let Ent::Size(h, w, _) = e {
                *h = (*h).min(IDLE_DIM);
                *w = (*w).min(IDLE_DIM);
            }
        }
    }
    es
}

fn image_corner_docs() -> Vec<Vec<Ent>> {
    let big = 1u64 << 32;
    vec![
        vec![Ent::Size(big, big, false), Ent::Channels(4), Ent::Data(String::new())],
        vec![Ent::Size(1 << 63, 2, false), Ent::Channels(1), Ent::Data(String::new())],
        vec![Ent::Size(u64::MAX, u64::MAX, true), Ent::Data(String::new())],
        vec![Ent::Size(1 << 62, 1, false), Ent::Channels(4), Ent::Data(String::new())],
        vec![Ent::Size(1 << 31, 1 << 31, false), Ent::Channels(4), Ent::Data(b64(&[0; 16]))],
        vec![Ent::Size(1 << 20, 1 << 20, false), Ent::Channels(4), Ent::Data(b64(&[7; 64]))],
        vec![Ent::Size(6148914691236517206, 3, false), Ent::Channels(3), Ent::Data(b64(&[1, 2]))], // 3*h*3 wraps to 2
        vec![Ent::Size(0, 0, false), Ent::Data(String::new())],
        vec![Ent::Size(0, 5, false), Ent::Channels(1)],
        vec![Ent::Size(5, 0, true), Ent::Channels(4), Ent::Data(String::new())],
        vec![Ent::Size(0, IDLE_DIM, false), Ent::Channels(1), Ent::Data(String::new())],
        vec![Ent::Data(b64(&[1, 2, 3])), Ent::Size(1, 1, false)],
        vec![Ent::Data(b64(&[1, 2, 3]))],
        vec![],
        vec![Ent::Size(1, 1, false), Ent::Channels(2), Ent::Data(b64(&[1, 2]))],
        vec![Ent::Size(1, 1, false), Ent::Channels(2), Ent::Channels(3), Ent::Data(b64(&[1, 2, 3]))],
        vec![Ent::Size(1, 1, false), Ent::Channels(0), Ent::Data(String::new())],
        vec![Ent::Size(1, 2, false), Ent::Channels(1), Ent::Data(b64(&[9])), Ent::Data(b64(&[8]))],
        vec![Ent::Size(9, 9, false), Ent::Size(1, 1, true), Ent::Channels(4), Ent::Data(b64(&[1, 2, 3, 4]))],
        vec![Ent::Size(1, 1, false), Ent::Channels(4), Ent::Data("AQID".into())],
        vec![Ent::Size(1, 1, false), Ent::Channels(4), Ent::Data("AQIDBA=".into())],
        vec![Ent::Size(1, 1, false), Ent::Channels(3), Ent::Data("A*I-".into())],
        vec![Ent::Size(1, 1, false), Ent::Channels(1), Ent::Data("AQ==".into())],
        vec![Ent::Size(1, 1, false), Ent::Channels(1), Ent::Data("A===".into())],
        vec![Ent::Size(2, 1, false), Ent::Channels(1), Ent::Data("AQ==AQ==".into())],
        vec![Ent::Bad("size".into(), "[1]".into()), Ent::Channels(9)],
        vec![Ent::Channels(9), Ent::Bad("size".into(), "[1]".into())],
    ]
}
