// part (c): correspondence of the glyph / text / view-tree deserialisers with `SurfModel.SerdeView`
//
// A document (JSON text) is parsed here by a small parser that keeps repeated keys and member order and is
// sent to the Lean driver in prefix form; the crate deserialises the same text.  Verdicts (`ok` / `err`) are
// compared for every document; for documents on the exact grid of the C10 layout model the layout trees the
// deserialised view produces under five constraints are compared as well (that is the canonical dump of the
// tree: the model's tree laid out by the C10 model must give the crate's layout).

struct JP<'a> {
    s: &'a [u8],
    i: usize,
    max_depth: usize,
    chars: std::collections::BTreeSet<char>,
    /// the document is read by a typed visitor straight from the text (kind `glyph`); otherwise it goes through a
    /// `serde_json::Value` first (repeated keys collapse) — rasterize is asked the same way
    typed: bool,
}

impl<'a> JP<'a> {
    fn ws(&mut self) {
        while self.i < self.s.len() && matches!(self.s[self.i], b' ' | b'\t' | b'\n' | b'\r') {
            self.i += 1;
        }
    }
    fn string(&mut self) -> Option<String> {
        // at the opening quote
        let start = self.i;
        self.i += 1;
        while self.i < self.s.len() {
            match self.s[self.i] {
                b'\\' => self.i += 2,
                b'"' => {
                    self.i += 1;
                    let raw = std::str::from_utf8(&self.s[start..self.i]).ok()?;
                    let v: String = serde_json::from_str(raw).ok()?;
                    for c in v.chars() {
                        self.chars.insert(c);
                    }
                    return Some(v);
                }
                _ => self.i += 1,
            }
        }
        None
    }
    fn str_tok(s: &str) -> String {
        if s.is_empty() { "S-".to_string() } else { format!("S{}", s.chars().map(|c| (c as u32).to_string()).collect::<Vec<_>>().join(".")) }
    }
    fn number(&mut self) -> Option<String> {
        let start = self.i;
        while self.i < self.s.len() && matches!(self.s[self.i], b'-' | b'+' | b'.' | b'e' | b'E' | b'0'..=b'9') {
            self.i += 1;
        }
        let lit = std::str::from_utf8(&self.s[start..self.i]).ok()?;
        // must be a number for serde_json
        let n: serde_json::Number = serde_json::from_str(lit).ok()?;
        if let Some(u) = n.as_u64() {
            return Some(format!("P{u}"));
        }
        if let Some(i) = n.as_i64() {
            return Some(format!("M{i}"));
        }
        let f = n.as_f64()?;
        if !f.is_finite() {
            return None;
        }
        if f == 0.0 {
            return Some("R0p0".to_string());
        }
        let bits = f.to_bits();
        let exp = ((bits >> 52) & 0x7ff) as i64;
        let frac = bits & ((1u64 << 52) - 1);
        let m = if exp == 0 { frac } else { frac | (1u64 << 52) };
        let e = exp.max(1) - 1075;
        Some(format!("R{}{}p{}", if f < 0.0 { "-" } else { "" }, m, e))
    }
    /// value → tokens; `key` = the member name this value sits under (rasterize is asked about `path` / `scene`)
    fn value(&mut self, depth: usize, key: Option<&str>, out: &mut Vec<String>) -> Option<()> {
        self.max_depth = self.max_depth.max(depth);
        if depth > 600 {
            return None;
        }
        self.ws();
        let c = *self.s.get(self.i)?;
        if key == Some("scene") {
            // hand the raw value to rasterize
            let start = self.i;
            let mut sink = Vec::new();
            self.value(depth, None, &mut sink)?;
            let raw = std::str::from_utf8(&self.s[start..self.i]).ok()?;
            let ok = if self.typed {
                serde_json::from_str::<rasterize::Scene>(raw).is_ok()
            } else {
                serde_json::from_str::<Value>(raw).ok().map(|v| serde_json::from_value::<rasterize::Scene>(v).is_ok()).unwrap_or(false)
            };
            out.push(if ok { "T" } else { "F" }.to_string());
            return Some(());
        }
        match c {
            b'n' if self.s[self.i..].starts_with(b"null") => {
                self.i += 4;
                out.push("N".into());
            }
            b't' if self.s[self.i..].starts_with(b"true") => {
                self.i += 4;
                out.push("T".into());
            }
            b'f' if self.s[self.i..].starts_with(b"false") => {
                self.i += 5;
                out.push("F".into());
            }
            b'"' => {
                let s = self.string()?;
                if key == Some("path") {
                    let ok = s.parse::<rasterize::Path>().is_ok();
                    out.push(Self::str_tok(if ok { "ok" } else { "bad" }));
                } else {
                    out.push(Self::str_tok(&s));
                }
            }
            b'[' => {
                self.i += 1;
                let at = out.len();
                out.push(String::new());
                let mut n = 0;
                self.ws();
                if self.s.get(self.i) == Some(&b']') {
                    self.i += 1;
                } else {
                    loop {
                        self.value(depth + 1, None, out)?;
                        n += 1;
                        self.ws();
                        match self.s.get(self.i)? {
                            b',' => self.i += 1,
                            b']' => {
                                self.i += 1;
                                break;
                            }
                            _ => return None,
                        }
                    }
                }
                out[at] = format!("A{n}");
            }
            b'{' => {
                self.i += 1;
                let at = out.len();
                out.push(String::new());
                let mut n = 0;
                self.ws();
                if self.s.get(self.i) == Some(&b'}') {
                    self.i += 1;
                } else {
                    loop {
                        self.ws();
                        if self.s.get(self.i) != Some(&b'"') {
                            return None;
                        }
                        let k = self.string()?;
                        out.push(Self::str_tok(&k));
                        self.ws();
                        if self.s.get(self.i) != Some(&b':') {
                            return None;
                        }
                        self.i += 1;
                        self.value(depth + 1, Some(&k), out)?;
                        n += 1;
                        self.ws();
                        match self.s.get(self.i)? {
                            b',' => self.i += 1,
                            b'}' => {
                                self.i += 1;
                                break;
                            }
                            _ => return None,
                        }
                    }
                }
                out[at] = format!("O{n}");
            }
            b'-' | b'0'..=b'9' => out.push(self.number()?),
            _ => return None,
        }
        Some(())
    }
}

/// JSON text → (tokens, nesting depth, characters used); `None` when this parser does not accept the text
fn doc_tokens(text: &str, typed: bool) -> Option<(Vec<String>, usize, Vec<char>)> {
    let mut p = JP { s: text.as_bytes(), i: 0, max_depth: 0, chars: Default::default(), typed };
    let mut out = Vec::new();
    p.value(0, None, &mut out)?;
    p.ws();
    if p.i != p.s.len() {
        return None;
    }
    Some((out, p.max_depth, p.chars.into_iter().collect()))
}

/// width of a character as the crate lays it out (through a one-character `str` view)
fn char_width(c: char) -> usize {
    let ctx = make_ctx(true, (37, 15));
    let mut store = ViewLayoutStore::new();
    let s = c.to_string();
    match s.as_str().layout_new(&ctx, BoxConstraint::loose(Size::new(3, 100)), &mut store) {
        Ok(l) => l.size().width,
        Err(_) => 0,
    }
}

fn lt_dump(l: ViewLayout<'_>, out: &mut String) {
    let d = if l.data::<usize>().is_some() || l.data::<Value>().is_some() { 't' } else { '-' };
    out.push_str(&format!("({} {} {} {} {d}", l.position().row, l.position().col, l.size().height, l.size().width));
    for k in l.children() {
        out.push(' ');
        lt_dump(k, out);
    }
    out.push(')');
}

const DOC_CTS: [(usize, usize, usize, usize); 5] = [(0, 0, 6, 12), (3, 7, 3, 7), (0, 0, 0, 0), (2, 2, 40, 50), (0, 0, 1, 1000)];

fn layouts_of(view: &dyn View, glyphs: bool) -> String {
    let ctx = make_ctx(glyphs, (37, 15));
    let mut parts = Vec::new();
    for (a, b, c, d) in DOC_CTS {
        let mut store = ViewLayoutStore::new();
        match view.layout_new(&ctx, BoxConstraint::new(Size::new(a, b), Size::new(c, d)), &mut store) {
            Ok(l) => {
                let mut s = String::new();
                lt_dump(l.view(), &mut s);
                parts.push(s);
            }
            Err(e) => parts.push(format!("layout-error:{e}")),
        }
    }
    parts.join(" ")
}

/// the crate's answer for a document: `err`, `ok`, or `ok <layouts>`
fn crate_doc(kind: &str, text: &str, with_layouts: bool, glyphs: bool) -> Result<String, ()> {
    let colors = color_table();
    guarded(|| {
        let mut jd = serde_json::Deserializer::from_str(text);
        let view: Result<ArcView<'static>, ()> = match kind {
            "glyph" => (&surf_n_term::glyph::GlyphDeserializer { colors: &colors }).deserialize(&mut jd).map(|g| g.arc()).map_err(|_| ()),
            _ => (&ViewDeserializer::new(Some(&colors), None)).deserialize(&mut jd).map_err(|_| ()),
        };
        match view {
            Err(()) => "err".to_string(),
            Ok(v) if with_layouts => format!("ok {}", layouts_of(&v, glyphs)),
            Ok(_) => "ok".to_string(),
        }
    })
}

/// one correspondence case
fn doc_corr_case(ctx: &mut Ctx, kind: &str, text: &str, with_layouts: bool) {
    // `TextDeserializer` with a caller-chosen colour table is private: a text document goes through the view
    // deserialiser as the `text` member of a `{"type":"text"}` view (the same `collect_rec`)
    let wrapped;
    let (kind, text) = if kind == "text" {
        wrapped = format!("{{\"type\":\"text\",\"text\":{text}}}");
        ("view", wrapped.as_str())
    } else {
        (kind, text)
    };
    // what serde_json itself says about the text; documents it rejects (syntax, recursion limit, number range)
    // are outside the model, which starts at a parsed value
    let Some((toks, depth, chars)) = doc_tokens(text, kind == "glyph") else {
        ctx.out.hist("doc-corr:skipped(not a JSON value for the harness parser)");
        return;
    };
    if depth > 100 || serde_json::from_str::<Value>(text).is_err() {
        ctx.out.hist("doc-corr:skipped(serde_json recursion limit / rejects)");
        return;
    }
    let glyphs = text.len() % 2 == 0;
    let widths: Vec<String> = chars
        .iter()
        .filter(|c| !(' '..='~').contains(*c) && !matches!(**c, '\n' | '\r' | '\t'))
        .map(|c| format!("{}:{}", *c as u32, char_width(*c)))
        .collect();
    let answer = match crate_doc(kind, text, with_layouts, glyphs) {
        Ok(a) => a,
        Err(()) => {
            ctx.out.fail(
                "deserialisation (or layout of the deserialised value) panics",
                json!({"kind": "doc-corr", "doc_kind": kind, "doc": text, "layouts": with_layouts}),
                json!("Ok or Err"),
                json!("panic"),
            );
            "panic".to_string()
        }
    };
    ctx.out.corr(
        &format!(
            "c19 doc {kind} {} {} {} {}",
            if with_layouts { "L" } else { "V" },
            if glyphs { 1 } else { 0 },
            if widths.is_empty() { "-".to_string() } else { widths.join(",") },
            toks.join(" ")
        ),
        &answer,
    );
    ctx.out.case(&format!("doc-corr {kind} {text}"), answer.starts_with("ok"));
    ctx.out.hist(&format!("doc-corr:{kind}:{}{}", if answer.starts_with("ok") { "ok" } else { "err" }, if with_layouts { "+layouts" } else { "" }));
}

// ---- documents on the exact grid of the layout model: small extents, flex factors k/4 -------------------

fn plain_text_j(rng: &mut Rng, depth: u32) -> J {
    const STRS: [&str; 10] = ["", "a", "hello world", "two\nlines", "tab\there", "宽字", "x\ry", "trailing\n", "0123456789abcdef", "é!"];
    match if depth == 0 { 0 } else { rng.below(6) } {
        0 | 1 => J::Str(rng.pick(&STRS).to_string()),
        2 => J::Arr((0..rng.below(4)).map(|_| plain_text_j(rng, depth - 1)).collect()),
        _ => {
            let mut es: Vec<(String, J)> = Vec::new();
            if rng.chance(1, 2) {
                es.push(("face".into(), J::Str(tidy_face_string(rng))));
            }
            if rng.chance(1, 3) {
                es.push(("wraps".into(), J::Raw(rng.pick(&["true", "false"]).to_string())));
            }
            if rng.chance(1, 4) {
                es.push(("glyph".into(), plain_glyph_j(rng)));
            } else {
                es.push(("text".into(), plain_text_j(rng, depth - 1)));
            }
            J::Obj(es)
        }
    }
}

fn plain_size_j(rng: &mut Rng, max: u64) -> J {
    let (h, w) = (rng.below(max + 1), rng.below(max + 1));
    if rng.chance(1, 2) { J::Arr(vec![J::num(h), J::num(w)]) } else { J::Obj(vec![("width".into(), J::num(w)), ("height".into(), J::num(h))]) }
}

fn plain_glyph_j(rng: &mut Rng) -> J {
    let mut es: Vec<(String, J)> = vec![("path".into(), J::Str(rng.pick(&["M0,0 h1 v1 h-1 z", "M1,1 L10,10", ""]).to_string()))];
    if rng.chance(2, 3) {
        es.push(("size".into(), plain_size_j(rng, 5)));
    }
    if rng.chance(1, 2) {
        es.push(("fallback".into(), J::Str(rng.pick(&["", "x", "ab", "abcdefg", "宽", "a\tb"]).to_string())));
    }
    if rng.chance(1, 3) {
        es.push(("view_box".into(), J::Raw("[0,0,24,24]".into())));
    }
    if rng.chance(1, 4) {
        es.push(("frame".into(), J::Raw(r##"{"margin":[0.1,0.1,0.1,0.1],"border_color":"#ff0000","fill_color":"#00ff0080"}"##.into())));
    }
    J::Obj(es)
}

fn plain_align(rng: &mut Rng) -> J {
    J::Raw(rng.pick(&["\"start\"", "\"center\"", "\"end\"", "\"expand\"", "\"shrink\"", "{\"offset\":2}", "{\"offset\":-1}", "{\"offset\":0}", "{\"offset\":-7}", "{\"offset\":9}"]).to_string())
}

fn plain_view_j(rng: &mut Rng, depth: u32) -> J {
    let ty = |t: &str| ("type".to_string(), J::s(t));
    match if depth == 0 { rng.below(4) } else { rng.below(12) } {
        0 | 1 => {
            let mut es = match plain_text_j(rng, 2) {
                J::Obj(es) => es,
                other => vec![("text".to_string(), other)],
            };
            es.push(ty("text"));
            J::Obj(es)
        }
        2 => {
            let mut es = match plain_glyph_j(rng) {
                J::Obj(es) => es,
                _ => vec![],
            };
            es.push(ty("glyph"));
            J::Obj(es)
        }
        3 => {
            let (h, w) = (rng.below(4), rng.below(4));
            let ch = *rng.pick(&[1u64, 3, 4]);
            let data = gen_bytes(rng, (ch * h * w) as usize);
            let t: &str = *rng.pick(&["image", "image_ascii"]);
            J::Obj(vec![ty(t), ("size".into(), J::Arr(vec![J::num(h), J::num(w)])), ("channels".into(), J::num(ch)), ("data".into(), J::Str(b64(&data)))])
        }
        4..=6 => {
            let n = rng.below(4);
            let children: Vec<J> = (0..n)
                .map(|_| {
                    if rng.chance(1, 3) {
                        plain_view_j(rng, depth - 1)
                    } else {
                        let mut es: Vec<(String, J)> = Vec::new();
                        if rng.chance(2, 3) {
                            es.push(("flex".into(), J::Raw(rng.pick(&["0.25", "0.5", "1", "1.5", "2", "3", "0", "-1", "4"]).to_string())));
                        }
                        if rng.chance(1, 2) {
                            es.push(("align".into(), plain_align(rng)));
                        }
                        if rng.chance(1, 3) {
                            es.push(("face".into(), J::Str(tidy_face_string(rng))));
                        }
                        es.push(("view".into(), plain_view_j(rng, depth - 1)));
                        J::Obj(es)
                    }
                })
                .collect();
            let mut es = vec![ty("flex"), ("children".into(), J::Arr(children))];
            if rng.chance(2, 3) {
                es.push(("direction".into(), J::Raw(rng.pick(&["\"horizontal\"", "\"vertical\""]).to_string())));
            }
            if rng.chance(2, 3) {
                es.push(("justify".into(), J::Raw(rng.pick(&["\"start\"", "\"center\"", "\"end\"", "\"space-between\"", "\"space-around\"", "\"space-evenly\""]).to_string())));
            }
            J::Obj(es)
        }
        7..=9 => {
            let mut es = vec![ty("container"), ("child".into(), plain_view_j(rng, depth - 1))];
            if rng.chance(1, 2) {
                es.push(("face".into(), J::Str(if rng.chance(1, 4) { String::new() } else { tidy_face_string(rng) })));
            }
            if rng.chance(1, 2) {
                es.push(("vertical".into(), plain_align(rng)));
            }
            if rng.chance(1, 2) {
                es.push(("horizontal".into(), plain_align(rng)));
            }
            if rng.chance(1, 2) {
                let mut ms: Vec<(String, J)> = Vec::new();
                for k in ["left", "right", "top", "bottom"] {
                    if rng.chance(1, 2) {
                        ms.push((k.into(), J::num(rng.below(4))));
                    }
                }
                es.push(("margins".into(), if rng.chance(1, 5) { J::Arr((0..rng.below(5)).map(|_| J::num(rng.below(3))).collect()) } else { J::Obj(ms) }));
            }
            if rng.chance(1, 2) {
                es.push(("size".into(), plain_size_j(rng, 12)));
            }
            J::Obj(es)
        }
        10 => J::Obj(vec![ty("tag"), ("tag".into(), J::num(7)), ("view".into(), plain_view_j(rng, depth - 1))]),
        _ => match rng.below(3) {
            0 => J::Obj(vec![ty("trace-layout"), ("view".into(), plain_view_j(rng, depth - 1))]),
            1 => J::Obj(vec![ty("ref"), ("ref".into(), J::num(3))]),
            _ => J::Obj(vec![ty("flex")]),
        },
    }
}

fn doc_corr_corner() -> Vec<(&'static str, &'static str)> {
    vec![
        ("view", r##"{"type":"text","text":"a","type":"flex"}"##),
        ("view", r##"{"type":"flex","type":"text","text":"a"}"##),
        ("view", r##"{"type":"container","child":{"type":"text","text":"x"},"vertical":{"start":null},"horizontal":{"offset":3,"offset":-2}}"##),
        ("view", r##"{"type":"container","child":{"type":"text","text":"x"},"vertical":{"start":null,"end":null}}"##),
        ("view", r##"{"type":"container","child":{"type":"text","text":"x"},"vertical":"offset"}"##),
        ("view", r##"{"type":"container","child":{"type":"text","text":"x"},"margins":[1,2],"size":{"height":2,"width":3,"depth":1}}"##),
        ("view", r##"{"type":"container","child":{"type":"text","text":"x"},"margins":[1,2,3,4,5]}"##),
        ("view", r##"{"type":"container","child":{"type":"text","text":"x"},"size":[1,2,3]}"##),
        ("view", r##"{"type":"container","child":{"type":"text","text":"x"},"face":""}"##),
        ("view", r##"{"type":"container","child":{"type":"text","text":"x"},"face":"bg=purple/.5"}"##),
        ("view", r##"{"type":"container","child":{"type":"text","text":"x"},"face":"bg=purple/x"}"##),
        ("view", r##"{"type":"flex","direction":{"vertical":null},"children":[{"type":"text","text":"a","flex":2},{"flex":1e308,"view":{"type":"text","text":"b"}}]}"##),
        ("view", r##"{"type":"flex","children":[{"flex":18446744073709551616,"view":{"type":"text","text":"b"}},{"flex":-0.0,"view":{"type":"ref","ref":-5}}]}"##),
        ("view", r##"{"type":"flex","children":{"0":1}}"##),
        ("view", r##"{"type":"ref","ref":9223372036854775808}"##),
        ("view", r##"{"type":"ref","ref":1.0}"##),
        ("view", r##"{"type":"color","color":"#ff0000"}"##),
        ("view", r##"{"type":"tag","view":{"type":"text","text":"x"}}"##),
        ("view", r##"{"type":"tag","tag":null,"view":{"type":"text","text":"x"}}"##),
        ("view", r##"{"type":"trace-layout","msg":5,"view":{"type":"text","text":"x"}}"##),
        ("view", r##"{"type":"glyph","path":"M0,0 h1 v1 z","scene":{"type":"fill","paint":"#ff0000","path":"M0,0 h1 v1 z"}}"##),
        ("view", r##"{"type":"glyph","scene":{"type":"fill","paint":"#ff0000","path":"M0,0 h1 v1 z"},"size":[2,4],"fallback":"ab"}"##),
        ("view", r##"{"type":"glyph","path":"M0,0 h1 v1 z","view_box":[0,0,1],"size":[2,4]}"##),
        ("view", r##"{"type":"glyph","path":"M0,0 h1 v1 z","fill_rule":"evenodd","frame":{"margin":[0,0,0,0],"padding":[1,1,1]}}"##),
        ("view", r##"{"type":"glyph","path":"M0,0 h1 v1 z","frame":{"border_color":"nocolor"}}"##),
        ("view", r##"{"type":"image","size":[1,1],"channels":4,"data":"AQIDBA==","size":[0,0]}"##),
        ("view", r##"{"type":"image_ascii","size":[3,2],"channels":1,"data":"AQIDBAUG"}"##),
        ("text", r##"{"wraps":false,"text":[{"wraps":true,"text":"a"},"b"]}"##),
        ("text", r##"{"glyph":{"path":"M0,0 h1 v1 z","size":[1,2]},"text":"ignored"}"##),
        ("text", r##"[[], {}, {"face":"bold"}, "x", {"text":{"text":{"text":"deep"}}}]"##),
        ("text", r##"{"face":"nonsense","text":"a"}"##),
        ("text", r##"5"##),
        ("glyph", r##"{"path":"M0,0 h1 v1 z","size":"x","size":[1,1]}"##),
        ("glyph", r##"{"path":"garbage"}"##),
        ("glyph", r##"[]"##),
    ]
}

/// pixel-less images with extreme dimensions, in every view kind that embeds an image, bare and inside a flex
/// and a container: the exact boundaries of `usize` arithmetic on the declared size (layout of `image_ascii`
/// computes `h / 2 + h % 2`, `Image` computes cells from pixels)
fn extreme_image_docs() -> Vec<(String, String)> {
    let dims: [u64; 8] = [u64::MAX, u64::MAX - 1, 1 << 63, (1 << 63) - 1, (1 << 62) + 1, (1u64 << 32) + 1, (1u64 << 32) - 1, 3];
    let mut docs = Vec::new();
    for d in dims {
        for (h, w) in [(d, 0u64), (0u64, d)] {
            for ch in [1u64, 3, 4] {
                let body = format!("\"size\":[{h},{w}],\"channels\":{ch},\"data\":\"\"");
                docs.push(("image".to_string(), format!("{{{body}}}")));
                for ty in ["image", "image_ascii"] {
                    let leaf = format!("{{\"type\":\"{ty}\",{body}}}");
                    docs.push(("view".to_string(), leaf.clone()));
                    docs.push(("view".to_string(), format!("{{\"type\":\"flex\",\"direction\":\"vertical\",\"children\":[{{\"flex\":1,\"view\":{leaf}}},{{\"type\":\"text\",\"text\":\"x\"}}]}}")));
                    docs.push(("view".to_string(), format!("{{\"type\":\"container\",\"vertical\":\"expand\",\"margins\":{{\"top\":1}},\"child\":{leaf}}}")));
                }
            }
        }
    }
    docs
}

/// the extreme image documents as correspondence cases (with layouts).  In-process, so only after the child
/// processes have shown that none of them hangs or aborts.
fn doc_corr_extreme(ctx: &mut Ctx) {
    for (kind, text) in extreme_image_docs() {
        if kind == "view" {
            doc_corr_case(ctx, "view", &text, true);
        }
    }
}

fn doc_corr_part(ctx: &mut Ctx) {
    let t = ctx.thorough;
    for (k, d) in doc_corr_corner() {
        doc_corr_case(ctx, k, d, true);
    }
    // exact-grid documents: verdict + layouts
    CHAOS.store(false, Ordering::Relaxed);
    for _ in 0..(if t { 60_000 } else { 2_500 }) {
        let (kind, j) = match ctx.rng.below(6) {
            0 => ("text", plain_text_j(&mut ctx.rng, 3)),
            1 => ("glyph", plain_glyph_j(&mut ctx.rng)),
            _ => ("view", plain_view_j(&mut ctx.rng, 3)),
        };
        doc_corr_case(ctx, kind, &j.text(), true);
    }
    // the fuzz generator's documents (tidy extreme, ill-typed, edited, repeated keys): verdict only
    for _ in 0..(if t { 150_000 } else { 5_000 }) {
        let (kind, text) = gen_doc(&mut ctx.rng);
        let base = kind.split([':', '+']).next().unwrap_or("");
        // an image with a huge declared extent is left to the child processes (a hang cannot be caught in-process)
        let risky = text.contains("\"image") && text.as_bytes().windows(6).any(|w| w.iter().all(|b| b.is_ascii_digit()));
        if matches!(base, "view" | "text" | "glyph") && text.len() < 20_000 && !risky {
            doc_corr_case(ctx, base, &text, false);
        }
    }
}
