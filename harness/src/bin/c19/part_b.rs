// part (b): JSON fuzz — generators (documents as JSON text), child batch runner, parent supervision

const TEXTS: [&str; 14] = [
    "", "a", "hello world", "line1\nline2", "tab\there", "宽字符テスト", "e\u{301}\u{200b}x", "👩‍👩‍👧‍👦 family", "\u{0}\u{1b}[31m", "  ", "\r\n", "ａｂｃ", "x\u{fe0f}", "long long long long long long long long long long long long long long text that wraps a few times over",
];
const PATHS: [&str; 14] = [
    "M0,0 h1 v1 h-1 z",
    "M1,1 L10,10",
    "",
    "M0,0",
    "M 1e308,1e308 L -1e308 5",
    "Z",
    "M0,0 C1,1 2,2 3,3 Q 4 4 5 5 A 1 1 0 0 1 6 6 z",
    "garbage",
    "M0,0 L",
    "M10 10 A 1e-9 5 0 1 1 20 20", // radii whose square is zero are left out: rasterize 0.6.9 arc_to allocates without bound (reported)
    "M0,0 l NaN,1",
    "M.5.5.5.5",
    "M18.71,19.5C17.88,20.74 17,21.95 15.66,21.97C14.32,22 13.89,21.18 12.37,21.18C10.84,21.18 10.37,21.95 9.1,22Z",
    "M0,0 A1e-6 1e300 1e9 1 1 5 5 S 1 1 2 2 T 3 3 H 1e39 V -0",
];
const FLOATS: [&str; 16] = ["0", "1", "-1", "0.5", "2.5", "100", "1e308", "-1e308", "1e-308", "1e400", "-0.0", "5e-324", "\"NaN\"", "\"inf\"", "null", "18446744073709551616"];
const ALIGNS: [&str; 12] = ["\"start\"", "\"center\"", "\"end\"", "\"expand\"", "\"shrink\"", "{\"offset\":3}", "{\"offset\":-2}", "{\"offset\":2147483647}", "{\"offset\":-2147483648}", "{\"offset\":2147483648}", "\"middle\"", "{\"offset\":1.5}"];
const JUNK: [&str; 14] = ["null", "true", "false", "0", "-1", "1.5", "1e308", "\"\"", "\"x\"", "[]", "{}", "[null]", "{\"type\":5}", "18446744073709551616"];

/// documents are generated either tidy (well typed, extreme values only) or with ill-typed members sprinkled in
static CHAOS: std::sync::atomic::AtomicBool = std::sync::atomic::AtomicBool::new(false);
fn chaos(rng: &mut Rng, num: u64, den: u64) -> bool {
    let c = rng.chance(num, den);
    c && CHAOS.load(Ordering::Relaxed)
}
const GOOD_FLOATS: [&str; 11] = ["0", "1", "-1", "0.5", "2.5", "100", "1e308", "-1e308", "1e-308", "-0.0", "5e-324"];
const GOOD_ALIGNS: [&str; 9] = ["\"start\"", "\"center\"", "\"end\"", "\"expand\"", "\"shrink\"", "{\"offset\":3}", "{\"offset\":-2}", "{\"offset\":2147483647}", "{\"offset\":-2147483648}"];
fn floats(rng: &mut Rng) -> J {
    if CHAOS.load(Ordering::Relaxed) { raw(rng, &FLOATS) } else { raw(rng, &GOOD_FLOATS) }
}
fn aligns(rng: &mut Rng) -> J {
    if CHAOS.load(Ordering::Relaxed) { raw(rng, &ALIGNS) } else { raw(rng, &GOOD_ALIGNS) }
}
fn tidy_face_string(rng: &mut Rng) -> String {
    let (attrs, _) = gen_attrs(rng);
    let fg = if rng.chance(1, 2) { Some(gen_rgba(rng)) } else { None };
    let bg = if rng.chance(1, 2) { Some(gen_rgba(rng)) } else { None };
    Face::new(fg, bg, attrs).to_string()
}

fn raw(rng: &mut Rng, xs: &[&str]) -> J {
    J::Raw(rng.pick(xs).to_string())
}

fn gen_usize_j(rng: &mut Rng) -> J {
    let top = if CHAOS.load(Ordering::Relaxed) { 12 } else { 11 };
    match rng.below(top) {
        0..=4 => J::num(rng.below(12)),
        5..=8 => J::num(rng.pick(&EXTREME)),
        9 => J::num(rng.next()),
        10 => J::num(1u64 << rng.below(64)),
        _ => raw(rng, &BAD_USIZE),
    }
}

fn gen_size_j(rng: &mut Rng) -> J {
    if !CHAOS.load(Ordering::Relaxed) {
        return if rng.chance(1, 2) {
            J::Arr(vec![gen_usize_j(rng), gen_usize_j(rng)])
        } else {
            J::Obj(vec![("height".to_string(), gen_usize_j(rng)), ("width".to_string(), gen_usize_j(rng))])
        };
    }
    match rng.below(8) {
        0..=3 => J::Arr(vec![gen_usize_j(rng), gen_usize_j(rng)]),
        4..=5 => {
            let mut es = vec![("height".to_string(), gen_usize_j(rng)), ("width".to_string(), gen_usize_j(rng))];
            match rng.below(5) {
                0 => es.push(("height".to_string(), gen_usize_j(rng))),
                1 => {
                    es.remove(rng.below(2) as usize);
                }
                2 => es.push(("depth".to_string(), raw(rng, &JUNK))),
                _ => {}
            }
            J::Obj(es)
        }
        6 => J::Arr((0..rng.below(4)).map(|_| gen_usize_j(rng)).collect()),
        _ => raw(rng, &JUNK),
    }
}

fn gen_face_j(rng: &mut Rng) -> J {
    if chaos(rng, 1, 10) {
        raw(rng, &JUNK)
    } else if CHAOS.load(Ordering::Relaxed) && rng.chance(1, 2) {
        J::Str(gen_face_string(rng))
    } else {
        J::Str(tidy_face_string(rng))
    }
}

fn gen_color_j(rng: &mut Rng) -> J {
    if chaos(rng, 1, 10) {
        raw(rng, &JUNK)
    } else if CHAOS.load(Ordering::Relaxed) {
        J::Str(gen_color_string(rng))
    } else {
        let c = gen_rgba(rng);
        J::Str(c.to_string())
    }
}

fn gen_image_j(rng: &mut Rng) -> J {
    let es = gen_image_ents(rng, 6, true);
    J::Obj(es.iter().map(ent_json).collect())
}

fn gen_floats4(rng: &mut Rng) -> J {
    let top = if CHAOS.load(Ordering::Relaxed) { 8 } else { 6 };
    match rng.below(top) {
        0..=5 => J::Arr((0..4).map(|_| floats(rng)).collect()),
        6 => J::Arr((0..rng.below(6)).map(|_| raw(rng, &FLOATS)).collect()),
        _ => raw(rng, &JUNK),
    }
}

const GOOD_PATHS: [&str; 9] = [
    "M0,0 h1 v1 h-1 z",
    "M1,1 L10,10",
    "",
    "M0,0",
    "M 1e308,1e308 L -1e308 5",
    "M0,0 C1,1 2,2 3,3 Q 4 4 5 5 A 1 1 0 0 1 6 6 z",
    "M10 10 A 1e-9 5 0 1 1 20 20",
    "M.5.5.5.5",
    "M18.71,19.5C17.88,20.74 17,21.95 15.66,21.97C14.32,22 13.89,21.18 12.37,21.18C10.84,21.18 10.37,21.95 9.1,22Z",
];
fn path_j(rng: &mut Rng) -> J {
    if CHAOS.load(Ordering::Relaxed) { J::Str(rng.pick(&PATHS).to_string()) } else { J::Str(rng.pick(&GOOD_PATHS).to_string()) }
}

fn gen_scene_j(rng: &mut Rng, depth: u32) -> J {
    let path = |rng: &mut Rng| path_j(rng);
    let tidy = !CHAOS.load(Ordering::Relaxed);
    let paint = |rng: &mut Rng| match rng.below(if tidy { 3 } else { 5 }) {
        0..=2 => gen_color_j(rng),
        3 => J::Raw(r##"{"type":"linear-gradient","stops":[[0,"#ff0000"],[1,"#0000ff"]],"start":[0,0],"end":[1,1]}"##.to_string()),
        _ => raw(rng, &JUNK),
    };
    let kind = if depth == 0 { rng.below(2) } else { rng.below(if tidy { 6 } else { 7 }) };
    match kind {
        0 => J::Obj(vec![("type".into(), J::s("fill")), ("paint".into(), paint(rng)), ("path".into(), path(rng))]),
        1 => J::Obj(vec![("type".into(), J::s("stroke")), ("paint".into(), paint(rng)), ("path".into(), path(rng)), ("width".into(), floats(rng))]),
        2 => J::Obj(vec![("type".into(), J::s("group")), ("children".into(), J::Arr((0..rng.below(4)).map(|_| gen_scene_j(rng, depth - 1)).collect()))]),
        3 => J::Obj(vec![
            ("type".into(), J::s("transform")),
            ("tr".into(), J::Str(rng.pick(&["translate(7, 7) rotate(45, 7, 7) scale(10)", "scale(0)", "matrix(1 0 0 1 1e308 0)", "translate(-1e308 1)", "rotate(NaN)", "nonsense", ""][..if tidy { 4 } else { 7 }]).to_string())),
            ("child".into(), gen_scene_j(rng, depth - 1)),
        ]),
        4 => J::Obj(vec![("type".into(), J::s("opacity")), ("opacity".into(), floats(rng)), ("child".into(), gen_scene_j(rng, depth - 1))]),
        5 => J::Obj(vec![("type".into(), J::s("clip")), ("clip".into(), path(rng)), ("child".into(), gen_scene_j(rng, depth - 1))]),
        _ => raw(rng, &JUNK),
    }
}

fn gen_glyph_j(rng: &mut Rng) -> J {
    let mut es: Vec<(String, J)> = Vec::new();
    match rng.below(if CHAOS.load(Ordering::Relaxed) { 10 } else { 8 }) {
        0..=5 => es.push(("path".into(), path_j(rng))),
        6..=7 => es.push(("scene".into(), gen_scene_j(rng, 3))),
        8 => {
            es.push(("path".into(), path_j(rng)));
            es.push(("scene".into(), gen_scene_j(rng, 2)));
        }
        _ => {}
    }
    if rng.chance(1, 2) {
        es.push(("size".into(), gen_size_j(rng)));
    }
    if rng.chance(1, 2) {
        es.push(("view_box".into(), gen_floats4(rng)));
    }
    if rng.chance(1, 3) {
        es.push(("fallback".into(), if chaos(rng, 1, 8) { raw(rng, &JUNK) } else { J::Str(rng.pick(&TEXTS).to_string()) }));
    }
    if rng.chance(1, 4) {
        es.push(("fill_rule".into(), J::Raw(rng.pick(&["\"nonzero\"", "\"evenodd\"", "\"odd\"", "1"][..if CHAOS.load(Ordering::Relaxed) { 4 } else { 2 }]).to_string())));
    }
    if rng.chance(1, 3) {
        let mut fr: Vec<(String, J)> = Vec::new();
        for k in ["margin", "border_width", "border_radius", "padding"] {
            if rng.chance(1, 2) {
                fr.push((k.into(), gen_floats4(rng)));
            }
        }
        for k in ["border_color", "fill_color"] {
            if rng.chance(1, 2) {
                fr.push((k.into(), gen_color_j(rng)));
            }
        }
        if rng.chance(1, 6) {
            fr.push(("margin".into(), gen_floats4(rng)));
        }
        es.push(("frame".into(), if chaos(rng, 1, 10) { raw(rng, &JUNK) } else { J::Obj(fr) }));
    }
    if rng.chance(1, 8) && !es.is_empty() {
        let i = rng.below(es.len() as u64) as usize;
        let dup = es[i].clone();
        es.push(dup);
    }
    if rng.chance(1, 8) {
        // unknown members are ignored: legal in a tidy document too
        es.push((rng.pick(&["Path", "extra", ""]).to_string(), raw(rng, &JUNK)));
    }
    for _ in 0..rng.below(2) {
        let (i, j) = (rng.below(es.len().max(1) as u64) as usize, rng.below(es.len().max(1) as u64) as usize);
        if i < es.len() && j < es.len() {
            es.swap(i, j);
        }
    }
    J::Obj(es)
}

fn gen_text_j(rng: &mut Rng, depth: u32) -> J {
    let kind = if depth == 0 { rng.below(2) } else { rng.below(if CHAOS.load(Ordering::Relaxed) { 10 } else { 9 }) };
    match kind {
        0 | 1 => J::Str(rng.pick(&TEXTS).to_string()),
        2 | 3 => J::Arr((0..rng.below(4)).map(|_| gen_text_j(rng, depth - 1)).collect()),
        4..=8 => {
            let mut es: Vec<(String, J)> = Vec::new();
            if rng.chance(1, 2) {
                es.push(("face".into(), gen_face_j(rng)));
            }
            if rng.chance(1, 3) {
                es.push(("wraps".into(), J::Raw(rng.pick(&["true", "false", "1", "null"][..if CHAOS.load(Ordering::Relaxed) { 4 } else { 2 }]).to_string())));
            }
            match rng.below(5) {
                0 => es.push(("glyph".into(), gen_glyph_j(rng))),
                1..=3 => es.push(("text".into(), gen_text_j(rng, depth - 1))),
                _ => {}
            }
            if rng.chance(1, 10) {
                es.push(("text".into(), gen_text_j(rng, depth - 1)));
            }
            J::Obj(es)
        }
        _ => raw(rng, &JUNK),
    }
}

fn gen_view_j(rng: &mut Rng, depth: u32) -> J {
    let tidy = !CHAOS.load(Ordering::Relaxed);
    let kind = if depth == 0 { rng.below(if tidy { 4 } else { 5 }) } else { rng.below(if tidy { 14 } else { 16 }) };
    let kind = if tidy && kind == 4 { 5 } else { kind };
    let ty = |t: &str| ("type".to_string(), J::s(t));
    match kind {
        0 | 1 => {
            let mut es = match gen_text_j(rng, 2) {
                J::Obj(es) => es,
                other => vec![("text".to_string(), other)],
            };
            es.insert(rng.below(es.len() as u64 + 1) as usize, ty("text"));
            J::Obj(es)
        }
        2 => {
            let mut es = match gen_glyph_j(rng) {
                J::Obj(es) => es,
                _ => vec![],
            };
            es.push(ty("glyph"));
            J::Obj(es)
        }
        3 => {
            let mut es = match gen_image_j(rng) {
                J::Obj(es) => es,
                _ => vec![],
            };
            let t: &str = *rng.pick(&["image", "image", "image_ascii"]);
            es.insert(0, ty(t));
            J::Obj(es)
        }
        4 => match rng.below(4) {
            0 => J::Obj(vec![ty("color"), ("color".into(), gen_color_j(rng))]),
            1 => J::Obj(vec![ty("ref"), ("ref".into(), J::Raw(rng.pick(&["1", "-1", "9223372036854775807", "9223372036854775808", "\"1\"", "1.5"]).to_string()))]),
            2 => {
                let t: &str = *rng.pick(&["unknown", "", "Text", "flex "]);
                J::Obj(vec![ty(t)])
            }
            _ => J::Obj(vec![("type".into(), raw(rng, &JUNK))]),
        },
        5..=8 => {
            let n = rng.below(5);
            let children: Vec<J> = (0..n)
                .map(|_| {
                    if rng.chance(1, 2) {
                        gen_view_j(rng, depth - 1)
                    } else {
                        let mut es: Vec<(String, J)> = Vec::new();
                        if rng.chance(2, 3) {
                            es.push(("flex".into(), floats(rng)));
                        }
                        if rng.chance(1, 2) {
                            es.push(("align".into(), aligns(rng)));
                        }
                        if rng.chance(1, 3) {
                            es.push(("face".into(), gen_face_j(rng)));
                        }
                        if !chaos(rng, 1, 12) {
                            es.push(("view".into(), gen_view_j(rng, depth - 1)));
                        }
                        J::Obj(es)
                    }
                })
                .collect();
            let mut es = vec![ty("flex")];
            if rng.chance(2, 3) {
                es.push(("direction".into(), J::Raw(rng.pick(&["\"horizontal\"", "\"vertical\"", "\"vertical\"", "\"diagonal\"", "0"][..if tidy { 3 } else { 5 }]).to_string())));
            }
            if rng.chance(2, 3) {
                es.push(("justify".into(), J::Raw(rng.pick(&["\"start\"", "\"center\"", "\"end\"", "\"space-between\"", "\"space-around\"", "\"space-evenly\"", "\"justify\"", "null"][..if tidy { 6 } else { 8 }]).to_string())));
            }
            if !chaos(rng, 1, 12) {
                es.push(("children".into(), if chaos(rng, 1, 15) { raw(rng, &JUNK) } else { J::Arr(children) }));
            }
            J::Obj(es)
        }
        9..=11 => {
            let mut es = vec![ty("container")];
            if rng.chance(1, 2) {
                es.push(("face".into(), gen_face_j(rng)));
            }
            if rng.chance(1, 2) {
                es.push(("vertical".into(), aligns(rng)));
            }
            if rng.chance(1, 2) {
                es.push(("horizontal".into(), aligns(rng)));
            }
            if rng.chance(1, 2) {
                let mut ms: Vec<(String, J)> = Vec::new();
                for k in ["left", "right", "top", "bottom"] {
                    if rng.chance(1, 2) {
                        ms.push((k.into(), gen_usize_j(rng)));
                    }
                }
                es.push(("margins".into(), if chaos(rng, 1, 10) { raw(rng, &JUNK) } else { J::Obj(ms) }));
            }
            if rng.chance(1, 2) {
                es.push(("size".into(), gen_size_j(rng)));
            }
            if !chaos(rng, 1, 12) {
                es.push(("child".into(), gen_view_j(rng, depth - 1)));
            }
            J::Obj(es)
        }
        12 => J::Obj(vec![ty("tag"), ("tag".into(), raw(rng, &JUNK)), ("view".into(), gen_view_j(rng, depth - 1))]),
        13 => J::Obj(vec![ty("trace-layout"), ("msg".into(), raw(rng, &JUNK)), ("view".into(), gen_view_j(rng, depth - 1))]),
        14 => J::Obj(vec![ty("tag"), ("view".into(), gen_view_j(rng, depth - 1))]),
        _ => raw(rng, &JUNK),
    }
}

/// arbitrary JSON, shallow
fn gen_any_j(rng: &mut Rng, depth: u32) -> J {
    match if depth == 0 { rng.below(3) } else { rng.below(6) } {
        0 | 1 => raw(rng, &JUNK),
        2 => J::Str(rng.pick(&TEXTS).to_string()),
        3 => J::Arr((0..rng.below(4)).map(|_| gen_any_j(rng, depth - 1)).collect()),
        _ => J::Obj(
            (0..rng.below(4))
                .map(|_| (rng.pick(&["type", "size", "data", "channels", "text", "path", "view", "children", "child", "face", "x"]).to_string(), gen_any_j(rng, depth - 1)))
                .collect(),
        ),
    }
}

/// edit a well-formed document somewhere: replace / drop / repeat a member
fn mutate_j(rng: &mut Rng, j: &mut J) {
    match j {
        J::Obj(es) if !es.is_empty() => {
            let i = rng.below(es.len() as u64) as usize;
            match rng.below(6) {
                0 => es[i].1 = gen_any_j(rng, 1),
                1 => {
                    es.remove(i);
                }
                2 => {
                    let d = es[i].clone();
                    es.push(d);
                }
                _ => mutate_j(rng, &mut es[i].1),
            }
        }
        J::Arr(xs) if !xs.is_empty() => {
            let i = rng.below(xs.len() as u64) as usize;
            match rng.below(5) {
                0 => xs[i] = gen_any_j(rng, 1),
                1 => {
                    xs.remove(i);
                }
                _ => mutate_j(rng, &mut xs[i]),
            }
        }
        other => *other = gen_any_j(rng, 1),
    }
}

/// nesting `depth` levels deep, as JSON text
fn gen_deep(rng: &mut Rng, depth: usize) -> (&'static str, String) {
    let leaf = r#"{"type":"text","text":"x"}"#;
    match rng.below(7) {
        0 => ("view", format!("{}{}{}", r#"{"type":"container","child":"#.repeat(depth), leaf, "}".repeat(depth))),
        1 => ("view", format!("{}{}{}", r#"{"type":"flex","children":["#.repeat(depth), leaf, "]}".repeat(depth))),
        2 => ("view", format!("{}{}{}", r#"{"type":"tag","tag":1,"view":"#.repeat(depth), leaf, "}".repeat(depth))),
        3 => ("text", format!("{}\"x\"{}", r#"{"text":"#.repeat(depth), "}".repeat(depth))),
        4 => ("text", format!("{}\"x\"{}", "[".repeat(depth), "]".repeat(depth))),
        5 => ("glyph", format!("{{\"scene\":{}{{\"type\":\"fill\",\"paint\":\"#ff0000\",\"path\":\"M0,0 h1 v1 z\"}}{}}}", r#"{"type":"opacity","opacity":1,"child":"#.repeat(depth), "}".repeat(depth))),
        _ => ("image", format!("{{\"size\":[1,1],\"channels\":4,\"data\":\"AQIDBA==\",\"x\":{}1{}}}", "[".repeat(depth), "]".repeat(depth))),
    }
}

/// one fuzz document: (kind, text). Kinds: image glyph text view, plus `vdeep:<what>:<depth>` = a value nested
/// deeper than the text parser allows, built in the child and handed over as `serde_json::Value`
fn gen_doc(rng: &mut Rng) -> (String, String) {
    let tidy = rng.chance(3, 5);
    CHAOS.store(!tidy, Ordering::Relaxed);
    let kind = *rng.pick(&["image", "image", "glyph", "glyph", "text", "text", "view", "view", "view", "view"]);
    match rng.below(20) {
        0 => {
            let depth = *rng.pick(&[10usize, 40, 60, 63, 64, 65, 100, 126, 127, 128, 129, 200, 400, 1000, 5000]);
            let (k, t) = gen_deep(rng, depth);
            (k.to_string(), t)
        }
        1 => {
            let depth = *rng.pick(&[50usize, 130, 200, 300]);
            (format!("vdeep:{}:{depth}", rng.pick(&["container", "flex", "tag", "text", "array"])), String::new())
        }
        2 => {
            let j = gen_any_j(rng, 3);
            (format!("{kind}{}", if j.has_repeated_key() { "+t" } else { "" }), j.text())
        }
        n => {
            let mut j = match kind {
                "image" => gen_image_j(rng),
                "glyph" => gen_glyph_j(rng),
                "text" => gen_text_j(rng, 4),
                _ => gen_view_j(rng, 4),
            };
            if n < 7 && !tidy {
                for _ in 0..1 + rng.below(2) {
                    mutate_j(rng, &mut j);
                }
            }
            let repeated = j.has_repeated_key();
            let mut t = j.text();
            if n == 7 && !tidy {
                // damaged syntax
                let cut = rng.below(t.len() as u64 + 1) as usize;
                if t.is_char_boundary(cut) {
                    t.truncate(cut);
                }
            }
            (format!("{kind}{}", if repeated { "+t" } else { "" }), t)
        }
    }
}

fn corner_docs(thorough: bool) -> Vec<(String, String)> {
    let v = |k: &str, t: &str| (k.to_string(), t.to_string());
    // nesting far beyond what the text parser admits, handed over as serde_json::Value.  Located limits (8 MB
    // stack, 4 GB address space): flex about 3300 levels (memory: every level copies its subtree), container / tag
    // about 4100, text about 10600 (stack); serde_json's own clone + drop of such a value overflows the stack at
    // about 7600 flex levels.  Tested bound: the depths below.
    let (dv, dt) = if thorough { (1000, 4000) } else { (600, 2000) };
    let mut deep = vec![
        v(&format!("vdeep:container:{dv}"), ""),
        v(&format!("vdeep:flex:{dv}"), ""),
        v(&format!("vdeep:tag:{dv}"), ""),
        v(&format!("vdeep:text:{dt}"), ""),
        v(&format!("vdeep:array:{dt}"), ""),
    ];
    let mut docs = vec![
        v("image", r#"{"size":[4294967296,4294967296],"channels":4,"data":""}"#),
        v("image", r#"{"size":[1099511627776,1],"channels":4,"data":"AAAA"}"#),
        v("image", r#"{"size":[1048576,1048576],"channels":1,"data":"AAAA"}"#),
        v("image", r#"{"size":[3,6148914691236517206],"channels":3,"data":"AQI="}"#),
        v("image", r#"{"size":[18446744073709551615,18446744073709551615],"data":""}"#),
        v("image+t", r#"{"size":[0,0],"data":"","data":"","size":[1,1],"channels":1,"data":"AA=="}"#),
        v("image", r#"{"channels":2,"size":[1,1],"data":"AAA="}"#),
        v("image", r#"{"size":[4294967296,0],"channels":1,"data":""}"#),
        v("image", r#"{"size":[9223372036854775808,0],"channels":1,"data":""}"#),
        v("image", r#"{"size":[18446744073709551615,0],"channels":1,"data":""}"#),
        v("image", r#"{"size":[2305843009213693952,0],"channels":4,"data":""}"#),
        v("image", r#"{"size":[2305843009213693952,0],"channels":3,"data":""}"#),
        v("image", r#"{"size":[0,18446744073709551615],"channels":1,"data":""}"#),
        v("view", r#"{"type":"image","size":[9223372036854775808,0],"channels":1,"data":""}"#),
        v("view", r#"{"type":"image","size":[4294967296,4294967296],"channels":4,"data":""}"#),
        v("view", r#"{"type":"image_ascii","size":[2,2],"channels":1,"data":"AQIDBA=="}"#),
        v("view", r#"{"type":"flex","children":[{"flex":3,"view":{"type":"text","text":"a"}},{"flex":-2,"view":{"type":"text","text":"b"}}]}"#),
        v("view", r#"{"type":"flex","children":[{"flex":1e308,"view":{"type":"text","text":"a"}},{"flex":1,"view":{"type":"text","text":"b"}}]}"#),
        v("view", r#"{"type":"flex","children":[{"flex":"NaN","view":{"type":"text","text":"a"}}]}"#),
        v("view", r#"{"type":"flex","children":[{"flex":0,"view":{"type":"text","text":"a"}},{"flex":5e-324,"view":{"type":"text","text":"b"}}]}"#),
        v("view", r#"{"type":"flex","justify":"space-around","children":[]}"#),
        v("view", r#"{"type":"container","margins":{"top":18446744073709551615,"left":18446744073709551615},"child":{"type":"text","text":"x"}}"#),
        v("view", r#"{"type":"container","size":[18446744073709551615,18446744073709551615],"child":{"type":"text","text":"x"}}"#),
        v("view", r#"{"type":"text","text":{"glyph":{"path":"M0,0 h1 v1 z","size":[18446744073709551615,2]}}}"#),
        v("view", r#"{"type":"text","text":{"glyph":{"path":"M0,0 h1 v1 z","size":[2,18446744073709551615],"fallback":"abcdefg"}}}"#),
        v("view", r#"{"type":"glyph","path":"M0,0 h1 v1 z","size":[9223372036854775808,9223372036854775808]}"#),
        v("view", r#"{"type":"glyph","path":"M0,0 h1 v1 z","size":[4294967296,4294967296]}"#),
        v("glyph", r#"{"path":"M0,0 h1 v1 z","size":[0,0],"view_box":[0,0,0,0]}"#),
        v("glyph", r#"{"path":"","view_box":[1e308,1e308,1e308,1e308],"frame":{"margin":[1e308,1e308,1e308,1e308],"border_width":[-1,-1,-1,-1]}}"#),
        v("text", r#"{"face":"fg=#ff0000/0.5,bold","text":["a",{"face":"bg=red","text":"b"}]}"#),
        v("text", r#"[[[["x"]]],{"text":5}]"#),
        v("view", "{\"type\":\"text\",\"text\":\"a\u{0}b\"}"),
        v("view", ""),
        v("view", "nul"),
        v("view+t", "{\"type\":\"text\",\"type\":\"flex\"}"),
        v("imgrt:0:0", ""),
        v("imgrt:0:18446744073709551615", ""),
        v("imgrt:4294967296:0", ""),
        v("imgrt:4611686018427387903:0", ""),
        v("imgrt:4611686018427387904:0", ""),
        v("imgrt:9223372036854775808:0", ""),
        v("imgrt:18446744073709551615:0", ""),
        v("image", r#"{"size":[4611686018427387904,0],"channels":4,"data":""}"#),
        v("vdeep:container:300", ""),
        v("vdeep:flex:300", ""),
        v("vdeep:text:300", ""),
    ];
    docs.append(&mut deep);
    docs
}

// ---------------------------------------------------------------------------------------------
// child: handle documents one by one, report after each

struct NullTerm {
    size: TerminalSize,
    caps: TerminalCaps,
}
impl std::io::Write for NullTerm {
    fn write(&mut self, buf: &[u8]) -> std::io::Result<usize> {
        Ok(buf.len())
    }
    fn flush(&mut self) -> std::io::Result<()> {
        Ok(())
    }
}
impl Terminal for NullTerm {
    fn execute(&mut self, _cmd: TerminalCommand) -> Result<(), Error> {
        Ok(())
    }
    fn poll(&mut self, _t: Option<std::time::Duration>) -> Result<Option<TerminalEvent>, Error> {
        Ok(None)
    }
    fn size(&self) -> Result<TerminalSize, Error> {
        Ok(self.size)
    }
    fn position(&mut self) -> Result<Position, Error> {
        Ok(Position::new(0, 0))
    }
    fn waker(&self) -> TerminalWaker {
        TerminalWaker::new(|| Ok(()))
    }
    fn frames_pending(&self) -> usize {
        0
    }
    fn frames_drop(&mut self) {}
    fn dyn_ref(&mut self) -> &mut dyn Terminal {
        self
    }
    fn capabilities(&self) -> &TerminalCaps {
        &self.caps
    }
}
fn make_ctx(glyphs: bool, ppc: (usize, usize)) -> ViewContext {
    let term = NullTerm {
        size: TerminalSize { cells: Size::new(10, 10), pixels: Size::new(ppc.0 * 10, ppc.1 * 10) },
        caps: TerminalCaps { glyphs, ..TerminalCaps::default() },
    };
    ViewContext::new(&term).expect("ctx")
}

/// lay the view out and render it into a small surface under a few constraints; errors are fine, panics are
/// what the caller watches for
fn layout_and_render(view: &dyn View) -> String {
    let ctxs = [make_ctx(true, (37, 15)), make_ctx(false, (20, 10)), make_ctx(true, (0, 0))];
    let cts = [
        BoxConstraint::loose(Size::new(6, 12)),
        BoxConstraint::tight(Size::new(3, 7)),
        BoxConstraint::loose(Size::new(0, 0)),
        BoxConstraint::new(Size::new(2, 2), Size::new(1000, 1000)),
        BoxConstraint::loose(Size::new(1, usize::MAX)),
        BoxConstraint::loose(Size::new(usize::MAX, usize::MAX)),
        BoxConstraint::tight(Size::new(1 << 33, 1 << 33)),
    ];
    let mut summary = String::new();
    for (ci, ctx) in ctxs.iter().enumerate() {
        for (ki, ct) in cts.iter().enumerate() {
            // the first context sees every constraint, the other two a small, a tight and the unbounded one
            if ci > 0 && !matches!(ki, 0 | 1 | 5) {
                continue;
            }
            let mut store = ViewLayoutStore::new();
            match view.layout_new(ctx, *ct, &mut store) {
                Err(_) => summary.push('l'),
                Ok(layout) => {
                    let mut surf: SurfaceOwned<Cell> = SurfaceOwned::new(Size::new(6, 12));
                    match view.render(ctx, surf.as_mut(), layout.view()) {
                        Ok(()) => summary.push('.'),
                        Err(_) => summary.push('r'),
                    }
                }
            }
        }
    }
    summary
}

fn nested_value(what: &str, depth: usize) -> (&'static str, Value) {
    let mut v = json!({"type": "text", "text": "x"});
    let mut kind = "view";
    for _ in 0..depth {
        v = match what {
            "container" => json!({"type": "container", "child": v}),
            "flex" => json!({"type": "flex", "children": [v]}),
            "tag" => json!({"type": "tag", "tag": 1, "view": v}),
            "text" => {
                kind = "text";
                json!({"text": v})
            }
            _ => {
                kind = "text";
                json!([v])
            }
        };
    }
    if kind == "text" && what == "text" {
        // innermost must be text-like, not a view map with a "type"
    }
    (kind, v)
}

/// the whole treatment of one document; returns "ok:<summary>" or "err"
fn handle_doc(kind: &str, text: &str) -> String {
    let colors: HashMap<String, RGBA> = color_table();
    if let Some(rest) = kind.strip_prefix("imgrt:") {
        // round trip of an image without pixels but with a (possibly huge) extent
        let mut p = rest.split(':');
        let h: usize = p.next().and_then(|d| d.parse().ok()).unwrap_or(0);
        let w: usize = p.next().and_then(|d| d.parse().ok()).unwrap_or(0);
        let img = Image::from_parts(std::sync::Arc::from(Vec::<RGBA>::new()), Shape::from(Size::new(h, w)));
        let js = serde_json::to_string(&img).expect("serialise");
        return match serde_json::from_str::<Image>(&js) {
            Ok(b) if (b.shape().height, b.shape().width) == (h, w) => "ok:rt".to_string(),
            Ok(b) => panic!("round trip changed the size: {:?} -> {js} -> {:?}", img.size(), b.size()),
            Err(e) => panic!("round trip failed: {:?} -> {js} -> {e}", img.size()),
        };
    }
    if let Some(rest) = kind.strip_prefix("vbase:") {
        // baseline for the nesting bound: only build, clone and drop the nested value (serde_json's own recursion)
        let mut p = rest.split(':');
        let what = p.next().unwrap_or("container");
        let depth: usize = p.next().and_then(|d| d.parse().ok()).unwrap_or(100);
        let (_, v) = nested_value(what, depth);
        let c = v.clone();
        drop(v);
        drop(c);
        return "ok:base".to_string();
    }
    if let Some(rest) = kind.strip_prefix("vdeep:") {
        let mut p = rest.split(':');
        let what = p.next().unwrap_or("container");
        let depth: usize = p.next().and_then(|d| d.parse().ok()).unwrap_or(100);
        let (k, v) = nested_value(what, depth);
        let r = if k == "view" {
            let de = ViewDeserializer::new(Some(&colors), None);
            match (&de).deserialize(&v) {
                Ok(view) => format!("ok:{}", layout_and_render(&view)),
                Err(_) => "err".to_string(),
            }
        } else {
            match Text::deserialize(&v) {
                Ok(t) => format!("ok:{}", layout_and_render(&t)),
                Err(_) => "err".to_string(),
            }
        };
        // dropping a deep value recurses too; keep it inside the guarded region
        drop(v);
        return r;
    }
    // half of the time through the text parser directly, otherwise via serde_json::Value (collapses repeated keys)
    // documents that repeat a key (kind suffix `+t`) always take the text path
    let (kind, force_text) = match kind.strip_suffix("+t") {
        Some(k) => (k, true),
        None => (kind, false),
    };
    let via_value = !force_text && text.len() % 2 == 1;
    macro_rules! de {
        ($t:ty) => {{
            if via_value {
                match serde_json::from_str::<Value>(text) {
                    Ok(v) => serde_json::from_value::<$t>(v).map_err(|_| ()),
                    Err(_) => Err(()),
                }
            } else {
                serde_json::from_str::<$t>(text).map_err(|_| ())
            }
        }};
    }
    match kind {
        "image" => match de!(Image) {
            Ok(img) => format!("ok:{}", layout_and_render(&img)),
            Err(()) => "err".to_string(),
        },
        "glyph" => match de!(Glyph) {
            Ok(g) => format!("ok:{}", layout_and_render(&g)),
            Err(()) => "err".to_string(),
        },
        "text" => match de!(Text) {
            Ok(t) => format!("ok:{}", layout_and_render(&t)),
            Err(()) => "err".to_string(),
        },
        _ => {
            let de = ViewDeserializer::new(if via_value { None } else { Some(&colors) }, None);
            let mut jd = serde_json::Deserializer::from_str(text);
            match (&de).deserialize(&mut jd) {
                Ok(view) => format!("ok:{}", layout_and_render(&view)),
                Err(_) => "err".to_string(),
            }
        }
    }
}

static LAST_PANIC: std::sync::Mutex<String> = std::sync::Mutex::new(String::new());

/// `c19 batch <in> <out>`: `in` = one JSON array [kind, text] per line; `out` gets one line per document,
/// flushed at once: `ok:<summary> <max alloc>` | `err <max alloc>` | `panic <message>`
fn batch_main(input: &str, output: &str) {
    std::panic::set_hook(Box::new(|info| {
        if let Ok(mut m) = LAST_PANIC.lock() {
            *m = info.to_string().replace('\n', " ");
        }
    }));
    unsafe {
        // a runaway allocation must fail (and abort) rather than take the machine down
        let lim = libc::rlimit { rlim_cur: 4 << 30, rlim_max: 4 << 30 };
        libc::setrlimit(libc::RLIMIT_AS, &lim);
    }
    let per_doc_secs: u32 = std::env::var("C19_DOC_SECS").ok().and_then(|s| s.parse().ok()).unwrap_or(10);
    let docs = std::fs::read_to_string(input).expect("batch input");
    let mut out = std::fs::File::create(output).expect("batch output");
    for line in docs.lines() {
        let v: Value = serde_json::from_str(line).expect("batch line");
        let (kind, text) = (v[0].as_str().unwrap_or(""), v[1].as_str().unwrap_or(""));
        // CPU-time limit (a busy machine must not look like a hang) with a generous wall-clock backstop
        let arm = |secs: u32| unsafe {
            let tv = libc::itimerval {
                it_interval: libc::timeval { tv_sec: 0, tv_usec: 0 },
                it_value: libc::timeval { tv_sec: secs as libc::time_t, tv_usec: 0 },
            };
            libc::setitimer(libc::ITIMER_PROF, &tv, std::ptr::null_mut());
            libc::alarm(if secs == 0 { 0 } else { secs * 12 });
        };
        arm(per_doc_secs);
        MAX_REQ.store(0, Ordering::Relaxed);
        let r = guarded(|| handle_doc(kind, text));
        let max_req = MAX_REQ.load(Ordering::Relaxed);
        arm(0);
        let line = match r {
            Ok(s) => format!("{s} {max_req}"),
            Err(()) => format!("panic {}", LAST_PANIC.lock().map(|m| m.clone()).unwrap_or_default()),
        };
        writeln!(out, "{line}").unwrap();
        out.flush().unwrap();
    }
}

// ---------------------------------------------------------------------------------------------
// parent: run documents in child processes, find the single document behind an abnormal exit

#[derive(Debug)]
enum DocRes {
    Done(String),            // the child's line
    Killed(String),          // exit status description
}

fn run_children(workdir: &std::path::Path, docs: &[(String, String)], doc_secs: u32) -> Vec<DocRes> {
    // the running image itself, even if the file on disk has been replaced by a rebuild meanwhile
    let exe = std::path::PathBuf::from("/proc/self/exe");
    let mut results: Vec<DocRes> = Vec::with_capacity(docs.len());
    let mut start = 0usize;
    let mut round = 0;
    let mut kills = 0;
    while start < docs.len() && kills < 8 {
        round += 1;
        let end = (start + 2500).min(docs.len());
        let inp = workdir.join(format!("batch-{round}.in"));
        let outp = workdir.join(format!("batch-{round}.out"));
        {
            let mut f = std::io::BufWriter::new(std::fs::File::create(&inp).unwrap());
            for (k, t) in &docs[start..end] {
                writeln!(f, "{}", serde_json::to_string(&json!([k, t])).unwrap()).unwrap();
            }
        }
        let _ = std::fs::remove_file(&outp);
        let status = std::process::Command::new(&exe)
            .arg("batch")
            .arg(&inp)
            .arg(&outp)
            .env("C19_DOC_SECS", doc_secs.to_string())
            .stdin(std::process::Stdio::null())
            .stdout(std::process::Stdio::null())
            .stderr(std::process::Stdio::null())
            .status();
        let lines: Vec<String> = std::fs::read_to_string(&outp).unwrap_or_default().lines().map(|l| l.to_string()).collect();
        let n = lines.len().min(end - start);
        for l in lines.into_iter().take(n) {
            results.push(DocRes::Done(l));
        }
        let clean = matches!(&status, Ok(s) if s.success());
        if start + n < end {
            // the child died while handling document start+n
            let how = match &status {
                Ok(s) => {
                    use std::os::unix::process::ExitStatusExt;
                    match s.signal() {
                        Some(27) => format!("no answer within {doc_secs} s of CPU time (SIGPROF)"),
                        Some(14) => format!("no answer within {} s (SIGALRM)", doc_secs * 12),
                        Some(sig) => format!("killed by signal {sig}"),
                        None => format!("exit status {:?}", s.code()),
                    }
                }
                Err(e) => {
                    // infrastructure, not the implementation: give up loudly rather than blame a document
                    eprintln!("c19: cannot start the child process: {e}");
                    std::process::exit(3);
                }
            };
            results.push(DocRes::Killed(how));
            kills += 1;
            start += n + 1;
        } else {
            if !clean {
                // all documents answered but the process still failed: nothing to attribute
            }
            start = end;
        }
        let _ = std::fs::remove_file(&inp);
        let _ = std::fs::remove_file(&outp);
    }
    results
}

fn judge_docs(ctx: &mut Ctx, workdir: &std::path::Path, docs: &[(String, String)], doc_secs: u32) {
    let results = run_children(workdir, docs, doc_secs);
    for ((kind, text), res) in docs.iter().zip(results.iter()) {
        let input = json!({"kind": "doc", "doc_kind": kind, "doc": text});
        let base = kind.split([':', '+']).next().unwrap_or("").to_string();
        // a child that died in a batch is blamed on the document only if it dies on the document alone too
        let alone;
        let res = match res {
            DocRes::Killed(how) => {
                alone = run_children(workdir, &[(kind.clone(), text.clone())], doc_secs);
                match alone.first() {
                    Some(DocRes::Killed(how2)) => {
                        ctx.out.fail(
                            "deserialisation does not return: the process aborts, is killed or hangs",
                            input,
                            json!("Ok or Err"),
                            json!(format!("in a batch: {how}; alone: {how2}")),
                        );
                        ctx.out.hist(&format!("doc:{base}:abnormal-exit"));
                        ctx.out.case(&format!("doc {kind} {text}"), true);
                        continue;
                    }
                    Some(done) => {
                        ctx.inconclusive_kills += 1;
                        ctx.out.hist("doc:killed-in-batch-but-answers-alone(inconclusive)");
                        done
                    }
                    None => continue,
                }
            }
            done => done,
        };
        let DocRes::Done(line) = res else { continue };
        let mut parts = line.splitn(2, ' ');
        let head = parts.next().unwrap_or("");
        let tail = parts.next().unwrap_or("");
        if head == "panic" && base == "imgrt" {
            ctx.out.fail("Image without pixels does not survive the round trip", input, json!("the same size back"), json!(tail));
            ctx.out.hist("doc:imgrt:failed");
        } else if head == "panic" {
            ctx.out.fail("deserialisation (or layout / rendering of the deserialised value) panics", input, json!("Ok or Err"), json!(format!("panic: {tail}")));
            ctx.out.hist(&format!("doc:{base}:panic"));
        } else {
            let max_req: usize = tail.parse().unwrap_or(0);
            if max_req > ALLOC_CAP {
                // property-relevant only when the allocation follows a declared size instead of the data present:
                // the document was rejected anyway, or what was allocated is out of proportion to its own length
                if head == "err" || !alloc_backed(max_req, text.len()) {
                    ctx.out.fail(
                        "deserialisation allocates in proportion to a declared size that the document's data does not back",
                        input.clone(),
                        json!(format!("<= {ALLOC_CAP} bytes, or proportional to the {} bytes of the document", text.len())),
                        json!(max_req),
                    );
                } else {
                    ctx.large_allocations += 1;
                }
            }
            let ok = head.starts_with("ok");
            let summary = head.strip_prefix("ok:").unwrap_or("");
            if ok && base != "imgrt" && (summary.contains('l') || summary.contains('r')) {
                // reading of "can be laid out and rendered": layout and render return Ok, not only "do not panic"
                ctx.layout_errors += 1;
                ctx.out.fail(
                    "a value that deserialises successfully returns an error from layout or render",
                    input.clone(),
                    json!("Ok from layout and render under every context and constraint"),
                    json!(format!("{summary} (l = layout error, r = render error, . = ok; order: 7 constraints with glyphs, 3 without, 3 with zero pixels per cell)")),
                );
                ctx.out.hist(&format!("doc:{base}:layout-or-render-error"));
            }
            ctx.out.hist(&format!("doc:{base}:{}", if ok { "deserialised+rendered" } else { "rejected" }));
            if ok && ctx.out.evaluations % 1499 == 0 {
                ctx.out.sample(json!({"kind": "doc", "doc_kind": kind, "doc": text.chars().take(300).collect::<String>(), "result": head}));
            }
        }
        ctx.out.case(&format!("doc {kind} {text}"), head.starts_with("ok"));
    }
}
