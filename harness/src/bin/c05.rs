//! C05: `TTYEncoder::encode` for every command × colour depth × keyboard capability.
//! Single commands (fresh encoder each):
//!   correspondence `c05 encode …` — the Lean model of the encoder must produce the same bytes;
//!   oracle `c05 check …` — the verified Lean reference VT/xterm interpreter must read the
//!   implementation's bytes as exactly the specified meaning of the command (independent of spelling).
//! Streams (ONE `TTYEncoder` reused for all commands of a stream, some calls writing to a writer that
//! fails after k bytes):
//!   correspondence `c05 stream …` — the stateful Lean model (chunk buffer kept across calls, cleared
//!   where the code clears it) must produce the same bytes and the same Ok/Err per call;
//!   oracle `c05 scheck …` — the interpreter must read the concatenated output of the successful
//!   calls as exactly the concatenation of the commands' meanings (theorem C05_stream).
//! Rust-side oracles: no panic / no error on an infallible writer; in 256-colour mode every selected
//! palette index lies in 16..=255 (cube and grey ramp, C20).
//! Sinks: `Vec`; a sink failing after k bytes (`Limited`); short-writing and `Interrupted`-reporting sinks
//! (`Choppy`), chosen by position in the stream — the bytes that ARRIVE are judged.
//! `VERIF_REPLAY`: only the recorded command / stream is re-run, through the real encoder and both lines.
//!
//! INDEPENDENCE OF THE EXPECTATION. Every command is generated as RAW pieces (`Spec`: underline style
//! index 0..5, five flag booleans, colour bytes, DEC mode as an index into the harness' own table of
//! xterm mode numbers, positions / counts as plain integers). The crate value is built from the pieces
//! through the public constructors (`Spec::build`), and the request for the Lean model is written from
//! the SAME raw pieces (`Spec::tok`) — never by reading the crate value back through the crate's own
//! accessors or conversions (`FaceAttrs::underline()` / `contains()`, `mode as usize`, `Position`
//! fields …): an expectation that goes through them inherits their defects.
use serde_json::{Value, json};
use std::collections::HashSet;
use std::io::Write;
use surf_n_term::{
    Face, FaceAttrs, FaceModify, Position, RGBA, UnderlineStyle,
    encoder::{ColorDepth, Encoder, TTYEncoder},
    terminal::{DecMode, TerminalCaps, TerminalColor, TerminalCommand},
};
use verif_harness::{Cfg, r#gen::Rng, guarded, out::Out, out::hex};


/// DEC private modes of the crate with their numbers, written here from the documentation and NOT taken
/// from the crate (`mode as usize` is what the encoder itself uses):
/// xterm ctlseqs "DEC Private Mode Set (DECSET)": 7 = Auto-Wrap Mode (DECAWM), 25 = Show cursor
/// (DECTCEM), 80 = Sixel Display Mode / sixel scrolling (DECSDM), 1000 = Send Mouse X & Y on button
/// press and release, 1003 = Use All Motion Mouse Tracking, 1006 = Enable SGR Mouse Mode, 1049 = Save
/// cursor and use Alternate Screen Buffer, 2004 = Set bracketed paste mode; 2026 = synchronized output
/// (terminal-wg / contour specification, adopted by kitty, foot, wezterm, iTerm2 …).
const MODES: [(DecMode, usize); 9] = [
    (DecMode::VisibleCursor, 25),
    (DecMode::AutoWrap, 7),
    (DecMode::SixelScrolling, 80),
    (DecMode::MouseReport, 1000),
    (DecMode::MouseMotions, 1003),
    (DecMode::MouseSGR, 1006),
    (DecMode::AltScreen, 1049),
    (DecMode::SynchronizedOutput, 2026),
    (DecMode::BracketedPaste, 2004),
];
const ALT_SCREEN: usize = 6;
/// exhaustive on purpose: a variant added to `DecMode` makes the harness fail to compile until the table
/// above gets its documented number
#[allow(dead_code)]
fn modes_table_is_complete(m: DecMode) -> usize {
    let i = match m {
        DecMode::VisibleCursor => 0,
        DecMode::AutoWrap => 1,
        DecMode::SixelScrolling => 2,
        DecMode::MouseReport => 3,
        DecMode::MouseMotions => 4,
        DecMode::MouseSGR => 5,
        DecMode::AltScreen => 6,
        DecMode::SynchronizedOutput => 7,
        DecMode::BracketedPaste => 8,
    };
    MODES[i].1
}

fn enc(caps: TerminalCaps, cmd: TerminalCommand) -> Result<Vec<u8>, ()> {
    guarded(|| {
        let mut out = Vec::new();
        let mut e = TTYEncoder::new(caps);
        e.encode(&mut out, cmd).map(|_| out)
    })
    .and_then(|r| r.map_err(|_| ()))
}

/// An `io::Write` that accepts `room` bytes and then fails (`None`: never fails).
struct Limited {
    out: Vec<u8>,
    room: Option<usize>,
}
impl Write for Limited {
    fn write(&mut self, buf: &[u8]) -> std::io::Result<usize> {
        match self.room {
            None => {
                self.out.extend_from_slice(buf);
                Ok(buf.len())
            }
            Some(0) if !buf.is_empty() => Err(std::io::Error::other("writer is full")),
            Some(k) => {
                let n = k.min(buf.len());
                self.out.extend_from_slice(&buf[..n]);
                self.room = Some(k - n);
                Ok(n)
            }
        }
    }
    fn flush(&mut self) -> std::io::Result<()> {
        Ok(())
    }
}

/// The sink of a call that must succeed, chosen deterministically from the position in the stream (so a
/// replay drives the same sinks): a plain `Vec`-like sink, a SHORT-WRITING sink (accepts at most `max`
/// bytes per `write` call — `write_all` / `write!` have to loop), or a sink that additionally answers
/// every other call with `ErrorKind::Interrupted` (which `write_all` has to retry). All bytes must arrive.
struct Choppy {
    out: Vec<u8>,
    max: usize,
    interrupt: bool,
    calls: usize,
}
impl Choppy {
    fn for_index(i: usize, n: usize) -> Choppy {
        match (i + n) % 4 {
            2 => Choppy { out: Vec::new(), max: 1 + i % 3, interrupt: false, calls: 0 },
            3 => Choppy { out: Vec::new(), max: 1 + i % 5, interrupt: true, calls: 0 },
            _ => Choppy { out: Vec::new(), max: usize::MAX, interrupt: false, calls: 0 },
        }
    }
}
impl Write for Choppy {
    fn write(&mut self, buf: &[u8]) -> std::io::Result<usize> {
        self.calls += 1;
        if self.interrupt && self.calls % 2 == 1 {
            return Err(std::io::Error::from(std::io::ErrorKind::Interrupted));
        }
        let n = self.max.min(buf.len());
        self.out.extend_from_slice(&buf[..n]);
        Ok(n)
    }
    fn flush(&mut self) -> std::io::Result<()> {
        Ok(())
    }
}

/// Parameters of every SGR sequence (`CSI … m`) in `bytes`: per sequence the `;`-separated
/// parameters, each with its `:`-separated sub-parameters (`None` = empty / not a number).
/// Tolerant of spelling: it does not assume any order or form of the parameters.
fn sgr_params(bytes: &[u8]) -> Vec<Vec<Vec<Option<u64>>>> {
    let mut res = Vec::new();
    let mut i = 0;
    while i + 1 < bytes.len() {
        if bytes[i] == 0x1b && bytes[i + 1] == b'[' {
            let mut j = i + 2;
            while j < bytes.len() && (0x30..0x40).contains(&bytes[j]) {
                j += 1;
            }
            if j < bytes.len() && bytes[j] == b'm' {
                let body = &bytes[i + 2..j];
                res.push(
                    body.split(|b| *b == b';')
                        .map(|p| {
                            p.split(|b| *b == b':')
                                .map(|d| std::str::from_utf8(d).ok().and_then(|d| d.parse::<u64>().ok()))
                                .collect()
                        })
                        .collect(),
                );
            }
            i = j.max(i + 2);
        } else {
            i += 1;
        }
    }
    res
}

/// Indexed-colour selections `38|48|58 ; 5 ; N` (semicolon form) and `38|48|58 : 5 : N` (colon form)
/// in one SGR parameter list: (role code, N).
fn indexed_selections(params: &[Vec<Option<u64>>]) -> Vec<(u64, u64)> {
    let mut res = Vec::new();
    let mut i = 0;
    while i < params.len() {
        let p = &params[i];
        let role = p.first().copied().flatten();
        if let Some(role) = role.filter(|r| [38, 48, 58].contains(r)) {
            if p.len() >= 3 && p[1] == Some(5) {
                if let Some(n) = p[2] {
                    res.push((role, n));
                }
            } else if p.len() == 1 && i + 2 < params.len() && params[i + 1] == vec![Some(5)] {
                if let Some(Some(n)) = params[i + 2].first() {
                    res.push((role, *n));
                }
                i += 2;
            } else if p.len() == 1 && i + 4 < params.len() && params[i + 1] == vec![Some(2)] {
                i += 4;
            }
        }
        i += 1;
    }
    res
}

/// palette index / grey level the implementation selects for a colour (C20 decides whether they
/// are the right ones; here they are inputs of the model). Read from a single-colour `Face` encode
/// by parsing the SGR parameter list, whatever its spelling.
fn reductions(c: RGBA) -> (usize, usize) {
    let face = Face::new(Some(c), None, FaceAttrs::EMPTY);
    let caps8 = TerminalCaps { depth: ColorDepth::EightBit, glyphs: false, kitty_keyboard: false };
    let capsg = TerminalCaps { depth: ColorDepth::Gray, glyphs: false, kitty_keyboard: false };
    let pal = enc(caps8, TerminalCommand::Face(face))
        .ok()
        .and_then(|b| {
            let sgr = sgr_params(&b);
            let sel: Vec<(u64, u64)> = sgr.iter().flat_map(|p| indexed_selections(p)).collect();
            sel.iter().find(|(role, _)| *role == 38).map(|(_, n)| *n as usize)
        })
        .unwrap_or(999);
    let lvl = enc(capsg, TerminalCommand::Face(face))
        .ok()
        .and_then(|b| {
            let sgr = sgr_params(&b);
            sgr.iter().flatten().find_map(|p| match p.as_slice() {
                [Some(30)] => Some(0),
                [Some(90)] => Some(1),
                [Some(37)] => Some(2),
                [Some(97)] => Some(3),
                _ => None,
            })
        })
        .unwrap_or(9);
    (pal, lvl)
}

type Rgba = [u8; 4];

fn color_tok(c: Option<Rgba>) -> String {
    match c {
        None => "-".to_string(),
        Some([r, g, b, a]) => {
            let (pal, lvl) = reductions(RGBA::new(r, g, b, a));
            format!("{r},{g},{b},{a},{pal},{lvl}")
        }
    }
}
fn rgba(c: Option<Rgba>) -> Option<RGBA> {
    c.map(|[r, g, b, a]| RGBA::new(r, g, b, a))
}

fn tri(v: Option<bool>) -> &'static str {
    match v {
        None => "-",
        Some(true) => "1",
        Some(false) => "0",
    }
}
fn bit(v: bool) -> &'static str {
    if v { "1" } else { "0" }
}
/// underline styles by the number the model uses (0 none, 1 straight, 2 double, 3 curly, 4 dotted,
/// 5 dashed = the `4:x` sub-parameter of xterm / kitty)
const UNDERS: [UnderlineStyle; 6] = [
    UnderlineStyle::None,
    UnderlineStyle::Straight,
    UnderlineStyle::Double,
    UnderlineStyle::Curly,
    UnderlineStyle::Dotted,
    UnderlineStyle::Dashed,
];
/// flags in the order bold, italic, blink, reverse, strike
const FLAGS: [FaceAttrs; 5] = [FaceAttrs::BOLD, FaceAttrs::ITALIC, FaceAttrs::BLINK, FaceAttrs::REVERSE, FaceAttrs::STRIKE];

#[derive(Clone, Debug, PartialEq)]
enum ColorName {
    Bg,
    Fg,
    Pal(usize),
}

/// a command as raw pieces
#[derive(Clone, Debug, PartialEq)]
enum Spec {
    Char(char),
    Face { fg: Option<Rgba>, bg: Option<Rgba>, under: usize, flags: [bool; 5] },
    /// `tri` = bold, italic, blink, strike
    Modify { reset: bool, fg: Option<Rgba>, bg: Option<Rgba>, underline: Option<usize>, ulc: Option<Rgba>, tri: [Option<bool>; 4] },
    FaceGet,
    /// index into `MODES`
    ModeSet(bool, usize),
    ModeGet(usize),
    CursorGet,
    CursorTo(usize, usize),
    CursorMove(i32, i32),
    CursorSave,
    CursorRestore,
    EraseLineLeft,
    EraseLineRight,
    EraseLine,
    EraseScreen,
    EraseChars(usize),
    Scroll(i32),
    ScrollRegion(usize, usize),
    Reset,
    Termcap(Vec<String>),
    Color(ColorName, Option<Rgba>),
    Title(String),
    DeviceAttrs,
    KeyboardLevel(usize),
}

impl Spec {
    /// request text for the Lean side (parsed there into `SurfModel.Vt.Cmd`), from the raw pieces only
    fn tok(&self) -> String {
        use Spec::*;
        match self {
            Char(c) => format!("char {}", *c as u32),
            Face { fg, bg, under, flags } => format!(
                "face {} {} {} {} {} {} {} {}",
                color_tok(*fg),
                color_tok(*bg),
                under,
                bit(flags[0]),
                bit(flags[1]),
                bit(flags[2]),
                bit(flags[3]),
                bit(flags[4])
            ),
            Modify { reset, fg, bg, underline, ulc, tri: t } => format!(
                "faceModify {} {} {} {} {} {} {} {} {}",
                bit(*reset),
                color_tok(*fg),
                color_tok(*bg),
                underline.map(|u| u.to_string()).unwrap_or("-".into()),
                color_tok(*ulc),
                tri(t[0]),
                tri(t[1]),
                tri(t[2]),
                tri(t[3])
            ),
            FaceGet => "faceGet".into(),
            ModeSet(enable, m) => format!("decModeSet {} {}", bit(*enable), MODES[*m].1),
            ModeGet(m) => format!("decModeGet {}", MODES[*m].1),
            CursorGet => "cursorGet".into(),
            CursorTo(r, c) => format!("cursorTo {r} {c}"),
            CursorMove(r, c) => format!("cursorMove {r} {c}"),
            CursorSave => "cursorSave".into(),
            CursorRestore => "cursorRestore".into(),
            EraseLineLeft => "eraseLineLeft".into(),
            EraseLineRight => "eraseLineRight".into(),
            EraseLine => "eraseLine".into(),
            EraseScreen => "eraseScreen".into(),
            EraseChars(n) => format!("eraseChars {n}"),
            Scroll(n) => format!("scroll {n}"),
            ScrollRegion(s, e) => format!("scrollRegion {s} {e}"),
            Reset => "reset".into(),
            Termcap(names) => format!(
                "termcap {}",
                if names.is_empty() {
                    "-".to_string()
                } else {
                    names.iter().map(|n| hex(n.as_bytes())).collect::<Vec<_>>().join(",")
                }
            ),
            Color(name, c) => format!(
                "color {} {}",
                match name {
                    ColorName::Bg => "bg".to_string(),
                    ColorName::Fg => "fg".to_string(),
                    ColorName::Pal(i) => i.to_string(),
                },
                color_tok(*c)
            ),
            Title(t) => format!("title {}", hex(t.as_bytes())),
            DeviceAttrs => "deviceAttrs".into(),
            KeyboardLevel(n) => format!("keyboardLevel {n}"),
        }
    }

    /// the crate's command, through its public constructors only
    fn build(&self) -> TerminalCommand {
        use TerminalCommand as T;
        match self {
            Spec::Char(c) => T::Char(*c),
            Spec::Face { fg, bg, under, flags } => {
                let mut attrs: FaceAttrs = UNDERS[*under].into();
                for (on, flag) in flags.iter().zip(FLAGS) {
                    if *on {
                        attrs = attrs | flag;
                    }
                }
                T::Face(Face::new(rgba(*fg), rgba(*bg), attrs))
            }
            Spec::Modify { reset, fg, bg, underline, ulc, tri } => T::FaceModify(FaceModify {
                reset: *reset,
                fg: rgba(*fg),
                bg: rgba(*bg),
                underline: underline.map(|u| UNDERS[u]),
                underline_color: rgba(*ulc),
                bold: tri[0],
                italic: tri[1],
                blink: tri[2],
                strike: tri[3],
            }),
            Spec::FaceGet => T::FaceGet,
            Spec::ModeSet(enable, m) => T::DecModeSet { enable: *enable, mode: MODES[*m].0 },
            Spec::ModeGet(m) => T::DecModeGet(MODES[*m].0),
            Spec::CursorGet => T::CursorGet,
            Spec::CursorTo(r, c) => T::CursorTo(Position::new(*r, *c)),
            Spec::CursorMove(r, c) => T::CursorMove { row: *r, col: *c },
            Spec::CursorSave => T::CursorSave,
            Spec::CursorRestore => T::CursorRestore,
            Spec::EraseLineLeft => T::EraseLineLeft,
            Spec::EraseLineRight => T::EraseLineRight,
            Spec::EraseLine => T::EraseLine,
            Spec::EraseScreen => T::EraseScreen,
            Spec::EraseChars(n) => T::EraseChars(*n),
            Spec::Scroll(n) => T::Scroll(*n),
            Spec::ScrollRegion(s, e) => T::ScrollRegion { start: *s, end: *e },
            Spec::Reset => T::Reset,
            Spec::Termcap(names) => T::Termcap(names.clone()),
            Spec::Color(name, c) => T::Color {
                name: match name {
                    ColorName::Bg => TerminalColor::Background,
                    ColorName::Fg => TerminalColor::Foreground,
                    ColorName::Pal(i) => TerminalColor::Palette(*i),
                },
                color: rgba(*c),
            },
            Spec::Title(t) => T::Title(t.clone()),
            Spec::DeviceAttrs => T::DeviceAttrs,
            Spec::KeyboardLevel(n) => T::KeyboardLevel(*n),
        }
    }

    /// domain of the property theorems (`Valid`): at least one capability name (an empty XTGETTCAP
    /// request is read by xterm as a request for the empty name); opaque colours in OSC colour commands
    fn in_domain(&self) -> bool {
        match self {
            Spec::Termcap(names) => !names.is_empty(),
            Spec::Color(_, Some(c)) => c[3] == 255,
            _ => true,
        }
    }

    fn face_none() -> Spec {
        Spec::Face { fg: None, bg: None, under: 0, flags: [false; 5] }
    }
    fn modify_none() -> Spec {
        Spec::Modify { reset: false, fg: None, bg: None, underline: None, ulc: None, tri: [None; 4] }
    }
}

/// one call: writer room, raw command, its request text and the crate value
#[derive(Clone)]
struct Item {
    room: Option<usize>,
    spec: Spec,
    tok: String,
    cmd: TerminalCommand,
}
impl Item {
    fn new(room: Option<usize>, spec: Spec) -> Item {
        let tok = spec.tok();
        let cmd = spec.build();
        Item { room, spec, tok, cmd }
    }
}

fn rnd_color(rng: &mut Rng) -> Rgba {
    let edge = [0u8, 1, 8, 47, 95, 128, 135, 254, 255];
    let ch = |rng: &mut Rng| if rng.chance(1, 3) { *rng.pick(&edge) } else { rng.below(256) as u8 };
    // alpha: mostly opaque; translucent and transparent colours are legal `Face` colours (the
    // encoder discards alpha in true colour and reduces the premultiplied colour otherwise)
    let a = match rng.below(5) {
        0 => *rng.pick(&[0u8, 1, 127, 128, 254]),
        1 => rng.below(256) as u8,
        _ => 255,
    };
    [ch(rng), ch(rng), ch(rng), a]
}
fn opt_color(rng: &mut Rng) -> Option<Rgba> {
    if rng.chance(1, 3) { None } else { Some(rnd_color(rng)) }
}
/// colour of an OSC colour command: opaque (a translucent colour prints as `#rrggbbaa`, which is
/// outside the domain `Valid` of the property theorem: xterm's colour syntax has no alpha)
fn opt_opaque(rng: &mut Rng) -> Option<Rgba> {
    opt_color(rng).map(|[r, g, b, _]| [r, g, b, 255])
}
fn rnd_usize(rng: &mut Rng) -> usize {
    match rng.below(6) {
        0 => rng.below(4) as usize,
        1 => rng.below(300) as usize,
        2 => 65535 - rng.below(3) as usize,
        3 => usize::MAX - rng.below(3) as usize,
        4 => (1usize << rng.below(64)) - rng.below(2) as usize,
        _ => rng.next() as usize,
    }
}
fn rnd_i32(rng: &mut Rng) -> i32 {
    match rng.below(6) {
        0 => 0,
        1 => rng.range(-5, 5) as i32,
        2 => i32::MIN + rng.below(2) as i32,
        3 => i32::MAX - rng.below(2) as i32,
        4 => rng.range(-100000, 100000) as i32,
        _ => rng.next() as i32,
    }
}
fn rnd_char(rng: &mut Rng) -> char {
    loop {
        let cp = match rng.below(6) {
            0 => rng.range(0x20, 0x7e) as u32,
            1 => rng.range(0xa0, 0x7ff) as u32,
            2 => rng.range(0x800, 0xffff) as u32,
            3 => rng.range(0x10000, 0x10ffff) as u32,
            4 => *rng.pick(&[0x20u32, 0x7e, 0xa0, 0x7ff, 0x800, 0xd7ff, 0xe000, 0xffff, 0x10000, 0x10ffff]),
            _ => rng.below(0x110000) as u32,
        };
        if (0x7f..0xa0).contains(&cp) || cp < 0x20 {
            continue;
        }
        if let Some(c) = char::from_u32(cp) {
            return c;
        }
    }
}
/// title: a small pool of characters that matter to a parser (`;`, `:`, `[`, `\`, `m`, NBSP, ÿ …) or
/// any printable scalar values, up to 200 characters
fn rnd_title(rng: &mut Rng) -> String {
    let pool: Vec<char> = "ab Z9;:[]\\m~é€𝄞漢\u{a0}\u{ff}".chars().collect();
    match rng.below(4) {
        0 => (0..rng.below(12)).map(|_| *rng.pick(&pool)).collect(),
        1 => (0..rng.below(12)).map(|_| rnd_char(rng)).collect(),
        2 => (0..rng.below(201)).map(|_| rnd_char(rng)).collect(),
        _ => (0..rng.below(201)).map(|_| if rng.chance(1, 4) { *rng.pick(&pool) } else { rng.range(0x20, 0x7e) as u8 as char }).collect(),
    }
}
/// capability name: non-empty printable ASCII (0x20..=0x7e; bytes below 0x10, where `{:x}` prints a
/// single digit, are control characters and outside the domain)
fn rnd_name(rng: &mut Rng) -> String {
    let pool: Vec<char> = "abcXYZ019_-+.".chars().collect();
    let top = if rng.chance(1, 8) { 40 } else { 6 };
    let n = 1 + rng.below(top);
    if rng.chance(1, 6) {
        // non-ASCII names: every byte of the UTF-8 form is hex-encoded on its own
        let wide: Vec<char> = "aZ9é§ÿ名€\u{80}\u{7ff}\u{800}\u{ffff}\u{1f600}\u{10ffff}~\u{7f}".chars().collect();
        return (0..n).map(|_| *rng.pick(&wide)).collect();
    }
    if rng.chance(1, 2) {
        (0..n).map(|_| *rng.pick(&pool)).collect()
    } else {
        (0..n).map(|_| rng.range(0x20, 0x7e) as u8 as char).collect()
    }
}

fn rnd_face(rng: &mut Rng) -> Spec {
    let under = rng.below(6) as usize;
    let mut flags = [false; 5];
    for f in flags.iter_mut() {
        *f = rng.chance(1, 3);
    }
    Spec::Face { fg: opt_color(rng), bg: opt_color(rng), under, flags }
}
fn rnd_tri(rng: &mut Rng) -> Option<bool> {
    match rng.below(3) {
        0 => None,
        1 => Some(true),
        _ => Some(false),
    }
}
fn rnd_modify(rng: &mut Rng) -> Spec {
    Spec::Modify {
        reset: rng.chance(1, 3),
        fg: opt_color(rng),
        bg: opt_color(rng),
        underline: if rng.chance(1, 3) { None } else { Some(rng.below(6) as usize) },
        ulc: if rng.chance(1, 2) { None } else { Some(rnd_color(rng)) },
        tri: [rnd_tri(rng), rnd_tri(rng), rnd_tri(rng), rnd_tri(rng)],
    }
}

fn rnd_cmd(rng: &mut Rng) -> Spec {
    use Spec::*;
    let nmodes = MODES.len() as u64;
    match rng.below(26) {
        0 => Char(rnd_char(rng)),
        1 | 2 | 3 => rnd_face(rng),
        4 | 5 | 6 => rnd_modify(rng),
        7 => FaceGet,
        8 => ModeSet(rng.chance(1, 2), rng.below(nmodes) as usize),
        9 => ModeGet(rng.below(nmodes) as usize),
        10 => CursorGet,
        11 => CursorTo(rnd_usize(rng), rnd_usize(rng)),
        12 => CursorMove(rnd_i32(rng), rnd_i32(rng)),
        13 => if rng.chance(1, 2) { CursorSave } else { CursorRestore },
        14 => match rng.below(4) {
            0 => EraseLineLeft,
            1 => EraseLineRight,
            2 => EraseLine,
            _ => EraseScreen,
        },
        15 => EraseChars(rnd_usize(rng)),
        16 => Scroll(rnd_i32(rng)),
        17 => ScrollRegion(rnd_usize(rng), rnd_usize(rng)),
        18 => Reset,
        19 => Termcap((0..rng.below(4)).map(|_| rnd_name(rng)).collect()),
        20 | 21 => Color(
            match rng.below(4) {
                0 => ColorName::Bg,
                1 => ColorName::Fg,
                2 => ColorName::Pal(rng.below(300) as usize),
                _ => ColorName::Pal(rnd_usize(rng)),
            },
            // one in eight translucent: outside the domain of the property (no oracle line), but the
            // model's `#rrggbbaa` branch stays tied to the code by the correspondence line
            if rng.chance(1, 8) { opt_color(rng) } else { opt_opaque(rng) },
        ),
        22 => Title(rnd_title(rng)),
        23 => DeviceAttrs,
        24 => KeyboardLevel(if rng.chance(1, 2) { rng.below(40) as usize } else { rnd_usize(rng) }),
        _ => ModeSet(rng.chance(1, 2), ALT_SCREEN),
    }
}

fn corner_cmds() -> Vec<Spec> {
    use Spec::*;
    let mut v = vec![
        Scroll(i32::MIN),
        Scroll(i32::MAX),
        Scroll(0),
        Scroll(-1),
        CursorMove(i32::MIN, i32::MIN),
        CursorMove(i32::MAX, i32::MIN),
        CursorMove(0, 0),
        CursorMove(-1, 1),
        CursorTo(usize::MAX, usize::MAX),
        CursorTo(usize::MAX - 1, usize::MAX - 1),
        CursorTo(0, 0),
        CursorTo(3, 7),
        ScrollRegion(usize::MAX - 1, usize::MAX),
        ScrollRegion(usize::MAX - 2, usize::MAX - 1),
        ScrollRegion(5, 5),
        ScrollRegion(6, 5),
        ScrollRegion(0, 1),
        EraseChars(0),
        EraseChars(usize::MAX),
        Termcap(vec![]),
        Termcap(vec!["TN".into(), "Co".into(), "RGB".into()]),
        Termcap(vec![" ~".into()]),
        Termcap(vec!["é".into(), "名\u{1f600}".into(), "\u{7f}\u{80}ÿ".into()]),
        Title(String::new()),
        Title("x;y".into()),
        Spec::modify_none(),
        Modify { reset: false, fg: None, bg: None, underline: None, ulc: None, tri: [Some(false), None, None, None] },
        Modify { reset: false, fg: None, bg: None, underline: Some(0), ulc: None, tri: [None; 4] },
        Modify { reset: false, fg: None, bg: None, underline: None, ulc: Some([1, 2, 3, 255]), tri: [None; 4] },
        Spec::face_none(),
        Face { fg: Some([200, 100, 50, 0]), bg: Some([200, 100, 50, 128]), under: 0, flags: [false; 5] },
        KeyboardLevel(0),
        KeyboardLevel(usize::MAX),
        Color(ColorName::Pal(usize::MAX), None),
        Color(ColorName::Bg, None),
        Color(ColorName::Fg, Some([1, 2, 3, 255])),
    ];
    for m in 0..MODES.len() {
        for enable in [false, true] {
            v.push(ModeSet(enable, m));
        }
        v.push(ModeGet(m));
    }
    // every underline style x every single flag, all flags, no flag; every style in a modification
    for under in 0..6 {
        v.push(Face { fg: None, bg: None, under, flags: [false; 5] });
        v.push(Face { fg: None, bg: None, under, flags: [true; 5] });
        for k in 0..5 {
            let mut flags = [false; 5];
            flags[k] = true;
            v.push(Face { fg: None, bg: None, under, flags });
        }
        v.push(Modify { reset: false, fg: None, bg: None, underline: Some(under), ulc: None, tri: [None; 4] });
    }
    v
}

/// Rust-side oracle on the implementation's bytes: in 256-colour mode every indexed colour selection
/// names an entry of the colour cube or the grey ramp (16..=255); C20 decides which one.
fn palette_range_failures(caps_tok: &str, bytes: &[u8]) -> Option<u64> {
    // the capability token is written by the harness (`E` = 256 colours), not read back from the crate value
    if !caps_tok.starts_with('E') {
        return None;
    }
    sgr_params(bytes)
        .iter()
        .flat_map(|p| indexed_selections(p))
        .map(|(_, n)| n)
        .find(|n| !(16..=255).contains(n))
}

// ---------------------------------------------------------------------------------------------
// replay: request text -> raw command

fn unhex(s: &str) -> Option<Vec<u8>> {
    if s == "-" {
        return Some(vec![]);
    }
    if s.len() % 2 != 0 {
        return None;
    }
    (0..s.len() / 2).map(|i| u8::from_str_radix(s.get(2 * i..2 * i + 2)?, 16).ok()).collect()
}
fn parse_color(s: &str) -> Option<Option<Rgba>> {
    if s == "-" {
        return Some(None);
    }
    let v: Vec<u8> = s.split(',').take(4).map(|x| x.parse::<u8>().ok()).collect::<Option<_>>()?;
    if v.len() != 4 {
        return None;
    }
    Some(Some([v[0], v[1], v[2], v[3]]))
}
fn parse_tri(s: &str) -> Option<Option<bool>> {
    match s {
        "-" => Some(None),
        "1" => Some(Some(true)),
        "0" => Some(Some(false)),
        _ => None,
    }
}
fn parse_bit(s: &str) -> Option<bool> {
    parse_tri(s)?
}
/// mode number (of the harness' table) -> index into `MODES`
fn parse_mode(s: &str) -> Option<usize> {
    let n: usize = s.parse().ok()?;
    MODES.iter().position(|(_, k)| *k == n)
}
fn parse_under(s: &str) -> Option<usize> {
    s.parse::<usize>().ok().filter(|u| *u < 6)
}
/// inverse of `Spec::tok`
fn parse_cmd(t: &[&str]) -> Option<Spec> {
    use Spec::*;
    Some(match t {
        ["char", cp] => Char(char::from_u32(cp.parse().ok()?)?),
        ["face", fg, bg, under, bold, italic, blink, reverse, strike] => Face {
            fg: parse_color(fg)?,
            bg: parse_color(bg)?,
            under: parse_under(under)?,
            flags: [parse_bit(bold)?, parse_bit(italic)?, parse_bit(blink)?, parse_bit(reverse)?, parse_bit(strike)?],
        },
        ["faceModify", reset, fg, bg, ul, ulc, bold, italic, blink, strike] => Modify {
            reset: parse_bit(reset)?,
            fg: parse_color(fg)?,
            bg: parse_color(bg)?,
            underline: if *ul == "-" { None } else { Some(parse_under(ul)?) },
            ulc: parse_color(ulc)?,
            tri: [parse_tri(bold)?, parse_tri(italic)?, parse_tri(blink)?, parse_tri(strike)?],
        },
        ["faceGet"] => FaceGet,
        ["decModeSet", e, m] => ModeSet(parse_bit(e)?, parse_mode(m)?),
        ["decModeGet", m] => ModeGet(parse_mode(m)?),
        ["cursorGet"] => CursorGet,
        ["cursorTo", r, c] => CursorTo(r.parse().ok()?, c.parse().ok()?),
        ["cursorMove", r, c] => CursorMove(r.parse().ok()?, c.parse().ok()?),
        ["cursorSave"] => CursorSave,
        ["cursorRestore"] => CursorRestore,
        ["eraseLineLeft"] => EraseLineLeft,
        ["eraseLineRight"] => EraseLineRight,
        ["eraseLine"] => EraseLine,
        ["eraseScreen"] => EraseScreen,
        ["eraseChars", n] => EraseChars(n.parse().ok()?),
        ["scroll", n] => Scroll(n.parse().ok()?),
        ["scrollRegion", s, e] => ScrollRegion(s.parse().ok()?, e.parse().ok()?),
        ["reset"] => Reset,
        ["termcap", names] => Termcap(if *names == "-" {
            vec![]
        } else {
            names.split(',').map(|n| String::from_utf8(unhex(n)?).ok()).collect::<Option<Vec<_>>>()?
        }),
        ["color", name, c] => Color(
            match *name {
                "bg" => ColorName::Bg,
                "fg" => ColorName::Fg,
                i => ColorName::Pal(i.parse().ok()?),
            },
            parse_color(c)?,
        ),
        ["title", t] => Title(String::from_utf8(unhex(t)?).ok()?),
        ["deviceAttrs"] => DeviceAttrs,
        ["keyboardLevel", n] => KeyboardLevel(n.parse().ok()?),
        _ => return None,
    })
}
/// capability sets by their token: `T`rue colour / `E`ight bit / `G`rey, `k`itty keyboard / `n`one
fn parse_caps(s: &str) -> Option<(TerminalCaps, String)> {
    let mut it = s.chars();
    let depth = match it.next()? {
        'T' => ColorDepth::TrueColor,
        'E' => ColorDepth::EightBit,
        'G' => ColorDepth::Gray,
        _ => return None,
    };
    let kitty = match it.next()? {
        'k' => true,
        'n' => false,
        _ => return None,
    };
    Some((TerminalCaps { depth, glyphs: false, kitty_keyboard: kitty }, s.to_string()))
}
/// items `[@k] cmd…` separated by `|`
fn parse_items(t: &[&str]) -> Option<Vec<Item>> {
    t.split(|x| *x == "|")
        .map(|item| match item.first() {
            Some(k) if k.starts_with('@') => Some(Item::new(Some(k[1..].parse().ok()?), parse_cmd(&item[1..])?)),
            _ => Some(Item::new(None, parse_cmd(item)?)),
        })
        .collect()
}
/// the recorded input of a replay file: capability token and the items of a stream (a single command
/// is a stream of one)
fn replay_input(r: &Value) -> Option<(String, Vec<Item>)> {
    let mut inputs: Vec<Value> = vec![r["failure"]["input"].clone()];
    for b in r["broken"].as_array().cloned().unwrap_or_default() {
        for f in b["first"].as_array().cloned().unwrap_or_default() {
            inputs.push(f);
        }
    }
    for input in inputs {
        if let Some(req) = input["request"].as_str() {
            let t: Vec<&str> = req.split(' ').filter(|x| !x.is_empty()).collect();
            let parsed = match t.as_slice() {
                ["c05", "check", caps, _bytes, cmd @ ..] => parse_items(cmd).map(|i| (caps.to_string(), i)),
                ["c05", "encode", caps, cmd @ ..] => parse_items(cmd).map(|i| (caps.to_string(), i)),
                ["c05", "scheck", caps, _bytes, items @ ..] => {
                    // the full stream (with the calls whose writer failed) follows `##`
                    let full = match items.iter().position(|x| *x == "##") {
                        Some(p) => &items[p + 1..],
                        None => items,
                    };
                    parse_items(full).map(|i| (caps.to_string(), i))
                }
                ["c05", "stream", caps, items @ ..] => parse_items(items).map(|i| (caps.to_string(), i)),
                _ => None,
            };
            if parsed.is_some() {
                return parsed;
            }
        }
        if let (Some(caps), Some(cmd)) = (input["caps"].as_str(), input["cmd"].as_str()) {
            let t: Vec<&str> = cmd.split(' ').collect();
            if let Some(i) = parse_items(&t) {
                return Some((caps.to_string(), i));
            }
        }
        if let (Some(caps), Some(stream)) = (input["caps"].as_str(), input["stream"].as_str()) {
            let t: Vec<&str> = stream.split(' ').collect();
            if let Some(i) = parse_items(&t) {
                return Some((caps.to_string(), i));
            }
        }
    }
    None
}

// ---------------------------------------------------------------------------------------------

struct Run {
    out: Out,
    seen: HashSet<String>,
}

impl Run {
    /// one command on a fresh encoder under one capability set
    fn single(&mut self, caps: TerminalCaps, caps_tok: &str, item: &Item) {
        let out = &mut self.out;
        let tok = &item.tok;
        let key = format!("{caps_tok} {tok}");
        let fresh = self.seen.insert(key.clone());
        out.case(&key, true);
        if !fresh {
            return;
        }
        out.hist(tok.split(' ').next().unwrap_or(""));
        match enc(caps.clone(), item.cmd.clone()) {
            Err(()) => {
                out.corr(&format!("c05 encode {caps_tok} {tok}"), "panic-or-error");
                out.fail(
                    "encode panicked or returned an error",
                    json!({"caps": caps_tok, "cmd": tok}),
                    json!("bytes"),
                    json!("panic"),
                );
            }
            Ok(bytes) => {
                let hx = hex(&bytes);
                out.corr(&format!("c05 encode {caps_tok} {tok}"), &hx);
                if item.spec.in_domain() {
                    out.oracle(&format!("c05 check {caps_tok} {hx} {tok}"), "ok");
                }
                if let Some(n) = palette_range_failures(caps_tok, &bytes) {
                    out.fail(
                        "256-colour mode selects a palette index outside 16..=255",
                        json!({"caps": caps_tok, "cmd": tok}),
                        json!("16..=255"),
                        json!(n),
                    );
                }
                // the same command into a short-writing and into an interrupting sink (fresh encoders):
                // exactly the same bytes must arrive, without error
                for kind in [2usize, 3] {
                    let mut w = Choppy::for_index(kind + 4 * (bytes.len() % 7), 0);
                    let r = guarded(|| TTYEncoder::new(caps.clone()).encode(&mut w, item.cmd.clone()));
                    if !matches!(r, Ok(Ok(()))) || w.out != bytes {
                        out.fail(
                            "a sink that accepts few bytes per write / reports Interrupted receives different bytes or an error",
                            json!({"caps": caps_tok, "cmd": tok, "max_per_write": w.max, "interrupting": w.interrupt}),
                            json!(hx),
                            json!(format!("{}{}", hex(&w.out), if matches!(r, Ok(Ok(()))) { "" } else { " + error/panic" })),
                        );
                    }
                }
                if out.evaluations % 4001 == 1 {
                    out.sample(json!({"caps": caps_tok, "cmd": tok, "bytes": String::from_utf8_lossy(&bytes)}));
                }
            }
        }
    }

    /// a stream of commands through ONE encoder; an item with `room = Some(k)` writes to a writer that
    /// accepts `k` bytes (`None`: any number)
    fn stream(&mut self, caps: TerminalCaps, caps_tok: &str, items: &[Item]) {
        let out = &mut self.out;
        if items.is_empty() {
            return;
        }
        let toks: Vec<String> = items
            .iter()
            .map(|i| match i.room {
                Some(k) => format!("@{k} {}", i.tok),
                None => i.tok.clone(),
            })
            .collect();
        let text = toks.join(" | ");
        let key = format!("stream {caps_tok} {text}");
        out.case(&key, true);
        if !self.seen.insert(key) {
            return;
        }
        out.hist("stream");
        out.hist(&format!("stream-len-{}", if items.len() <= 2 { "1-2" } else if items.len() <= 6 { "3-6" } else { "7+" }));
        let mut encoder = TTYEncoder::new(caps.clone());
        let mut answer: Vec<String> = Vec::new();
        let mut good_bytes: Vec<u8> = Vec::new();
        let mut good_cmds: Vec<String> = Vec::new();
        let mut all_in_domain = true;
        for (i, item) in items.iter().enumerate() {
            // a call with room goes to a sink that fails after `room` bytes; the others to a plain, a
            // short-writing or an interrupting sink by position (all bytes must arrive: model room = none)
            let mut lim = Limited { out: Vec::new(), room: item.room };
            let mut chop = Choppy::for_index(i, items.len());
            let res = if item.room.is_some() {
                guarded(|| encoder.encode(&mut lim, item.cmd.clone()))
            } else {
                out.hist(if chop.interrupt { "stream-sink-interrupting" } else if chop.max != usize::MAX { "stream-sink-short" } else { "stream-sink-plain" });
                guarded(|| encoder.encode(&mut chop, item.cmd.clone()))
            };
            let w = if item.room.is_some() { lim.out } else { chop.out };
            match res {
                Err(()) => {
                    out.corr(&format!("c05 stream {caps_tok} {text}"), "panic");
                    out.fail(
                        "encode panicked in a stream of commands through one encoder",
                        json!({"caps": caps_tok, "stream": text, "index": i}),
                        json!("bytes"),
                        json!("panic"),
                    );
                    return;
                }
                Ok(r) => {
                    let ok = r.is_ok();
                    if !ok && item.room.is_none() {
                        out.fail(
                            "encode returned an error on an infallible writer",
                            json!({"caps": caps_tok, "stream": text, "index": i}),
                            json!("Ok"),
                            json!("Err"),
                        );
                    }
                    answer.push(format!("{}{}", hex(&w), if ok { "" } else { "!" }));
                    if ok {
                        good_bytes.extend_from_slice(&w);
                        good_cmds.push(item.tok.clone());
                        all_in_domain &= item.spec.in_domain();
                    } else {
                        out.hist("stream-failed-write");
                    }
                }
            }
        }
        out.corr(&format!("c05 stream {caps_tok} {text}"), &answer.join(" "));
        if all_in_domain && !good_cmds.is_empty() {
            // after `##` (ignored by the Lean side): the whole stream incl. failed calls, for replay
            out.oracle(&format!("c05 scheck {caps_tok} {} {} ## {text}", hex(&good_bytes), good_cmds.join(" | ")), "ok");
        }
        if let Some(n) = palette_range_failures(caps_tok, &good_bytes) {
            out.fail(
                "256-colour mode selects a palette index outside 16..=255",
                json!({"caps": caps_tok, "stream": text}),
                json!("16..=255"),
                json!(n),
            );
        }
        if out.evaluations % 1501 == 1 {
            out.sample(json!({"caps": caps_tok, "stream": text, "bytes": String::from_utf8_lossy(&good_bytes)}));
        }
    }
}

/// commands of a stream: faces and face modifications (the arms that use the encoder's chunk buffer)
/// half of the time, anything else otherwise; a command is sometimes repeated verbatim (an encoder that
/// remembers the last face must still emit it again); some calls get a writer that fails early
fn rnd_stream(rng: &mut Rng, max_len: u64) -> Vec<Item> {
    let n = 1 + rng.below(max_len);
    let mut items: Vec<Item> = Vec::new();
    for _ in 0..n {
        let spec = if !items.is_empty() && rng.chance(1, 5) {
            items[rng.below(items.len() as u64) as usize].spec.clone()
        } else if rng.chance(1, 2) {
            if rng.chance(1, 2) { rnd_face(rng) } else { rnd_modify(rng) }
        } else {
            loop {
                let c = rnd_cmd(rng);
                if c.in_domain() {
                    break c;
                }
            }
        };
        let top = if rng.chance(1, 2) { 8 } else { 64 };
        let room = if rng.chance(1, 6) { Some(rng.below(top) as usize) } else { None };
        items.push(Item::new(room, spec));
    }
    items
}

fn corner_streams() -> Vec<Vec<Item>> {
    let red = Some([255u8, 0, 0, 255]);
    let f1 = Spec::Face { fg: red, bg: Some([0, 0, 255, 255]), under: 0, flags: [true, true, false, false, false] };
    let f2 = Spec::Face { fg: None, bg: None, under: 3, flags: [false; 5] };
    let m1 = Spec::Modify { reset: false, fg: red, bg: None, underline: None, ulc: None, tri: [Some(false), None, None, None] };
    let m0 = Spec::modify_none();
    let it = |room: Option<usize>, s: &Spec| Item::new(room, s.clone());
    let mut v = vec![
        vec![it(None, &f1), it(None, &f1)],
        vec![it(None, &f1), it(None, &f2), it(None, &f1)],
        vec![it(None, &f1), it(None, &m0), it(None, &m1), it(None, &m0)],
        vec![it(None, &m1), it(None, &m1), it(None, &f2)],
        vec![it(None, &f1), it(None, &Spec::CursorTo(3, 4)), it(None, &Spec::Char('x')), it(None, &f1)],
    ];
    // a writer that fails after k bytes of the first Face, for every k; the next commands must be whole
    for k in 0..40 {
        v.push(vec![it(Some(k), &f1), it(None, &f2), it(None, &m1), it(None, &m0)]);
        v.push(vec![it(Some(k), &m1), it(None, &m0), it(None, &m1)]);
    }
    v
}

fn main() {
    let cfg = Cfg::from_env();
    verif_harness::silence_panics();
    let mut rng = Rng::new(cfg.seed);
    let mut run = Run { out: cfg.out(), seen: HashSet::new() };
    // capability sets and their tokens: the pairing is written here, not derived from the crate
    let depths = [(ColorDepth::TrueColor, 'T'), (ColorDepth::EightBit, 'E'), (ColorDepth::Gray, 'G')];
    let mut all_caps: Vec<(TerminalCaps, String)> = Vec::new();
    for (depth, dc) in depths {
        for kitty in [false, true] {
            all_caps.push((
                TerminalCaps { depth, glyphs: false, kitty_keyboard: kitty },
                format!("{dc}{}", if kitty { 'k' } else { 'n' }),
            ));
        }
    }
    let rule = "commands are generated as raw pieces (underline style index, flag booleans, colour bytes, DEC mode as index into the harness' own table of xterm mode numbers) from which both the crate value (public constructors) and the model request are written; white-box corner commands first (every DEC mode set/reset/query, every underline style x every flag), then random commands of every kind (extreme usize / i32 parameters, every DEC mode, every underline style x attribute combination, colours with channel values at cube/grey boundaries and any alpha, printable scalar values from every UTF-8 length class, titles of up to 200 printable characters incl. `;` `:` `[` `\\`, capability names of any printable ASCII and non-ASCII text, keyboard levels and palette indices up to usize::MAX), each on a fresh encoder under 3 colour depths x kitty keyboard on/off; then streams of 1..12 (thorough: 1..24) commands through ONE reused encoder per stream (half of them Face/FaceModify, repeated commands, one call in six to a writer failing after k bytes); distinct by (caps, command text) / (caps, stream text)";

    if let Some(r) = &cfg.replay {
        // re-run exactly the recorded command or stream: real encoder, correspondence line, oracle line
        match replay_input(r) {
            Some((caps_tok, items)) => {
                if let Some((caps, caps_tok)) = parse_caps(&caps_tok) {
                    run.out.sample(json!({"replay": r["failure"]["input"], "items": items.len()}));
                    if items.len() == 1 && items[0].room.is_none() {
                        run.single(caps.clone(), &caps_tok, &items[0]);
                    }
                    run.stream(caps, &caps_tok, &items);
                }
            }
            None => run.out.sample(json!({"replay": "input of the replay file not understood", "file": r})),
        }
        run.out.finish(rule);
        return;
    }

    for spec in corner_cmds() {
        let item = Item::new(None, spec);
        for (caps, caps_tok) in &all_caps {
            run.single(caps.clone(), caps_tok, &item);
        }
    }
    for items in corner_streams() {
        for (caps, caps_tok) in &all_caps {
            run.stream(caps.clone(), caps_tok, &items);
        }
    }
    let n = if cfg.thorough { 300_000 } else { 9_000 };
    for _ in 0..n {
        let item = Item::new(None, rnd_cmd(&mut rng));
        for (caps, caps_tok) in &all_caps {
            run.single(caps.clone(), caps_tok, &item);
        }
    }
    let (ns, max_len) = if cfg.thorough { (12_000, 24) } else { (1_500, 12) };
    for _ in 0..ns {
        let items = rnd_stream(&mut rng, max_len);
        for (caps, caps_tok) in &all_caps {
            run.stream(caps.clone(), caps_tok, &items);
        }
    }
    run.out.finish(rule);
}
