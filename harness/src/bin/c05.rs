//! C05: `TTYEncoder::encode` for every command × colour depth × keyboard capability.
//! Single commands (fresh encoder each):
//!   correspondence `c05 encode …` — the Lean model of the encoder must produce the same bytes;
//!   oracle `c05 check …` — the verified Lean reference VT/xterm interpreter must read the
//!   implementation's bytes as exactly the specified meaning of the command (independent of spelling).
//! Streams (ONE `TTYEncoder` reused for all commands of a stream, some calls writing to a writer that
//! fails after k bytes):
//!   correspondence `c05 stream …` — the stateful Lean model (chunk buffer kept across calls, cleared
//!   where the code clears it) must produce the same bytes and the same Ok/Err per call;
//!   oracle `c05 scheck …` — the interpreter must read the concatenated output of the successful
//!   calls as exactly the concatenation of the commands' meanings (theorem C05_stream).
//! Rust-side oracles: no panic / no error on an infallible writer; in 256-colour mode every selected
//! palette index lies in 16..=255 (cube and grey ramp, C20).
//! `VERIF_REPLAY`: only the recorded command / stream is re-run, through the real encoder and both lines.
use serde_json::{Value, json};
use std::collections::HashSet;
use std::io::Write;
use surf_n_term::{
    Color as _, Face, FaceAttrs, FaceModify, Position, RGBA, UnderlineStyle,
    encoder::{ColorDepth, Encoder, TTYEncoder},
    terminal::{DecMode, TerminalCaps, TerminalColor, TerminalCommand},
};
use verif_harness::{Cfg, r#gen::Rng, guarded, out::Out, out::hex};

const MODES: [DecMode; 9] = [
    DecMode::VisibleCursor,
    DecMode::AutoWrap,
    DecMode::SixelScrolling,
    DecMode::MouseReport,
    DecMode::MouseMotions,
    DecMode::MouseSGR,
    DecMode::AltScreen,
    DecMode::SynchronizedOutput,
    DecMode::BracketedPaste,
];

fn enc(caps: TerminalCaps, cmd: TerminalCommand) -> Result<Vec<u8>, ()> {
    guarded(|| {
        let mut out = Vec::new();
        let mut e = TTYEncoder::new(caps);
        e.encode(&mut out, cmd).map(|_| out)
    })
    .and_then(|r| r.map_err(|_| ()))
}

/// An `io::Write` that accepts `room` bytes and then fails (`None`: never fails).
struct Limited {
    out: Vec<u8>,
    room: Option<usize>,
}
impl Write for Limited {
    fn write(&mut self, buf: &[u8]) -> std::io::Result<usize> {
        match self.room {
            None => {
                self.out.extend_from_slice(buf);
                Ok(buf.len())
            }
            Some(0) if !buf.is_empty() => Err(std::io::Error::other("writer is full")),
            Some(k) => {
                let n = k.min(buf.len());
                self.out.extend_from_slice(&buf[..n]);
                self.room = Some(k - n);
                Ok(n)
            }
        }
    }
    fn flush(&mut self) -> std::io::Result<()> {
        Ok(())
    }
}

/// Parameters of every SGR sequence (`CSI … m`) in `bytes`: per sequence the `;`-separated
/// parameters, each with its `:`-separated sub-parameters (`None` = empty / not a number).
/// Tolerant of spelling: it does not assume any order or form of the parameters.
fn sgr_params(bytes: &[u8]) -> Vec<Vec<Vec<Option<u64>>>> {
    let mut res = Vec::new();
    let mut i = 0;
    while i + 1 < bytes.len() {
        if bytes[i] == 0x1b && bytes[i + 1] == b'[' {
            let mut j = i + 2;
            while j < bytes.len() && (0x30..0x40).contains(&bytes[j]) {
                j += 1;
            }
            if j < bytes.len() && bytes[j] == b'm' {
                let body = &bytes[i + 2..j];
                res.push(
                    body.split(|b| *b == b';')
                        .map(|p| {
                            p.split(|b| *b == b':')
                                .map(|d| std::str::from_utf8(d).ok().and_then(|d| d.parse::<u64>().ok()))
                                .collect()
                        })
                        .collect(),
                );
            }
            i = j.max(i + 2);
        } else {
            i += 1;
        }
    }
    res
}

/// Indexed-colour selections `38|48|58 ; 5 ; N` (semicolon form) and `38|48|58 : 5 : N` (colon form)
/// in one SGR parameter list: (role code, N).
fn indexed_selections(params: &[Vec<Option<u64>>]) -> Vec<(u64, u64)> {
    let mut res = Vec::new();
    let mut i = 0;
    while i < params.len() {
        let p = &params[i];
        let role = p.first().copied().flatten();
        if let Some(role) = role.filter(|r| [38, 48, 58].contains(r)) {
            if p.len() >= 3 && p[1] == Some(5) {
                if let Some(n) = p[2] {
                    res.push((role, n));
                }
            } else if p.len() == 1 && i + 2 < params.len() && params[i + 1] == vec![Some(5)] {
                if let Some(Some(n)) = params[i + 2].first() {
                    res.push((role, *n));
                }
                i += 2;
            } else if p.len() == 1 && i + 4 < params.len() && params[i + 1] == vec![Some(2)] {
                i += 4;
            }
        }
        i += 1;
    }
    res
}

/// palette index / grey level the implementation selects for a colour (C20 decides whether they
/// are the right ones; here they are inputs of the model). Read from a single-colour `Face` encode
/// by parsing the SGR parameter list, whatever its spelling.
fn reductions(c: RGBA) -> (usize, usize) {
    let face = Face::new(Some(c), None, FaceAttrs::EMPTY);
    let caps8 = TerminalCaps { depth: ColorDepth::EightBit, glyphs: false, kitty_keyboard: false };
    let capsg = TerminalCaps { depth: ColorDepth::Gray, glyphs: false, kitty_keyboard: false };
    let pal = enc(caps8, TerminalCommand::Face(face))
        .ok()
        .and_then(|b| {
            let sgr = sgr_params(&b);
            let sel: Vec<(u64, u64)> = sgr.iter().flat_map(|p| indexed_selections(p)).collect();
            sel.iter().find(|(role, _)| *role == 38).map(|(_, n)| *n as usize)
        })
        .unwrap_or(999);
    let lvl = enc(capsg, TerminalCommand::Face(face))
        .ok()
        .and_then(|b| {
            let sgr = sgr_params(&b);
            sgr.iter().flatten().find_map(|p| match p.as_slice() {
                [Some(30)] => Some(0),
                [Some(90)] => Some(1),
                [Some(37)] => Some(2),
                [Some(97)] => Some(3),
                _ => None,
            })
        })
        .unwrap_or(9);
    (pal, lvl)
}

fn color_tok(c: Option<RGBA>) -> String {
    match c {
        None => "-".to_string(),
        Some(c) => {
            let [r, g, b, a] = c.to_rgba();
            let (pal, lvl) = reductions(c);
            format!("{r},{g},{b},{a},{pal},{lvl}")
        }
    }
}

fn tri(v: Option<bool>) -> &'static str {
    match v {
        None => "-",
        Some(true) => "1",
        Some(false) => "0",
    }
}
fn bit(v: bool) -> &'static str {
    if v { "1" } else { "0" }
}
fn under_num(u: UnderlineStyle) -> usize {
    match u {
        UnderlineStyle::None => 0,
        UnderlineStyle::Straight => 1,
        UnderlineStyle::Double => 2,
        UnderlineStyle::Curly => 3,
        UnderlineStyle::Dotted => 4,
        UnderlineStyle::Dashed => 5,
    }
}
const UNDERS: [UnderlineStyle; 6] = [
    UnderlineStyle::None,
    UnderlineStyle::Straight,
    UnderlineStyle::Double,
    UnderlineStyle::Curly,
    UnderlineStyle::Dotted,
    UnderlineStyle::Dashed,
];

/// request text of a command (the Lean side parses it into `SurfModel.Vt.Cmd`)
fn cmd_tok(cmd: &TerminalCommand) -> Option<String> {
    use TerminalCommand::*;
    Some(match cmd {
        Char(c) => format!("char {}", *c as u32),
        Face(f) => {
            let a = f.attrs;
            format!(
                "face {} {} {} {} {} {} {} {}",
                color_tok(f.fg),
                color_tok(f.bg),
                under_num(a.underline()),
                bit(a.contains(FaceAttrs::BOLD)),
                bit(a.contains(FaceAttrs::ITALIC)),
                bit(a.contains(FaceAttrs::BLINK)),
                bit(a.contains(FaceAttrs::REVERSE)),
                bit(a.contains(FaceAttrs::STRIKE))
            )
        }
        FaceModify(m) => format!(
            "faceModify {} {} {} {} {} {} {} {} {}",
            bit(m.reset),
            color_tok(m.fg),
            color_tok(m.bg),
            m.underline.map(|u| under_num(u).to_string()).unwrap_or("-".into()),
            color_tok(m.underline_color),
            tri(m.bold),
            tri(m.italic),
            tri(m.blink),
            tri(m.strike)
        ),
        FaceGet => "faceGet".into(),
        DecModeSet { enable, mode } => format!("decModeSet {} {}", bit(*enable), *mode as usize),
        DecModeGet(mode) => format!("decModeGet {}", *mode as usize),
        CursorGet => "cursorGet".into(),
        CursorTo(p) => format!("cursorTo {} {}", p.row, p.col),
        CursorMove { row, col } => format!("cursorMove {row} {col}"),
        CursorSave => "cursorSave".into(),
        CursorRestore => "cursorRestore".into(),
        EraseLineLeft => "eraseLineLeft".into(),
        EraseLineRight => "eraseLineRight".into(),
        EraseLine => "eraseLine".into(),
        EraseScreen => "eraseScreen".into(),
        EraseChars(n) => format!("eraseChars {n}"),
        Scroll(n) => format!("scroll {n}"),
        ScrollRegion { start, end } => format!("scrollRegion {start} {end}"),
        Reset => "reset".into(),
        Termcap(names) => format!(
            "termcap {}",
            if names.is_empty() {
                "-".to_string()
            } else {
                names.iter().map(|n| hex(n.as_bytes())).collect::<Vec<_>>().join(",")
            }
        ),
        Color { name, color } => format!(
            "color {} {}",
            match name {
                TerminalColor::Background => "bg".to_string(),
                TerminalColor::Foreground => "fg".to_string(),
                TerminalColor::Palette(i) => i.to_string(),
            },
            color_tok(*color)
        ),
        Title(t) => format!("title {}", hex(t.as_bytes())),
        DeviceAttrs => "deviceAttrs".into(),
        KeyboardLevel(n) => format!("keyboardLevel {n}"),
        _ => return None,
    })
}

fn rnd_color(rng: &mut Rng) -> RGBA {
    let edge = [0u8, 1, 8, 47, 95, 128, 135, 254, 255];
    let ch = |rng: &mut Rng| if rng.chance(1, 3) { *rng.pick(&edge) } else { rng.below(256) as u8 };
    // alpha: mostly opaque; translucent and transparent colours are legal `Face` colours (the
    // encoder discards alpha in true colour and reduces the premultiplied colour otherwise)
    let a = match rng.below(5) {
        0 => *rng.pick(&[0u8, 1, 127, 128, 254]),
        1 => rng.below(256) as u8,
        _ => 255,
    };
    RGBA::new(ch(rng), ch(rng), ch(rng), a)
}
fn opt_color(rng: &mut Rng) -> Option<RGBA> {
    if rng.chance(1, 3) { None } else { Some(rnd_color(rng)) }
}
/// colour of an OSC colour command: opaque (a translucent colour prints as `#rrggbbaa`, which is
/// outside the domain `Valid` of the property theorem: xterm's colour syntax has no alpha)
fn opt_opaque(rng: &mut Rng) -> Option<RGBA> {
    opt_color(rng).map(|c| {
        let [r, g, b, _] = c.to_rgba();
        RGBA::new(r, g, b, 255)
    })
}
fn rnd_usize(rng: &mut Rng) -> usize {
    match rng.below(6) {
        0 => rng.below(4) as usize,
        1 => rng.below(300) as usize,
        2 => 65535 - rng.below(3) as usize,
        3 => usize::MAX - rng.below(3) as usize,
        4 => (1usize << rng.below(64)) - rng.below(2) as usize,
        _ => rng.next() as usize,
    }
}
fn rnd_i32(rng: &mut Rng) -> i32 {
    match rng.below(6) {
        0 => 0,
        1 => rng.range(-5, 5) as i32,
        2 => i32::MIN + rng.below(2) as i32,
        3 => i32::MAX - rng.below(2) as i32,
        4 => rng.range(-100000, 100000) as i32,
        _ => rng.next() as i32,
    }
}
fn rnd_char(rng: &mut Rng) -> char {
    loop {
        let cp = match rng.below(6) {
            0 => rng.range(0x20, 0x7e) as u32,
            1 => rng.range(0xa0, 0x7ff) as u32,
            2 => rng.range(0x800, 0xffff) as u32,
            3 => rng.range(0x10000, 0x10ffff) as u32,
            4 => *rng.pick(&[0x20u32, 0x7e, 0xa0, 0x7ff, 0x800, 0xd7ff, 0xe000, 0xffff, 0x10000, 0x10ffff]),
            _ => rng.below(0x110000) as u32,
        };
        if (0x7f..0xa0).contains(&cp) || cp < 0x20 {
            continue;
        }
        if let Some(c) = char::from_u32(cp) {
            return c;
        }
    }
}
/// title: a small pool of characters that matter to a parser (`;`, `:`, `[`, `\`, `m`, NBSP, ÿ …) or
/// any printable scalar values, up to 200 characters
fn rnd_title(rng: &mut Rng) -> String {
    let pool: Vec<char> = "ab Z9;:[]\\m~é€𝄞漢\u{a0}\u{ff}".chars().collect();
    match rng.below(4) {
        0 => (0..rng.below(12)).map(|_| *rng.pick(&pool)).collect(),
        1 => (0..rng.below(12)).map(|_| rnd_char(rng)).collect(),
        2 => (0..rng.below(201)).map(|_| rnd_char(rng)).collect(),
        _ => (0..rng.below(201)).map(|_| if rng.chance(1, 4) { *rng.pick(&pool) } else { rng.range(0x20, 0x7e) as u8 as char }).collect(),
    }
}
/// capability name: non-empty printable ASCII (0x20..=0x7e; bytes below 0x10, where `{:x}` prints a
/// single digit, are control characters and outside the domain)
fn rnd_name(rng: &mut Rng) -> String {
    let pool: Vec<char> = "abcXYZ019_-+.".chars().collect();
    let top = if rng.chance(1, 8) { 40 } else { 6 };
    let n = 1 + rng.below(top);
    if rng.chance(1, 6) {
        // non-ASCII names: every byte of the UTF-8 form is hex-encoded on its own
        let wide: Vec<char> = "aZ9é§ÿ名€\u{80}\u{7ff}\u{800}\u{ffff}\u{1f600}\u{10ffff}~\u{7f}".chars().collect();
        return (0..n).map(|_| *rng.pick(&wide)).collect();
    }
    if rng.chance(1, 2) {
        (0..n).map(|_| *rng.pick(&pool)).collect()
    } else {
        (0..n).map(|_| rng.range(0x20, 0x7e) as u8 as char).collect()
    }
}

fn rnd_face(rng: &mut Rng) -> Face {
    let mut attrs: FaceAttrs = (*rng.pick(&UNDERS)).into();
    for f in [FaceAttrs::BOLD, FaceAttrs::ITALIC, FaceAttrs::BLINK, FaceAttrs::REVERSE, FaceAttrs::STRIKE] {
        if rng.chance(1, 3) {
            attrs = attrs.insert(f);
        }
    }
    Face::new(opt_color(rng), opt_color(rng), attrs)
}
fn rnd_tri(rng: &mut Rng) -> Option<bool> {
    match rng.below(3) {
        0 => None,
        1 => Some(true),
        _ => Some(false),
    }
}
fn rnd_modify(rng: &mut Rng) -> FaceModify {
    FaceModify {
        reset: rng.chance(1, 3),
        fg: opt_color(rng),
        bg: opt_color(rng),
        underline: if rng.chance(1, 3) { None } else { Some(*rng.pick(&UNDERS)) },
        underline_color: if rng.chance(1, 2) { None } else { Some(rnd_color(rng)) },
        bold: rnd_tri(rng),
        italic: rnd_tri(rng),
        blink: rnd_tri(rng),
        strike: rnd_tri(rng),
    }
}

fn rnd_cmd(rng: &mut Rng) -> TerminalCommand {
    use TerminalCommand::*;
    match rng.below(26) {
        0 => Char(rnd_char(rng)),
        1 | 2 | 3 => Face(rnd_face(rng)),
        4 | 5 | 6 => FaceModify(rnd_modify(rng)),
        7 => FaceGet,
        8 => DecModeSet { enable: rng.chance(1, 2), mode: *rng.pick(&MODES) },
        9 => DecModeGet(*rng.pick(&MODES)),
        10 => CursorGet,
        11 => CursorTo(Position::new(rnd_usize(rng), rnd_usize(rng))),
        12 => CursorMove { row: rnd_i32(rng), col: rnd_i32(rng) },
        13 => if rng.chance(1, 2) { CursorSave } else { CursorRestore },
        14 => match rng.below(4) {
            0 => EraseLineLeft,
            1 => EraseLineRight,
            2 => EraseLine,
            _ => EraseScreen,
        },
        15 => EraseChars(rnd_usize(rng)),
        16 => Scroll(rnd_i32(rng)),
        17 => ScrollRegion { start: rnd_usize(rng), end: rnd_usize(rng) },
        18 => Reset,
        19 => Termcap((0..rng.below(4)).map(|_| rnd_name(rng)).collect()),
        20 | 21 => Color {
            name: match rng.below(4) {
                0 => TerminalColor::Background,
                1 => TerminalColor::Foreground,
                2 => TerminalColor::Palette(rng.below(300) as usize),
                _ => TerminalColor::Palette(rnd_usize(rng)),
            },
            // one in eight translucent: outside the domain of the property (no oracle line), but the
            // model's `#rrggbbaa` branch stays tied to the code by the correspondence line
            color: if rng.chance(1, 8) { opt_color(rng) } else { opt_opaque(rng) },
        },
        22 => Title(rnd_title(rng)),
        23 => DeviceAttrs,
        24 => KeyboardLevel(if rng.chance(1, 2) { rng.below(40) as usize } else { rnd_usize(rng) }),
        _ => DecModeSet { enable: rng.chance(1, 2), mode: DecMode::AltScreen },
    }
}

fn corner_cmds() -> Vec<TerminalCommand> {
    use TerminalCommand::*;
    let mut v = vec![
        Scroll(i32::MIN),
        Scroll(i32::MAX),
        Scroll(0),
        Scroll(-1),
        CursorMove { row: i32::MIN, col: i32::MIN },
        CursorMove { row: i32::MAX, col: i32::MIN },
        CursorMove { row: 0, col: 0 },
        CursorMove { row: -1, col: 1 },
        CursorTo(Position::new(usize::MAX, usize::MAX)),
        CursorTo(Position::new(usize::MAX - 1, usize::MAX - 1)),
        CursorTo(Position::new(0, 0)),
        ScrollRegion { start: usize::MAX - 1, end: usize::MAX },
        ScrollRegion { start: usize::MAX - 2, end: usize::MAX - 1 },
        ScrollRegion { start: 5, end: 5 },
        ScrollRegion { start: 6, end: 5 },
        ScrollRegion { start: 0, end: 1 },
        EraseChars(0),
        EraseChars(usize::MAX),
        Termcap(vec![]),
        Termcap(vec!["TN".into(), "Co".into(), "RGB".into()]),
        Termcap(vec![" ~".into()]),
        Termcap(vec!["é".into(), "名\u{1f600}".into(), "\u{7f}\u{80}ÿ".into()]),
        Title(String::new()),
        Title("x;y".into()),
        FaceModify(surf_n_term::FaceModify::default()),
        FaceModify(surf_n_term::FaceModify { bold: Some(false), ..Default::default() }),
        FaceModify(surf_n_term::FaceModify { underline: Some(UnderlineStyle::None), ..Default::default() }),
        FaceModify(surf_n_term::FaceModify { underline_color: Some(RGBA::new(1, 2, 3, 255)), ..Default::default() }),
        Face(surf_n_term::Face::default()),
        Face(surf_n_term::Face::new(Some(RGBA::new(200, 100, 50, 0)), Some(RGBA::new(200, 100, 50, 128)), FaceAttrs::EMPTY)),
        KeyboardLevel(0),
        KeyboardLevel(usize::MAX),
        Color { name: TerminalColor::Palette(usize::MAX), color: None },
    ];
    for mode in MODES {
        for enable in [false, true] {
            v.push(DecModeSet { enable, mode });
        }
        v.push(DecModeGet(mode));
    }
    for u in UNDERS {
        v.push(Face(surf_n_term::Face::new(None, None, u.into())));
        v.push(FaceModify(surf_n_term::FaceModify { underline: Some(u), ..Default::default() }));
    }
    v
}

/// domain of the property theorems (`Valid`): at least one capability name (an empty XTGETTCAP
/// request is read by xterm as a request for the empty name); opaque colours in OSC colour commands
fn in_domain(cmd: &TerminalCommand) -> bool {
    match cmd {
        TerminalCommand::Termcap(names) => !names.is_empty(),
        TerminalCommand::Color { color: Some(c), .. } => c.to_rgba()[3] == 255,
        _ => true,
    }
}

/// Rust-side oracle on the implementation's bytes: in 256-colour mode every indexed colour selection
/// names an entry of the colour cube or the grey ramp (16..=255); C20 decides which one.
fn palette_range_failures(depth: ColorDepth, bytes: &[u8]) -> Option<u64> {
    if depth != ColorDepth::EightBit {
        return None;
    }
    sgr_params(bytes)
        .iter()
        .flat_map(|p| indexed_selections(p))
        .map(|(_, n)| n)
        .find(|n| !(16..=255).contains(n))
}

// ---------------------------------------------------------------------------------------------
// replay: request text -> command

fn unhex(s: &str) -> Option<Vec<u8>> {
    if s == "-" {
        return Some(vec![]);
    }
    if s.len() % 2 != 0 {
        return None;
    }
    (0..s.len() / 2).map(|i| u8::from_str_radix(s.get(2 * i..2 * i + 2)?, 16).ok()).collect()
}
fn parse_color(s: &str) -> Option<Option<RGBA>> {
    if s == "-" {
        return Some(None);
    }
    let v: Vec<u8> = s.split(',').take(4).map(|x| x.parse::<u8>().ok()).collect::<Option<_>>()?;
    if v.len() != 4 {
        return None;
    }
    Some(Some(RGBA::new(v[0], v[1], v[2], v[3])))
}
fn parse_tri(s: &str) -> Option<Option<bool>> {
    match s {
        "-" => Some(None),
        "1" => Some(Some(true)),
        "0" => Some(Some(false)),
        _ => None,
    }
}
fn parse_bit(s: &str) -> Option<bool> {
    parse_tri(s)?
}
fn parse_mode(s: &str) -> Option<DecMode> {
    let n: usize = s.parse().ok()?;
    MODES.iter().copied().find(|m| *m as usize == n)
}
/// inverse of `cmd_tok`
fn parse_cmd(t: &[&str]) -> Option<TerminalCommand> {
    use TerminalCommand::*;
    Some(match t {
        ["char", cp] => Char(char::from_u32(cp.parse().ok()?)?),
        ["face", fg, bg, under, bold, italic, blink, reverse, strike] => {
            let mut attrs: FaceAttrs = (*UNDERS.get(under.parse::<usize>().ok()?)?).into();
            for (on, flag) in [
                (bold, FaceAttrs::BOLD),
                (italic, FaceAttrs::ITALIC),
                (blink, FaceAttrs::BLINK),
                (reverse, FaceAttrs::REVERSE),
                (strike, FaceAttrs::STRIKE),
            ] {
                if parse_bit(on)? {
                    attrs = attrs.insert(flag);
                }
            }
            Face(surf_n_term::Face::new(parse_color(fg)?, parse_color(bg)?, attrs))
        }
        ["faceModify", reset, fg, bg, ul, ulc, bold, italic, blink, strike] => FaceModify(surf_n_term::FaceModify {
            reset: parse_bit(reset)?,
            fg: parse_color(fg)?,
            bg: parse_color(bg)?,
            underline: if *ul == "-" { None } else { Some(*UNDERS.get(ul.parse::<usize>().ok()?)?) },
            underline_color: parse_color(ulc)?,
            bold: parse_tri(bold)?,
            italic: parse_tri(italic)?,
            blink: parse_tri(blink)?,
            strike: parse_tri(strike)?,
        }),
        ["faceGet"] => FaceGet,
        ["decModeSet", e, m] => DecModeSet { enable: parse_bit(e)?, mode: parse_mode(m)? },
        ["decModeGet", m] => DecModeGet(parse_mode(m)?),
        ["cursorGet"] => CursorGet,
        ["cursorTo", r, c] => CursorTo(Position::new(r.parse().ok()?, c.parse().ok()?)),
        ["cursorMove", r, c] => CursorMove { row: r.parse().ok()?, col: c.parse().ok()? },
        ["cursorSave"] => CursorSave,
        ["cursorRestore"] => CursorRestore,
        ["eraseLineLeft"] => EraseLineLeft,
        ["eraseLineRight"] => EraseLineRight,
        ["eraseLine"] => EraseLine,
        ["eraseScreen"] => EraseScreen,
        ["eraseChars", n] => EraseChars(n.parse().ok()?),
        ["scroll", n] => Scroll(n.parse().ok()?),
        ["scrollRegion", s, e] => ScrollRegion { start: s.parse().ok()?, end: e.parse().ok()? },
        ["reset"] => Reset,
        ["termcap", names] => Termcap(if *names == "-" {
            vec![]
        } else {
            names.split(',').map(|n| String::from_utf8(unhex(n)?).ok()).collect::<Option<Vec<_>>>()?
        }),
        ["color", name, c] => Color {
            name: match *name {
                "bg" => TerminalColor::Background,
                "fg" => TerminalColor::Foreground,
                i => TerminalColor::Palette(i.parse().ok()?),
            },
            color: parse_color(c)?,
        },
        ["title", t] => Title(String::from_utf8(unhex(t)?).ok()?),
        ["deviceAttrs"] => DeviceAttrs,
        ["keyboardLevel", n] => KeyboardLevel(n.parse().ok()?),
        _ => return None,
    })
}
fn parse_caps(s: &str) -> Option<(TerminalCaps, String)> {
    let mut it = s.chars();
    let depth = match it.next()? {
        'T' => ColorDepth::TrueColor,
        'E' => ColorDepth::EightBit,
        'G' => ColorDepth::Gray,
        _ => return None,
    };
    let kitty = match it.next()? {
        'k' => true,
        'n' => false,
        _ => return None,
    };
    Some((TerminalCaps { depth, glyphs: false, kitty_keyboard: kitty }, s.to_string()))
}
/// items `[@k] cmd…` separated by `|`
fn parse_items(t: &[&str]) -> Option<Vec<(Option<usize>, TerminalCommand)>> {
    t.split(|x| *x == "|")
        .map(|item| match item.first() {
            Some(k) if k.starts_with('@') => Some((Some(k[1..].parse().ok()?), parse_cmd(&item[1..])?)),
            _ => Some((None, parse_cmd(item)?)),
        })
        .collect()
}
/// the recorded input of a replay file: capability token and the items of a stream (a single command
/// is a stream of one)
fn replay_input(r: &Value) -> Option<(String, Vec<(Option<usize>, TerminalCommand)>)> {
    let mut inputs: Vec<Value> = vec![r["failure"]["input"].clone()];
    for b in r["broken"].as_array().cloned().unwrap_or_default() {
        for f in b["first"].as_array().cloned().unwrap_or_default() {
            inputs.push(f);
        }
    }
    for input in inputs {
        if let Some(req) = input["request"].as_str() {
            let t: Vec<&str> = req.split(' ').filter(|x| !x.is_empty()).collect();
            let parsed = match t.as_slice() {
                ["c05", "check", caps, _bytes, cmd @ ..] => parse_items(cmd).map(|i| (caps.to_string(), i)),
                ["c05", "encode", caps, cmd @ ..] => parse_items(cmd).map(|i| (caps.to_string(), i)),
                ["c05", "scheck", caps, _bytes, items @ ..] => {
                    // the full stream (with the calls whose writer failed) follows `##`
                    let full = match items.iter().position(|x| *x == "##") {
                        Some(p) => &items[p + 1..],
                        None => items,
                    };
                    parse_items(full).map(|i| (caps.to_string(), i))
                }
                ["c05", "stream", caps, items @ ..] => parse_items(items).map(|i| (caps.to_string(), i)),
                _ => None,
            };
            if parsed.is_some() {
                return parsed;
            }
        }
        if let (Some(caps), Some(cmd)) = (input["caps"].as_str(), input["cmd"].as_str()) {
            let t: Vec<&str> = cmd.split(' ').collect();
            if let Some(i) = parse_items(&t) {
                return Some((caps.to_string(), i));
            }
        }
        if let (Some(caps), Some(stream)) = (input["caps"].as_str(), input["stream"].as_str()) {
            let t: Vec<&str> = stream.split(' ').collect();
            if let Some(i) = parse_items(&t) {
                return Some((caps.to_string(), i));
            }
        }
    }
    None
}

// ---------------------------------------------------------------------------------------------

struct Run {
    out: Out,
    seen: HashSet<String>,
}

impl Run {
    /// one command on a fresh encoder under one capability set
    fn single(&mut self, caps: TerminalCaps, caps_tok: &str, cmd: &TerminalCommand, tok: &str) {
        let out = &mut self.out;
        let key = format!("{caps_tok} {tok}");
        let fresh = self.seen.insert(key.clone());
        out.case(&key, true);
        if !fresh {
            return;
        }
        out.hist(tok.split(' ').next().unwrap_or(""));
        match enc(caps.clone(), cmd.clone()) {
            Err(()) => {
                out.corr(&format!("c05 encode {caps_tok} {tok}"), "panic-or-error");
                out.fail(
                    "encode panicked or returned an error",
                    json!({"caps": caps_tok, "cmd": tok}),
                    json!("bytes"),
                    json!("panic"),
                );
            }
            Ok(bytes) => {
                let hx = hex(&bytes);
                out.corr(&format!("c05 encode {caps_tok} {tok}"), &hx);
                if in_domain(cmd) {
                    out.oracle(&format!("c05 check {caps_tok} {hx} {tok}"), "ok");
                }
                if let Some(n) = palette_range_failures(caps.depth, &bytes) {
                    out.fail(
                        "256-colour mode selects a palette index outside 16..=255",
                        json!({"caps": caps_tok, "cmd": tok}),
                        json!("16..=255"),
                        json!(n),
                    );
                }
                if out.evaluations % 4001 == 1 {
                    out.sample(json!({"caps": caps_tok, "cmd": tok, "bytes": String::from_utf8_lossy(&bytes)}));
                }
            }
        }
    }

    /// a stream of commands through ONE encoder; item `(room, cmd)` writes to a writer that accepts
    /// `room` bytes (`None`: any number)
    fn stream(&mut self, caps: TerminalCaps, caps_tok: &str, items: &[(Option<usize>, TerminalCommand)]) {
        let out = &mut self.out;
        let toks: Vec<String> = items
            .iter()
            .filter_map(|(room, cmd)| {
                let t = cmd_tok(cmd)?;
                Some(match room {
                    Some(k) => format!("@{k} {t}"),
                    None => t,
                })
            })
            .collect();
        if toks.len() != items.len() || items.is_empty() {
            return;
        }
        let text = toks.join(" | ");
        let key = format!("stream {caps_tok} {text}");
        out.case(&key, true);
        if !self.seen.insert(key) {
            return;
        }
        out.hist("stream");
        out.hist(&format!("stream-len-{}", if items.len() <= 2 { "1-2" } else if items.len() <= 6 { "3-6" } else { "7+" }));
        let mut encoder = TTYEncoder::new(caps.clone());
        let mut answer: Vec<String> = Vec::new();
        let mut good_bytes: Vec<u8> = Vec::new();
        let mut good_cmds: Vec<String> = Vec::new();
        let mut all_in_domain = true;
        for (i, (room, cmd)) in items.iter().enumerate() {
            let mut w = Limited { out: Vec::new(), room: *room };
            let res = guarded(|| encoder.encode(&mut w, cmd.clone()));
            match res {
                Err(()) => {
                    out.corr(&format!("c05 stream {caps_tok} {text}"), "panic");
                    out.fail(
                        "encode panicked in a stream of commands through one encoder",
                        json!({"caps": caps_tok, "stream": text, "index": i}),
                        json!("bytes"),
                        json!("panic"),
                    );
                    return;
                }
                Ok(r) => {
                    let ok = r.is_ok();
                    if !ok && room.is_none() {
                        out.fail(
                            "encode returned an error on an infallible writer",
                            json!({"caps": caps_tok, "stream": text, "index": i}),
                            json!("Ok"),
                            json!("Err"),
                        );
                    }
                    answer.push(format!("{}{}", hex(&w.out), if ok { "" } else { "!" }));
                    if ok {
                        good_bytes.extend_from_slice(&w.out);
                        good_cmds.push(cmd_tok(cmd).unwrap_or_default());
                        all_in_domain &= in_domain(cmd);
                    } else {
                        out.hist("stream-failed-write");
                    }
                }
            }
        }
        out.corr(&format!("c05 stream {caps_tok} {text}"), &answer.join(" "));
        if all_in_domain && !good_cmds.is_empty() {
            // after `##` (ignored by the Lean side): the whole stream incl. failed calls, for replay
            out.oracle(&format!("c05 scheck {caps_tok} {} {} ## {text}", hex(&good_bytes), good_cmds.join(" | ")), "ok");
        }
        if let Some(n) = palette_range_failures(caps.depth, &good_bytes) {
            out.fail(
                "256-colour mode selects a palette index outside 16..=255",
                json!({"caps": caps_tok, "stream": text}),
                json!("16..=255"),
                json!(n),
            );
        }
        if out.evaluations % 1501 == 1 {
            out.sample(json!({"caps": caps_tok, "stream": text, "bytes": String::from_utf8_lossy(&good_bytes)}));
        }
    }
}

/// commands of a stream: faces and face modifications (the arms that use the encoder's chunk buffer)
/// half of the time, anything else otherwise; a command is sometimes repeated verbatim (an encoder that
/// remembers the last face must still emit it again); some calls get a writer that fails early
fn rnd_stream(rng: &mut Rng, max_len: u64) -> Vec<(Option<usize>, TerminalCommand)> {
    let n = 1 + rng.below(max_len);
    let mut items: Vec<(Option<usize>, TerminalCommand)> = Vec::new();
    for _ in 0..n {
        let cmd = if !items.is_empty() && rng.chance(1, 5) {
            items[rng.below(items.len() as u64) as usize].1.clone()
        } else if rng.chance(1, 2) {
            if rng.chance(1, 2) { TerminalCommand::Face(rnd_face(rng)) } else { TerminalCommand::FaceModify(rnd_modify(rng)) }
        } else {
            loop {
                let c = rnd_cmd(rng);
                if in_domain(&c) {
                    break c;
                }
            }
        };
        let top = if rng.chance(1, 2) { 8 } else { 64 };
        let room = if rng.chance(1, 6) { Some(rng.below(top) as usize) } else { None };
        items.push((room, cmd));
    }
    items
}

fn corner_streams() -> Vec<Vec<(Option<usize>, TerminalCommand)>> {
    use TerminalCommand::*;
    let red = RGBA::new(255, 0, 0, 255);
    let f1 = surf_n_term::Face::new(Some(red), Some(RGBA::new(0, 0, 255, 255)), FaceAttrs::BOLD | FaceAttrs::ITALIC);
    let f2 = surf_n_term::Face::new(None, None, UnderlineStyle::Curly.into());
    let m1 = surf_n_term::FaceModify { bold: Some(false), fg: Some(red), ..Default::default() };
    let m0 = surf_n_term::FaceModify::default();
    let mut v = vec![
        vec![(None, Face(f1)), (None, Face(f1))],
        vec![(None, Face(f1)), (None, Face(f2)), (None, Face(f1))],
        vec![(None, Face(f1)), (None, FaceModify(m0)), (None, FaceModify(m1)), (None, FaceModify(m0))],
        vec![(None, FaceModify(m1)), (None, FaceModify(m1)), (None, Face(f2))],
        vec![(None, Face(f1)), (None, CursorTo(Position::new(3, 4))), (None, Char('x')), (None, Face(f1))],
    ];
    // a writer that fails after k bytes of the first Face, for every k; the next commands must be whole
    for k in 0..40 {
        v.push(vec![(Some(k), Face(f1)), (None, Face(f2)), (None, FaceModify(m1)), (None, FaceModify(m0))]);
        v.push(vec![(Some(k), FaceModify(m1)), (None, FaceModify(m0)), (None, FaceModify(m1))]);
    }
    v
}

fn main() {
    let cfg = Cfg::from_env();
    verif_harness::silence_panics();
    let mut rng = Rng::new(cfg.seed);
    let mut run = Run { out: cfg.out(), seen: HashSet::new() };
    let depths = [(ColorDepth::TrueColor, 'T'), (ColorDepth::EightBit, 'E'), (ColorDepth::Gray, 'G')];
    let mut all_caps: Vec<(TerminalCaps, String)> = Vec::new();
    for (depth, dc) in depths {
        for kitty in [false, true] {
            all_caps.push((
                TerminalCaps { depth, glyphs: false, kitty_keyboard: kitty },
                format!("{dc}{}", if kitty { 'k' } else { 'n' }),
            ));
        }
    }
    let rule = "white-box corner commands first, then random commands of every kind (extreme usize / i32 parameters, every DEC mode, every underline style x attribute combination, colours with channel values at cube/grey boundaries and any alpha, printable scalar values from every UTF-8 length class, titles of up to 200 printable characters incl. `;` `:` `[` `\\`, capability names of any printable ASCII, keyboard levels and palette indices up to usize::MAX), each on a fresh encoder under 3 colour depths x kitty keyboard on/off; then streams of 1..12 (thorough: 1..24) commands through ONE reused encoder per stream (half of them Face/FaceModify, repeated commands, one call in six to a writer failing after k bytes); distinct by (caps, command text) / (caps, stream text)";

    if let Some(r) = &cfg.replay {
        // re-run exactly the recorded command or stream: real encoder, correspondence line, oracle line
        match replay_input(r) {
            Some((caps_tok, items)) => {
                if let Some((caps, caps_tok)) = parse_caps(&caps_tok) {
                    run.out.sample(json!({"replay": r["failure"]["input"], "items": items.len()}));
                    if items.len() == 1 && items[0].0.is_none() {
                        if let Some(tok) = cmd_tok(&items[0].1) {
                            run.single(caps.clone(), &caps_tok, &items[0].1, &tok);
                        }
                    }
                    run.stream(caps, &caps_tok, &items);
                }
            }
            None => run.out.sample(json!({"replay": "input of the replay file not understood", "file": r})),
        }
        run.out.finish(rule);
        return;
    }

    for cmd in corner_cmds() {
        if let Some(tok) = cmd_tok(&cmd) {
            for (caps, caps_tok) in &all_caps {
                run.single(caps.clone(), caps_tok, &cmd, &tok);
            }
        }
    }
    for items in corner_streams() {
        for (caps, caps_tok) in &all_caps {
            run.stream(caps.clone(), caps_tok, &items);
        }
    }
    let n = if cfg.thorough { 300_000 } else { 9_000 };
    for _ in 0..n {
        let cmd = rnd_cmd(&mut rng);
        if let Some(tok) = cmd_tok(&cmd) {
            for (caps, caps_tok) in &all_caps {
                run.single(caps.clone(), caps_tok, &cmd, &tok);
            }
        }
    }
    let (ns, max_len) = if cfg.thorough { (12_000, 24) } else { (1_500, 12) };
    for _ in 0..ns {
        let items = rnd_stream(&mut rng, max_len);
        for (caps, caps_tok) in &all_caps {
            run.stream(caps.clone(), caps_tok, &items);
        }
    }
    run.out.finish(rule);
}
