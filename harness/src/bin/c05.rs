//! C05: `TTYEncoder::encode` for every command × colour depth × keyboard capability.
//! Correspondence: `c05 encode …` — the Lean model of the encoder must produce the same bytes.
//! Oracle: `c05 check …` — the verified Lean reference VT/xterm interpreter must read the
//! implementation's bytes as exactly the specified meaning of the command (independent of spelling).
use serde_json::json;
use std::collections::HashSet;
use surf_n_term::{
    Color as _, Face, FaceAttrs, FaceModify, Position, RGBA, UnderlineStyle,
    encoder::{ColorDepth, Encoder, TTYEncoder},
    terminal::{DecMode, TerminalCaps, TerminalColor, TerminalCommand},
};
use verif_harness::{Cfg, r#gen::Rng, guarded, out::Out, out::hex};

const MODES: [DecMode; 9] = [
    DecMode::VisibleCursor,
    DecMode::AutoWrap,
    DecMode::SixelScrolling,
    DecMode::MouseReport,
    DecMode::MouseMotions,
    DecMode::MouseSGR,
    DecMode::AltScreen,
    DecMode::SynchronizedOutput,
    DecMode::BracketedPaste,
];

fn enc(caps: TerminalCaps, cmd: TerminalCommand) -> Result<Vec<u8>, ()> {
    guarded(|| {
        let mut out = Vec::new();
        let mut e = TTYEncoder::new(caps);
        e.encode(&mut out, cmd).map(|_| out)
    })
    .and_then(|r| r.map_err(|_| ()))
}

/// palette index / grey level the implementation selects for a colour (C20 decides whether they
/// are the right ones; here they are inputs of the model)
fn reductions(c: RGBA) -> (usize, usize) {
    let face = Face::new(Some(c), None, FaceAttrs::EMPTY);
    let caps8 = TerminalCaps { depth: ColorDepth::EightBit, glyphs: false, kitty_keyboard: false };
    let capsg = TerminalCaps { depth: ColorDepth::Gray, glyphs: false, kitty_keyboard: false };
    let pal = enc(caps8, TerminalCommand::Face(face))
        .ok()
        .and_then(|b| {
            let s = String::from_utf8(b).ok()?;
            let s = s.strip_prefix("\x1b[0;38;5;")?.strip_suffix('m')?.to_string();
            s.parse::<usize>().ok()
        })
        .unwrap_or(999);
    let lvl = enc(capsg, TerminalCommand::Face(face))
        .ok()
        .and_then(|b| {
            let s = String::from_utf8(b).ok()?;
            match s.as_str() {
                "\x1b[0;30m" => Some(0),
                "\x1b[0;90m" => Some(1),
                "\x1b[0;37m" => Some(2),
                "\x1b[0;97m" => Some(3),
                _ => None,
            }
        })
        .unwrap_or(9);
    (pal, lvl)
}

fn color_tok(c: Option<RGBA>) -> String {
    match c {
        None => "-".to_string(),
        Some(c) => {
            let [r, g, b, a] = c.to_rgba();
            let (pal, lvl) = reductions(c);
            format!("{r},{g},{b},{a},{pal},{lvl}")
        }
    }
}

fn tri(v: Option<bool>) -> &'static str {
    match v {
        None => "-",
        Some(true) => "1",
        Some(false) => "0",
    }
}
fn bit(v: bool) -> &'static str {
    if v { "1" } else { "0" }
}
fn under_num(u: UnderlineStyle) -> usize {
    match u {
        UnderlineStyle::None => 0,
        UnderlineStyle::Straight => 1,
        UnderlineStyle::Double => 2,
        UnderlineStyle::Curly => 3,
        UnderlineStyle::Dotted => 4,
        UnderlineStyle::Dashed => 5,
    }
}
const UNDERS: [UnderlineStyle; 6] = [
    UnderlineStyle::None,
    UnderlineStyle::Straight,
    UnderlineStyle::Double,
    UnderlineStyle::Curly,
    UnderlineStyle::Dotted,
    UnderlineStyle::Dashed,
];

/// request text of a command (the Lean side parses it into `SurfModel.Vt.Cmd`)
fn cmd_tok(cmd: &TerminalCommand) -> Option<String> {
    use TerminalCommand::*;
    Some(match cmd {
        Char(c) => format!("char {}", *c as u32),
        Face(f) => {
            let a = f.attrs;
            format!(
                "face {} {} {} {} {} {} {} {}",
                color_tok(f.fg),
                color_tok(f.bg),
                under_num(a.underline()),
                bit(a.contains(FaceAttrs::BOLD)),
                bit(a.contains(FaceAttrs::ITALIC)),
                bit(a.contains(FaceAttrs::BLINK)),
                bit(a.contains(FaceAttrs::REVERSE)),
                bit(a.contains(FaceAttrs::STRIKE))
            )
        }
        FaceModify(m) => format!(
            "faceModify {} {} {} {} {} {} {} {} {}",
            bit(m.reset),
            color_tok(m.fg),
            color_tok(m.bg),
            m.underline.map(|u| under_num(u).to_string()).unwrap_or("-".into()),
            color_tok(m.underline_color),
            tri(m.bold),
            tri(m.italic),
            tri(m.blink),
            tri(m.strike)
        ),
        FaceGet => "faceGet".into(),
        DecModeSet { enable, mode } => format!("decModeSet {} {}", bit(*enable), *mode as usize),
        DecModeGet(mode) => format!("decModeGet {}", *mode as usize),
        CursorGet => "cursorGet".into(),
        CursorTo(p) => format!("cursorTo {} {}", p.row, p.col),
        CursorMove { row, col } => format!("cursorMove {row} {col}"),
        CursorSave => "cursorSave".into(),
        CursorRestore => "cursorRestore".into(),
        EraseLineLeft => "eraseLineLeft".into(),
        EraseLineRight => "eraseLineRight".into(),
        EraseLine => "eraseLine".into(),
        EraseScreen => "eraseScreen".into(),
        EraseChars(n) => format!("eraseChars {n}"),
        Scroll(n) => format!("scroll {n}"),
        ScrollRegion { start, end } => format!("scrollRegion {start} {end}"),
        Reset => "reset".into(),
        Termcap(names) => format!(
            "termcap {}",
            if names.is_empty() {
                "-".to_string()
            } else {
                names.iter().map(|n| hex(n.as_bytes())).collect::<Vec<_>>().join(",")
            }
        ),
        Color { name, color } => format!(
            "color {} {}",
            match name {
                TerminalColor::Background => "bg".to_string(),
                TerminalColor::Foreground => "fg".to_string(),
                TerminalColor::Palette(i) => i.to_string(),
            },
            color_tok(*color)
        ),
        Title(t) => format!("title {}", hex(t.as_bytes())),
        DeviceAttrs => "deviceAttrs".into(),
        KeyboardLevel(n) => format!("keyboardLevel {n}"),
        _ => return None,
    })
}

fn rnd_color(rng: &mut Rng) -> RGBA {
    let edge = [0u8, 1, 8, 47, 95, 128, 135, 254, 255];
    let mut ch = |rng: &mut Rng| if rng.chance(1, 3) { *rng.pick(&edge) } else { rng.below(256) as u8 };
    RGBA::new(ch(rng), ch(rng), ch(rng), 255)
}
fn opt_color(rng: &mut Rng) -> Option<RGBA> {
    if rng.chance(1, 3) { None } else { Some(rnd_color(rng)) }
}
fn rnd_usize(rng: &mut Rng) -> usize {
    match rng.below(6) {
        0 => rng.below(4) as usize,
        1 => rng.below(300) as usize,
        2 => 65535 - rng.below(3) as usize,
        3 => usize::MAX - rng.below(3) as usize,
        4 => (1usize << rng.below(64)) - rng.below(2) as usize,
        _ => rng.next() as usize,
    }
}
fn rnd_i32(rng: &mut Rng) -> i32 {
    match rng.below(6) {
        0 => 0,
        1 => rng.range(-5, 5) as i32,
        2 => i32::MIN + rng.below(2) as i32,
        3 => i32::MAX - rng.below(2) as i32,
        4 => rng.range(-100000, 100000) as i32,
        _ => rng.next() as i32,
    }
}
fn rnd_text(rng: &mut Rng, ascii_only: bool) -> String {
    let n = rng.below(12);
    let pool: Vec<char> = if ascii_only {
        "abcXYZ019_-+.".chars().collect()
    } else {
        "ab Z9;:[]\\m~é€𝄞漢\u{a0}\u{ff}".chars().collect()
    };
    (0..n).map(|_| *rng.pick(&pool)).collect()
}
fn rnd_char(rng: &mut Rng) -> char {
    loop {
        let cp = match rng.below(6) {
            0 => rng.range(0x20, 0x7e) as u32,
            1 => rng.range(0xa0, 0x7ff) as u32,
            2 => rng.range(0x800, 0xffff) as u32,
            3 => rng.range(0x10000, 0x10ffff) as u32,
            4 => *rng.pick(&[0x20u32, 0x7e, 0xa0, 0x7ff, 0x800, 0xd7ff, 0xe000, 0xffff, 0x10000, 0x10ffff]),
            _ => rng.below(0x110000) as u32,
        };
        if (0x7f..0xa0).contains(&cp) || cp < 0x20 {
            continue;
        }
        if let Some(c) = char::from_u32(cp) {
            return c;
        }
    }
}

fn rnd_face(rng: &mut Rng) -> Face {
    let mut attrs: FaceAttrs = (*rng.pick(&UNDERS)).into();
    for f in [FaceAttrs::BOLD, FaceAttrs::ITALIC, FaceAttrs::BLINK, FaceAttrs::REVERSE, FaceAttrs::STRIKE] {
        if rng.chance(1, 3) {
            attrs = attrs.insert(f);
        }
    }
    Face::new(opt_color(rng), opt_color(rng), attrs)
}
fn rnd_tri(rng: &mut Rng) -> Option<bool> {
    match rng.below(3) {
        0 => None,
        1 => Some(true),
        _ => Some(false),
    }
}
fn rnd_modify(rng: &mut Rng) -> FaceModify {
    FaceModify {
        reset: rng.chance(1, 3),
        fg: opt_color(rng),
        bg: opt_color(rng),
        underline: if rng.chance(1, 3) { None } else { Some(*rng.pick(&UNDERS)) },
        underline_color: if rng.chance(1, 2) { None } else { Some(rnd_color(rng)) },
        bold: rnd_tri(rng),
        italic: rnd_tri(rng),
        blink: rnd_tri(rng),
        strike: rnd_tri(rng),
    }
}

fn rnd_cmd(rng: &mut Rng) -> TerminalCommand {
    use TerminalCommand::*;
    match rng.below(26) {
        0 => Char(rnd_char(rng)),
        1 | 2 | 3 => Face(rnd_face(rng)),
        4 | 5 | 6 => FaceModify(rnd_modify(rng)),
        7 => FaceGet,
        8 => DecModeSet { enable: rng.chance(1, 2), mode: *rng.pick(&MODES) },
        9 => DecModeGet(*rng.pick(&MODES)),
        10 => CursorGet,
        11 => CursorTo(Position::new(rnd_usize(rng), rnd_usize(rng))),
        12 => CursorMove { row: rnd_i32(rng), col: rnd_i32(rng) },
        13 => if rng.chance(1, 2) { CursorSave } else { CursorRestore },
        14 => match rng.below(4) {
            0 => EraseLineLeft,
            1 => EraseLineRight,
            2 => EraseLine,
            _ => EraseScreen,
        },
        15 => EraseChars(rnd_usize(rng)),
        16 => Scroll(rnd_i32(rng)),
        17 => ScrollRegion { start: rnd_usize(rng), end: rnd_usize(rng) },
        18 => Reset,
        19 => Termcap((0..rng.below(4)).map(|_| rnd_text(rng, true)).filter(|s| !s.is_empty()).collect()),
        20 | 21 => Color {
            name: match rng.below(3) {
                0 => TerminalColor::Background,
                1 => TerminalColor::Foreground,
                _ => TerminalColor::Palette(rng.below(300) as usize),
            },
            color: opt_color(rng),
        },
        22 => Title(rnd_text(rng, false)),
        23 => DeviceAttrs,
        24 => KeyboardLevel(rng.below(40) as usize),
        _ => DecModeSet { enable: rng.chance(1, 2), mode: DecMode::AltScreen },
    }
}

fn corner_cmds() -> Vec<TerminalCommand> {
    use TerminalCommand::*;
    let mut v = vec![
        Scroll(i32::MIN),
        Scroll(i32::MAX),
        Scroll(0),
        Scroll(-1),
        CursorMove { row: i32::MIN, col: i32::MIN },
        CursorMove { row: i32::MAX, col: i32::MIN },
        CursorMove { row: 0, col: 0 },
        CursorMove { row: -1, col: 1 },
        CursorTo(Position::new(usize::MAX, usize::MAX)),
        CursorTo(Position::new(0, 0)),
        ScrollRegion { start: usize::MAX - 1, end: usize::MAX },
        ScrollRegion { start: 5, end: 5 },
        ScrollRegion { start: 6, end: 5 },
        ScrollRegion { start: 0, end: 1 },
        EraseChars(0),
        EraseChars(usize::MAX),
        Termcap(vec![]),
        Termcap(vec!["TN".into(), "Co".into(), "RGB".into()]),
        Title(String::new()),
        Title("x;y".into()),
        FaceModify(surf_n_term::FaceModify::default()),
        FaceModify(surf_n_term::FaceModify { bold: Some(false), ..Default::default() }),
        FaceModify(surf_n_term::FaceModify { underline: Some(UnderlineStyle::None), ..Default::default() }),
        Face(surf_n_term::Face::default()),
        KeyboardLevel(0),
    ];
    for mode in MODES {
        for enable in [false, true] {
            v.push(DecModeSet { enable, mode });
        }
        v.push(DecModeGet(mode));
    }
    for u in UNDERS {
        v.push(Face(surf_n_term::Face::new(None, None, u.into())));
        v.push(FaceModify(surf_n_term::FaceModify { underline: Some(u), ..Default::default() }));
    }
    v
}

fn main() {
    let cfg = Cfg::from_env();
    let mut out: Out = cfg.out();
    verif_harness::silence_panics();
    let mut rng = Rng::new(cfg.seed);
    let n = if cfg.thorough { 300_000 } else { 12_000 };
    let mut seen = HashSet::new();
    let depths = [(ColorDepth::TrueColor, 'T'), (ColorDepth::EightBit, 'E'), (ColorDepth::Gray, 'G')];

    let mut one = |out: &mut Out, cmd: TerminalCommand| {
        let Some(tok) = cmd_tok(&cmd) else { return };
        for (depth, dc) in depths {
            for kitty in [false, true] {
                let caps = TerminalCaps { depth, glyphs: false, kitty_keyboard: kitty };
                let caps_tok = format!("{dc}{}", if kitty { 'k' } else { 'n' });
                let key = format!("{caps_tok} {tok}");
                let fresh = seen.insert(key.clone());
                let kind = tok.split(' ').next().unwrap_or("").to_string();
                out.case(&key, true);
                if !fresh {
                    continue;
                }
                out.hist(&kind);
                match enc(caps, cmd.clone()) {
                    Err(()) => {
                        out.corr(&format!("c05 encode {caps_tok} {tok}"), "panic-or-error");
                        out.fail(
                            "encode panicked or returned an error",
                            json!({"caps": caps_tok, "cmd": tok}),
                            json!("bytes"),
                            json!("panic"),
                        );
                    }
                    Ok(bytes) => {
                        let hx = hex(&bytes);
                        out.corr(&format!("c05 encode {caps_tok} {tok}"), &hx);
                        // domain of the property: at least one capability name (an empty
                        // XTGETTCAP request is read by xterm as a request for the empty name)
                        let in_domain = !matches!(&cmd, TerminalCommand::Termcap(names) if names.is_empty());
                        if in_domain {
                            out.oracle(&format!("c05 check {caps_tok} {hx} {tok}"), "ok");
                        }
                        if out.evaluations % 4001 == 1 {
                            out.sample(json!({"caps": caps_tok, "cmd": tok, "bytes": String::from_utf8_lossy(&bytes)}));
                        }
                    }
                }
            }
        }
    };

    if let Some(r) = &cfg.replay {
        // replay file: failure.input.request holds the `c05 check …` request; re-run is done by the
        // Lean side on the recorded bytes, and the encoder is re-run on nothing here
        out.sample(json!({"replay": r["failure"]["input"]}));
    }
    for cmd in corner_cmds() {
        one(&mut out, cmd);
    }
    for _ in 0..n {
        let cmd = rnd_cmd(&mut rng);
        one(&mut out, cmd);
    }
    out.finish("white-box corner commands first, then random commands of every kind (extreme usize / i32 parameters, every DEC mode, every underline style x attribute combination, colours with channel values at cube/grey boundaries, printable scalar values from every UTF-8 length class, titles with non-ASCII text and `;`), each under 3 colour depths x kitty keyboard on/off; distinct by (caps, command text)");
}
