//! C03: decoded events do not depend on read boundaries and follow leftmost-longest rules.
//!
//! Part A (tokenizer, any automaton): random pattern sets over {a,b,c} built with the public NFA API,
//!   run through the private `MatcherDecoder` (hook `VerifTokenizer`) under random partitions.
//!   C lines: Lean model of the code (`feedAll`, literal `rescheduled` stack) on the dumped DFA.
//!   O lines: verified Lean spec `tokenize` on the dumped DFA must reproduce the items.
//!   Rust oracle: partition independence, byte conservation, reference maximal munch on the dump.
//! Part B (production): `TTYEventDecoder`, `TTYCommandDecoder`, `Utf8Decoder` on generated streams
//!   (all escape sequence families, UTF-8 text, garbage) under >= 4 partitions each.
//!   Rust oracle: identical events under every partition (independent of any model); item boundaries
//!   (from the private tokenizer over the production automata) conserve bytes and equal the reference
//!   maximal munch. O lines: Lean `tokenize` on the dumped production DFA. C lines: Lean model.
#[path = "c04/events.rs"]
mod events;
use serde_json::{Value, json};
use std::io::{Cursor, Write as _};
use surf_n_term::common::IOQueue;
use std::path::PathBuf;
use std::sync::Mutex;
use surf_n_term::automata::NFA;
use surf_n_term::decoder::verif_c03::{
    DfaStateDump, VerifItem, VerifTokenizer, command_dfa, event_dfa, utf8_dfa,
};
use surf_n_term::decoder::{Decoder, TTYCommandDecoder, TTYEventDecoder, Utf8Decoder};
use verif_harness::{
    Cfg, guarded,
    out::{Out, hex},
    r#gen::Rng,
};

// ---------------------------------------------------------------- aborts

/// The case being run. A non-unwinding panic inside the crate (e.g. `from_u32_unchecked` debug
/// assertion) cannot be caught; the SIGABRT handler then records the case as a failure and ends the run.
static CURRENT: Mutex<Option<(PathBuf, Value)>> = Mutex::new(None);

fn set_current(v: &Value) {
    if let Ok(mut g) = CURRENT.lock() {
        if let Some(c) = g.as_mut() {
            c.1 = v.clone();
        }
    }
}

extern "C" fn on_abort(_sig: libc::c_int) {
    if let Ok(g) = CURRENT.try_lock() {
        if let Some((dir, case)) = g.as_ref() {
            let stats = json!({"evaluations": 0, "distinct_nontrivial": 0, "rule": "aborted", "lines": 0,
                "histogram": {}, "samples": [], "extra": {}, "oracle_failure_count": 1,
                "oracle_failures": [{"what": "the crate aborted (non-unwinding panic) inside the tokenizer over caller supplied patterns (no payload decoder involved)",
                    "input": case, "expected": "no abort", "got": "SIGABRT"}]});
            let _ = std::fs::write(dir.join("stats.json"), serde_json::to_string_pretty(&stats).unwrap());
        }
    }
    unsafe { libc::_exit(0) }
}

/// run `f` in a forked child; `false` if the child was killed by a signal (abort)
fn survives(f: impl FnOnce()) -> bool {
    unsafe {
        let pid = libc::fork();
        if pid < 0 {
            return true;
        }
        if pid == 0 {
            libc::signal(libc::SIGABRT, libc::SIG_DFL);
            let _ = std::panic::catch_unwind(std::panic::AssertUnwindSafe(f));
            libc::_exit(0);
        }
        let mut status: libc::c_int = 0;
        libc::waitpid(pid, &mut status, 0);
        !libc::WIFSIGNALED(status)
    }
}

fn len_bucket(n: usize) -> &'static str {
    match n {
        0..=9 => "0-9",
        10..=99 => "10-99",
        100..=299 => "100-299",
        300..=999 => "300-999",
        1000..=2999 => "1000-2999",
        _ => "3000+",
    }
}

fn install_abort_hook(outdir: &std::path::Path) {
    *CURRENT.lock().unwrap() = Some((outdir.to_path_buf(), Value::Null));
    verif_harness::silence_panics();
    unsafe {
        libc::signal(libc::SIGABRT, on_abort as *const () as libc::sighandler_t);
    }
}

// ---------------------------------------------------------------- patterns

#[derive(Clone, Debug)]
enum Re {
    Lit(Vec<u8>),
    Seq(Vec<Re>),
    Alt(Vec<Re>),
    Plus(Box<Re>),
    Star(Box<Re>),
    Opt(Box<Re>),
    /// byte class built with `NFA::predicate`: inclusive ranges
    Set(Vec<(u8, u8)>),
}

fn in_ranges(rs: &[(u8, u8)], b: u8) -> bool {
    rs.iter().any(|(lo, hi)| *lo <= b && b <= *hi)
}

/// every byte except `x`
fn all_but(x: u8) -> Vec<(u8, u8)> {
    let mut v = Vec::new();
    if x > 0 {
        v.push((0, x - 1));
    }
    if x < 255 {
        v.push((x + 1, 255));
    }
    v
}

impl Re {
    fn nfa(&self) -> NFA<()> {
        match self {
            Re::Lit(s) => NFA::from(std::str::from_utf8(s).unwrap()),
            Re::Seq(v) => NFA::sequence(v.iter().map(|r| r.nfa())),
            Re::Alt(v) => NFA::choice(v.iter().map(|r| r.nfa())),
            Re::Plus(r) => r.nfa().some(),
            Re::Star(r) => r.nfa().many(),
            Re::Opt(r) => r.nfa().optional(),
            Re::Set(rs) => {
                let rs = rs.clone();
                NFA::predicate(move |b| in_ranges(&rs, b))
            }
        }
    }
    fn show(&self) -> String {
        match self {
            Re::Lit(s) => String::from_utf8_lossy(s).to_string(),
            Re::Seq(v) => v.iter().map(|r| r.show()).collect::<Vec<_>>().join(""),
            Re::Alt(v) => format!("({})", v.iter().map(|r| r.show()).collect::<Vec<_>>().join("|")),
            Re::Plus(r) => format!("({})+", r.show()),
            Re::Star(r) => format!("({})*", r.show()),
            Re::Opt(r) => format!("({})?", r.show()),
            Re::Set(rs) => format!("[{}]", rs.iter().map(|(a, b)| format!("{a:02x}-{b:02x}")).collect::<Vec<_>>().join(",")),
        }
    }
    fn to_json(&self) -> Value {
        match self {
            Re::Lit(s) => json!(["lit", String::from_utf8_lossy(s)]),
            Re::Seq(v) => json!(["seq", v.iter().map(|r| r.to_json()).collect::<Vec<_>>()]),
            Re::Alt(v) => json!(["alt", v.iter().map(|r| r.to_json()).collect::<Vec<_>>()]),
            Re::Plus(r) => json!(["plus", r.to_json()]),
            Re::Star(r) => json!(["star", r.to_json()]),
            Re::Opt(r) => json!(["opt", r.to_json()]),
            Re::Set(rs) => json!(["set", rs.iter().map(|(a, b)| json!([a, b])).collect::<Vec<_>>()]),
        }
    }
    /// bytes that decide how the pattern treats any byte: one representative of every region of the
    /// alphabet delimited by the literals' bytes and the classes' bounds (plus both ends)
    fn alphabet(&self, out: &mut Vec<u8>) {
        let mut push = |b: u8| {
            for x in [b.wrapping_sub(1), b, b.wrapping_add(1)] {
                if !out.contains(&x) {
                    out.push(x);
                }
            }
        };
        match self {
            Re::Lit(s) => s.iter().for_each(|b| push(*b)),
            Re::Seq(v) | Re::Alt(v) => v.iter().for_each(|r| r.alphabet(out)),
            Re::Plus(r) | Re::Star(r) | Re::Opt(r) => r.alphabet(out),
            Re::Set(rs) => rs.iter().for_each(|(a, b)| {
                push(*a);
                push(*b);
            }),
        }
    }
    fn from_json(v: &Value) -> Option<Re> {
        let a = v.as_array()?;
        let list = |x: &Value| x.as_array()?.iter().map(Re::from_json).collect::<Option<Vec<_>>>();
        Some(match a.first()?.as_str()? {
            "lit" => Re::Lit(a.get(1)?.as_str()?.as_bytes().to_vec()),
            "seq" => Re::Seq(list(a.get(1)?)?),
            "alt" => Re::Alt(list(a.get(1)?)?),
            "plus" => Re::Plus(Box::new(Re::from_json(a.get(1)?)?)),
            "star" => Re::Star(Box::new(Re::from_json(a.get(1)?)?)),
            "opt" => Re::Opt(Box::new(Re::from_json(a.get(1)?)?)),
            "set" => Re::Set(
                a.get(1)?
                    .as_array()?
                    .iter()
                    .map(|p| Some((p.get(0)?.as_u64()? as u8, p.get(1)?.as_u64()? as u8)))
                    .collect::<Option<Vec<_>>>()?,
            ),
            _ => return None,
        })
    }
}

const ABC: &[u8] = b"abc";

fn word(rng: &mut Rng, lo: u64, hi: u64) -> Vec<u8> {
    let n = lo + rng.below(hi - lo + 1);
    (0..n).map(|_| *rng.pick(ABC)).collect()
}

fn lit1(rng: &mut Rng) -> Re {
    Re::Lit(vec![*rng.pick(ABC)])
}

/// one pattern sharing a prefix with `spine`
fn gen_pattern(rng: &mut Rng, spine: &[u8]) -> Re {
    let k = 1 + rng.below(spine.len() as u64) as usize;
    let prefix = spine[..k].to_vec();
    match rng.below(9) {
        0 | 1 => Re::Lit(prefix),
        2 => {
            let mut p = prefix;
            p.extend(word(rng, 1, 3));
            Re::Lit(p)
        }
        3 => Re::Seq(vec![Re::Lit(prefix), Re::Plus(Box::new(lit1(rng)))]),
        4 => Re::Lit(word(rng, 1, 3)),
        5 => Re::Seq(vec![Re::Lit(prefix), Re::Opt(Box::new(lit1(rng))), lit1(rng)]),
        6 => Re::Seq(vec![
            Re::Alt(vec![lit1(rng), Re::Lit(word(rng, 2, 2))]),
            Re::Star(Box::new(lit1(rng))),
            lit1(rng),
        ]),
        7 => Re::Seq(vec![
            Re::Lit(prefix),
            Re::Plus(Box::new(Re::Alt(vec![lit1(rng), Re::Lit(word(rng, 2, 2))]))),
            Re::Lit(word(rng, 1, 2)),
        ]),
        // may match the empty string: the start state is accepting
        _ => Re::Seq(vec![Re::Star(Box::new(lit1(rng))), Re::Opt(Box::new(Re::Lit(prefix)))]),
    }
}

/// patterns over the whole byte alphabet (classes built with `NFA::predicate`, "anything but" payloads,
/// optional groups that begin with a loop) next to the plain ones
fn gen_wide_pattern(rng: &mut Rng, spine: &[u8]) -> Re {
    let l = |b: u8| Re::Lit(vec![b]);
    let a = *rng.pick(ABC);
    let b = *rng.pick(ABC);
    match rng.below(7) {
        // a [^b]* b : payload of anything but the closing byte (0x00 and 0xff included)
        0 | 1 => Re::Seq(vec![l(a), Re::Star(Box::new(Re::Set(all_but(b)))), l(b)]),
        // high bytes / the whole alphabet / the last symbol alone
        2 => Re::Seq(vec![l(a), Re::Plus(Box::new(Re::Set(vec![(0x80, 0xff)])))]),
        3 => Re::Seq(vec![l(a), Re::Set(vec![(*rng.pick(&[0u8, 0x1a, 0x7f, 0xfe, 0xff]), 0xff)]), l(b)]),
        // c ((ab)+ c)? b : the optional group starts with a loop (its start state has an incoming edge)
        4 | 5 => Re::Seq(vec![
            l(a),
            Re::Opt(Box::new(Re::Seq(vec![Re::Plus(Box::new(Re::Lit(word(rng, 1, 2)))), l(*rng.pick(ABC))]))),
            l(b),
        ]),
        // (x* y)? z : likewise with a star
        _ => Re::Seq(vec![
            Re::Opt(Box::new(Re::Seq(vec![Re::Star(Box::new(l(a))), l(b)]))),
            Re::Lit(spine[..1 + rng.below(spine.len() as u64) as usize].to_vec()),
        ]),
    }
}

fn gen_patterns(rng: &mut Rng) -> Vec<Re> {
    let spine = word(rng, 3, 6);
    let n = 3 + rng.below(6);
    let wide = rng.chance(1, 3);
    (0..n)
        .map(|_| if wide && rng.chance(1, 2) { gen_wide_pattern(rng, &spine) } else { gen_pattern(rng, &spine) })
        .collect()
}

fn gen_input(rng: &mut Rng, max: u64) -> Vec<u8> {
    let n = rng.below(max + 1);
    let foreign = rng.chance(1, 3);
    (0..n)
        .map(|_| {
            if foreign && rng.chance(1, 6) {
                // bytes outside the letters, both ends of the alphabet included
                *rng.pick(&[b'x', 0x00, 0x1a, 0x7f, 0x80, 0xfe, 0xff, 0xff])
            } else {
                *rng.pick(ABC)
            }
        })
        .collect()
}

// ---------------------------------------------------------------- partitions

fn partition(rng: &mut Rng, data: &[u8], mode: u64) -> Vec<Vec<u8>> {
    match mode {
        0 => vec![data.to_vec()],
        1 if data.is_empty() => vec![vec![]],
        1 => data.iter().map(|b| vec![*b]).collect(),
        2 => {
            // one byte at a time with empty reads in between and at both ends
            let mut out = vec![vec![]];
            for b in data {
                out.push(vec![*b]);
                if rng.chance(1, 3) {
                    out.push(vec![]);
                }
            }
            out.push(vec![]);
            out
        }
        3 => {
            // two pieces
            let cut = rng.below(data.len() as u64 + 1) as usize;
            vec![data[..cut].to_vec(), data[cut..].to_vec()]
        }
        _ => {
            // arbitrary cuts, empty reads allowed
            let mut out = Vec::new();
            let mut pos = 0;
            while pos < data.len() {
                if rng.chance(1, 6) {
                    out.push(vec![]);
                }
                let span = 1 + rng.below(8);
                let n = 1 + rng.below(span) as usize;
                let end = (pos + n).min(data.len());
                out.push(data[pos..end].to_vec());
                pos = end;
            }
            if rng.chance(1, 4) {
                out.push(vec![]);
            }
            if out.is_empty() {
                out.push(vec![]);
            }
            out
        }
    }
}

/// every way of cutting `data` into three consecutive (possibly empty) pieces
fn all_three_pieces(data: &[u8]) -> Vec<Vec<Vec<u8>>> {
    let mut out = Vec::new();
    for i in 0..=data.len() {
        for j in i..=data.len() {
            out.push(vec![data[..i].to_vec(), data[i..j].to_vec(), data[j..].to_vec()]);
        }
    }
    out
}

fn chunks_str(chunks: &[Vec<u8>]) -> String {
    chunks.iter().map(|c| hex(c)).collect::<Vec<_>>().join("/")
}

fn parse_chunks(s: &str) -> Vec<Vec<u8>> {
    s.split('/').map(unhex).collect()
}

fn unhex(s: &str) -> Vec<u8> {
    if s == "-" {
        return vec![];
    }
    (0..s.len() / 2).map(|i| u8::from_str_radix(&s[2 * i..2 * i + 2], 16).unwrap_or(0)).collect()
}

// ---------------------------------------------------------------- DFA on the wire, reference tokenizer

fn hexne(b: &[u8]) -> String {
    if b.is_empty() { String::new() } else { hex(b) }
}

/// request line installing a dumped DFA in the driver (tags are not sent: tie-breaking between
/// patterns is not part of C03)
fn dfa_request(name: &str, dfa: &[DfaStateDump]) -> (String, String) {
    let flags: String = dfa
        .iter()
        .map(|s| char::from(b'0' + (s.accepting as u8) + 2 * (s.terminal as u8)))
        .collect();
    let mut edges = Vec::new();
    for (i, s) in dfa.iter().enumerate() {
        for (b, t) in &s.edges {
            edges.push(format!("{i}.{b}.{t}"));
        }
    }
    let n_edges = edges.len();
    let edges = if edges.is_empty() { "-".to_string() } else { edges.join(",") };
    let term_ok = dfa.iter().all(|s| !s.terminal || s.edges.is_empty());
    (
        format!("c03 dfa {name} {} {flags} - {edges}", dfa.len()),
        format!("ok {} {n_edges} termok={}", dfa.len(), term_ok as u8),
    )
}

/// `is_terminal` must mean exactly "no outgoing edge": `terminal => no edge` is the hypothesis of
/// C03_tokenize, `no edge => terminal` is what lets the decoder emit a complete sequence at once
fn check_terminal_flags(out: &mut Out, dfa: &[DfaStateDump], input: Value) {
    for (i, s) in dfa.iter().enumerate() {
        if s.terminal != s.edges.is_empty() {
            out.fail(
                "DFA terminal flag differs from 'state has no outgoing edge'",
                input.clone(),
                json!(format!("state {i}: terminal = {}", s.edges.is_empty())),
                json!(format!("state {i}: terminal = {}, {} edges", s.terminal, s.edges.len())),
            );
            return;
        }
    }
}

struct RefDfa {
    table: Vec<[u32; 256]>, // 0 = none, t + 1
    acc: Vec<bool>,
    term: Vec<bool>,
}

impl RefDfa {
    fn new(dfa: &[DfaStateDump]) -> Self {
        let mut table = vec![[0u32; 256]; dfa.len()];
        for (i, s) in dfa.iter().enumerate() {
            for (b, t) in &s.edges {
                table[i][*b as usize] = *t as u32 + 1;
            }
        }
        RefDfa {
            table,
            acc: dfa.iter().map(|s| s.accepting).collect(),
            term: dfa.iter().map(|s| s.terminal).collect(),
        }
    }

    /// Independent statement of leftmost-longest tokenisation of a stream prefix: scan from the
    /// current position while the automaton is alive, remember the last accepting position; the item is
    /// decided when the scan dies or reaches an accepting state without continuation; undecided
    /// rest is pending. Returns (items as (tag or None for raw, bytes), pending).
    fn tokenize(&self, input: &[u8]) -> (Vec<(Option<usize>, Vec<u8>)>, Vec<u8>, Vec<usize>) {
        let mut items = Vec::new();
        let mut tails = Vec::new(); // bytes read beyond each item when it was emitted (= rescheduled)
        let mut pos = 0;
        while pos < input.len() {
            let mut s = 0usize;
            let mut i = pos;
            let mut last: Option<(usize, usize)> = None;
            let mut decided = false;
            while i < input.len() {
                let t = self.table[s][input[i] as usize];
                if t == 0 {
                    decided = true;
                    break;
                }
                s = t as usize - 1;
                i += 1;
                if self.acc[s] {
                    last = Some((i, s));
                    if self.term[s] {
                        decided = true;
                        break;
                    }
                }
            }
            if !decided {
                break;
            }
            // `i` bytes were read without getting stuck; if the scan died, one more byte was looked at
            let seen = if i < input.len() && self.table[s][input[i] as usize] == 0 && !(self.acc[s] && self.term[s]) { i + 1 } else { i };
            match last {
                Some((e, _)) => {
                    items.push((Some(0), input[pos..e].to_vec()));
                    tails.push(seen - e);
                    pos = e;
                }
                None => {
                    let e = i.max(pos + 1);
                    items.push((None, input[pos..e].to_vec()));
                    tails.push(seen.max(e) - e);
                    pos = e;
                }
            }
        }
        (items, input[pos..].to_vec(), tails)
    }
}

/// which pattern wins a tie is not part of C03: a recognised item is shown as `t0:<bytes>`
fn show_item(tag: Option<usize>, bytes: &[u8]) -> String {
    match tag {
        Some(_) => format!("t0:{}", hexne(bytes)),
        None => format!("r:{}", hexne(bytes)),
    }
}

fn show_bounds(items: &[(Option<usize>, Vec<u8>)]) -> String {
    if items.is_empty() {
        "-".to_string()
    } else {
        items.iter().map(|(_, b)| format!("i:{}", hexne(b))).collect::<Vec<_>>().join(",")
    }
}

fn show_items(items: &[(Option<usize>, Vec<u8>)]) -> String {
    if items.is_empty() {
        "-".to_string()
    } else {
        items.iter().map(|(t, b)| show_item(*t, b)).collect::<Vec<_>>().join(",")
    }
}

// ---------------------------------------------------------------- part A oracle: the patterns themselves

/// Regular expression in derivative normal form (smart constructors keep `Empty` = empty language
/// syntactic: a value is `Empty` iff it matches nothing).
#[derive(Clone, PartialEq, Eq, Debug)]
enum Dv {
    Empty,
    Eps,
    Byte(u8),
    Set(Vec<(u8, u8)>),
    Seq(Box<Dv>, Box<Dv>),
    Alt(Vec<Dv>),
    Star(Box<Dv>),
}

fn dv_seq(a: Dv, b: Dv) -> Dv {
    match (a, b) {
        (Dv::Empty, _) | (_, Dv::Empty) => Dv::Empty,
        (Dv::Eps, x) | (x, Dv::Eps) => x,
        (a, b) => Dv::Seq(Box::new(a), Box::new(b)),
    }
}

fn dv_alt(xs: Vec<Dv>) -> Dv {
    let mut out: Vec<Dv> = Vec::new();
    for x in xs {
        match x {
            Dv::Empty => {}
            Dv::Alt(ys) => {
                for y in ys {
                    if !out.contains(&y) {
                        out.push(y);
                    }
                }
            }
            x => {
                if !out.contains(&x) {
                    out.push(x);
                }
            }
        }
    }
    match out.len() {
        0 => Dv::Empty,
        1 => out.pop().unwrap(),
        _ => Dv::Alt(out),
    }
}

fn dv_star(x: Dv) -> Dv {
    match x {
        Dv::Empty | Dv::Eps => Dv::Eps,
        Dv::Star(y) => Dv::Star(y),
        x => Dv::Star(Box::new(x)),
    }
}

fn dv_of(re: &Re) -> Dv {
    match re {
        Re::Lit(s) => s.iter().rev().fold(Dv::Eps, |acc, b| dv_seq(Dv::Byte(*b), acc)),
        Re::Seq(v) => v.iter().rev().fold(Dv::Eps, |acc, r| dv_seq(dv_of(r), acc)),
        Re::Alt(v) => dv_alt(v.iter().map(dv_of).collect()),
        Re::Plus(r) => dv_seq(dv_of(r), dv_star(dv_of(r))),
        Re::Star(r) => dv_star(dv_of(r)),
        Re::Opt(r) => dv_alt(vec![Dv::Eps, dv_of(r)]),
        Re::Set(rs) => {
            if rs.iter().any(|(a, b)| a <= b) {
                Dv::Set(rs.clone())
            } else {
                Dv::Empty
            }
        }
    }
}

fn dv_nullable(d: &Dv) -> bool {
    match d {
        Dv::Empty | Dv::Byte(_) | Dv::Set(_) => false,
        Dv::Eps | Dv::Star(_) => true,
        Dv::Seq(a, b) => dv_nullable(a) && dv_nullable(b),
        Dv::Alt(v) => v.iter().any(dv_nullable),
    }
}

/// Brzozowski derivative
fn dv_deriv(d: &Dv, c: u8) -> Dv {
    match d {
        Dv::Empty | Dv::Eps => Dv::Empty,
        Dv::Byte(b) => {
            if *b == c {
                Dv::Eps
            } else {
                Dv::Empty
            }
        }
        Dv::Set(rs) => {
            if in_ranges(rs, c) {
                Dv::Eps
            } else {
                Dv::Empty
            }
        }
        Dv::Seq(a, b) => {
            let left = dv_seq(dv_deriv(a, c), (**b).clone());
            if dv_nullable(a) { dv_alt(vec![left, dv_deriv(b, c)]) } else { left }
        }
        Dv::Alt(v) => dv_alt(v.iter().map(|x| dv_deriv(x, c)).collect()),
        Dv::Star(x) => dv_seq(dv_deriv(x, c), Dv::Star(x.clone())),
    }
}

/// some non-empty word is matched (`alphabet`: a representative of every class of bytes the patterns
/// can tell apart)
fn dv_extendable(d: &Dv, alphabet: &[u8]) -> bool {
    alphabet.iter().any(|c| dv_deriv(d, *c) != Dv::Empty)
}

/// Leftmost-longest tokenisation of a received stream with respect to a SET OF PATTERNS, computed from
/// the patterns alone (no automaton of the crate involved): at each position follow the derivatives of
/// all patterns; remember the last position at which some pattern matched and which ones did; the item is
/// due when no pattern can match any continuation of what was read (all derivatives empty: stuck) or the
/// last byte completed a match that no pattern can extend; otherwise the rest is pending.
/// Returns items (`Some(set of matching patterns)` or `None` for unrecognised, bytes), pending, tails.
#[allow(clippy::type_complexity)]
fn pattern_tokenize(pats: &[Dv], alphabet: &[u8], input: &[u8]) -> (Vec<(Option<Vec<usize>>, Vec<u8>)>, Vec<u8>, Vec<usize>) {
    let mut items = Vec::new();
    let mut tails = Vec::new();
    let mut pos = 0;
    while pos < input.len() {
        let mut ds: Vec<Dv> = pats.to_vec();
        let mut i = pos; // bytes pos..i were read without getting stuck
        let mut last: Option<(usize, Vec<usize>)> = None;
        let mut decided = false;
        let mut seen = pos;
        while i < input.len() {
            let next: Vec<Dv> = ds.iter().map(|d| dv_deriv(d, input[i])).collect();
            seen = i + 1;
            if next.iter().all(|d| *d == Dv::Empty) {
                decided = true; // stuck on input[i]
                break;
            }
            ds = next;
            i += 1;
            let matching: Vec<usize> = ds.iter().enumerate().filter(|(_, d)| dv_nullable(d)).map(|(k, _)| k).collect();
            if !matching.is_empty() {
                last = Some((i, matching));
                if !ds.iter().any(|d| dv_extendable(d, alphabet)) {
                    decided = true; // complete: nothing longer can match
                    break;
                }
            }
        }
        if !decided {
            break;
        }
        match last {
            Some((e, set)) => {
                items.push((Some(set), input[pos..e].to_vec()));
                tails.push(seen - e);
                pos = e;
            }
            None => {
                let e = i.max(pos + 1);
                items.push((None, input[pos..e].to_vec()));
                tails.push(seen.max(e) - e);
                pos = e;
            }
        }
    }
    (items, input[pos..].to_vec(), tails)
}

fn show_pat_items(items: &[(Option<Vec<usize>>, Vec<u8>)]) -> String {
    if items.is_empty() {
        "-".to_string()
    } else {
        items
            .iter()
            .map(|(t, b)| match t {
                Some(set) => format!("t{set:?}:{}", hexne(b)),
                None => format!("r:{}", hexne(b)),
            })
            .collect::<Vec<_>>()
            .join(",")
    }
}

fn hist_tails(out: &mut Out, part: &str, tails: &[usize]) {
    for t in tails {
        let bucket = match *t {
            0 => "0",
            1 => "1",
            2 => "2",
            3..=4 => "3-4",
            5..=9 => "5-9",
            10..=99 => "10-99",
            _ => "100+",
        };
        out.hist(&format!("{part}:rescheduled-tail:{bucket}"));
    }
}

// ---------------------------------------------------------------- running the private tokenizer

struct TokRun {
    /// items per read: (tag or None for raw, bytes as reported / derived, end offset)
    per_read: Vec<Vec<(Option<usize>, Vec<u8>)>>,
    buffer: Vec<u8>,
    resched: Vec<u8>,
    /// conservation / consumption problems noticed while running (oracle, in Rust)
    problems: Vec<String>,
}

impl TokRun {
    fn flat(&self) -> Vec<(Option<usize>, Vec<u8>)> {
        self.per_read.iter().flatten().cloned().collect()
    }
    fn answer_bounds(&self) -> String {
        format!(
            "{} buf={} rs={}",
            self.per_read.iter().map(|r| show_bounds(r)).collect::<Vec<_>>().join("/"),
            hex(&self.buffer),
            hex(&self.resched)
        )
    }
    fn answer(&self) -> String {
        format!(
            "{} buf={} rs={}",
            self.per_read.iter().map(|r| show_items(r)).collect::<Vec<_>>().join("/"),
            hex(&self.buffer),
            hex(&self.resched)
        )
    }
}

trait Tok {
    fn feed_by_decode(&mut self, chunk: &[u8]) -> (Vec<VerifItem>, usize);
    fn feed(&mut self, chunk: &[u8]) -> (Vec<VerifItem>, usize);
    fn buffer(&self) -> Vec<u8>;
    fn rescheduled(&self) -> Vec<u8>;
}

macro_rules! impl_tok {
    ($t:ty) => {
        impl Tok for VerifTokenizer<$t> {
            fn feed_by_decode(&mut self, chunk: &[u8]) -> (Vec<VerifItem>, usize) {
                VerifTokenizer::feed_by_decode(self, chunk)
            }
            fn feed(&mut self, chunk: &[u8]) -> (Vec<VerifItem>, usize) {
                VerifTokenizer::feed(self, chunk)
            }
            fn buffer(&self) -> Vec<u8> {
                VerifTokenizer::buffer(self)
            }
            fn rescheduled(&self) -> Vec<u8> {
                VerifTokenizer::rescheduled(self)
            }
        }
    };
}
impl_tok!((usize, Vec<u8>));
impl_tok!(surf_n_term::TerminalEvent);
impl_tok!(surf_n_term::TerminalCommand);

/// Feed `chunks`; `by_decode`: repeated `decode` (exact offsets per item) or `decode_into`.
/// Byte conservation is checked here: every item must cover exactly the next bytes of the stream.
fn run_tok(tok: &mut dyn Tok, chunks: &[Vec<u8>], by_decode: bool, tagged: bool) -> TokRun {
    let stream: Vec<u8> = chunks.concat();
    let mut per_read = Vec::new();
    let mut problems = Vec::new();
    let mut pos = 0usize; // stream offset accounted for by items so far
    for chunk in chunks {
        let (items, unread) = if by_decode { tok.feed_by_decode(chunk) } else { tok.feed(chunk) };
        if unread != 0 {
            problems.push(format!("read not consumed completely: {unread} bytes left"));
        }
        let mut row = Vec::new();
        for it in items {
            let tag = if it.is_match { Some(if tagged { it.index.map(|i| i + 1).unwrap_or(0) } else { 0 }) } else { None };
            let bytes = match (&it.bytes, it.end) {
                (Some(b), _) => b.clone(),
                (None, end) if end != usize::MAX && end >= pos && end <= stream.len() => stream[pos..end].to_vec(),
                _ => Vec::new(),
            };
            // conservation: the item is exactly the next bytes of the stream
            if stream.len() < pos + bytes.len() || stream[pos..pos + bytes.len()] != bytes[..] {
                problems.push(format!(
                    "item {} at offset {pos} is not the next bytes of the stream",
                    show_item(tag, &bytes)
                ));
            }
            if bytes.is_empty() {
                problems.push(format!("empty item at offset {pos}"));
            }
            pos += bytes.len();
            if it.end != usize::MAX && it.end != pos {
                problems.push(format!("after item ending at {pos} the decoder holds bytes from offset {}", it.end));
            }
            row.push((tag, bytes));
        }
        per_read.push(row);
    }
    let buffer = tok.buffer();
    let resched = tok.rescheduled();
    let mut pending = buffer.clone();
    pending.extend(resched.iter().rev());
    if pos > stream.len() || stream[pos..] != pending[..] {
        problems.push(format!(
            "bytes lost, duplicated or reordered: items cover {pos} of {} bytes, pending {}",
            stream.len(),
            hex(&pending)
        ));
    }
    TokRun { per_read, buffer, resched, problems }
}

// ---------------------------------------------------------------- part A: pattern sets

struct Ctx {
    out: Out,
    dfa_serial: u64,
    /// replay: drive the tokenizer the way the recorded run did
    force_by_decode: Option<bool>,
    /// inputs on which the crate aborted (skipped: not C03's business)
    aborted: Vec<Value>,
    /// decoder objects kept across streams as long as nothing is pending
    long_ev: Option<TTYEventDecoder>,
    long_cmd: Option<TTYCommandDecoder>,
    long_u8: Option<Utf8Decoder>,
}

fn pattern_case(ctx: &mut Ctx, rng: &mut Rng, pats: &[Re], inputs: &[Vec<u8>], forced_chunks: Option<Vec<Vec<u8>>>, exhaustive3: bool) {
    // the driver keeps one table per name: every pattern set replaces the previous one
    let name = "cur".to_string();
    ctx.dfa_serial += 1;
    let pats_json: Vec<Value> = pats.iter().map(|p| p.to_json()).collect();
    let pats_show: Vec<String> = pats.iter().map(|p| p.show()).collect();
    let built = guarded(|| {
        let tok = VerifTokenizer::new(pats.iter().map(|p| p.nfa()));
        let dfa = tok.dfa();
        (tok, dfa)
    });
    let Ok((proto, dfa)) = built else {
        ctx.out.hist("patterns:compile-panic");
        return;
    };
    let (req, ans) = dfa_request(&name, &dfa);
    ctx.out.corr(&req, &ans);
    check_terminal_flags(&mut ctx.out, &dfa, json!({"kind": "patterns", "patterns": pats_json, "show": pats_show}));
    let dvs: Vec<Dv> = pats.iter().map(dv_of).collect();
    let mut alphabet: Vec<u8> = vec![0, 255];
    pats.iter().for_each(|p| p.alphabet(&mut alphabet));
    ctx.out.hist(&format!("dfa-states:{}", (dfa.len() / 4) * 4));
    for input in inputs {
        let mut parts: Vec<(u64, Vec<Vec<u8>>)> = match &forced_chunks {
            Some(c) => vec![(9, c.clone())],
            None => [0u64, 1, 2, 3, 4, 4].iter().map(|m| (*m, partition(rng, input, *m))).collect(),
        };
        if exhaustive3 && input.len() <= 14 {
            parts.extend(all_three_pieces(input).into_iter().map(|c| (8, c)));
        }
        // expectation from the patterns alone (independent of NFA::compile and of the dumped DFA)
        let (exp_items, exp_pending, tails) = pattern_tokenize(&dvs, &alphabet, input);
        hist_tails(&mut ctx.out, "A", &tails);
        let mut whole: Option<Vec<(Option<usize>, Vec<u8>)>> = None;
        for (mode, chunks) in parts {
            let by_decode = ctx.force_by_decode.unwrap_or_else(|| rng.chance(1, 2));
            let input_json = json!({"kind": "patterns", "patterns": pats_json, "show": pats_show,
                "stream": hex(input), "chunks": chunks_str(&chunks), "by_decode": by_decode});
            set_current(&input_json);
            let run = guarded(|| {
                let mut tok = proto.fresh();
                run_tok(&mut tok, &chunks, by_decode, true)
            });
            let req = format!("c03 run {name} {}", chunks_str(&chunks));
            let run = match run {
                Ok(r) => r,
                Err(()) => {
                    ctx.out.corr(&req, "panic");
                    ctx.out.fail("tokenizer panicked", input_json, json!(show_pat_items(&exp_items)), json!("panic"));
                    continue;
                }
            };
            ctx.out.corr(&req, &run.answer());
            let flat = run.flat();
            let mut pending = run.buffer.clone();
            pending.extend(run.resched.iter().rev());
            ctx.out.case(
                &format!("{pats_show:?} {}", chunks_str(&chunks)),
                flat.len() >= 2 || (!flat.is_empty() && !pending.is_empty()),
            );
            ctx.out.hist(&format!("A:partition-mode:{mode}"));
            if flat.iter().any(|(t, _)| t.is_none()) {
                ctx.out.hist("A:has-raw");
            }
            for p in &run.problems {
                ctx.out.fail(&format!("conservation: {p}"), input_json.clone(), json!(hex(input)), json!(run.answer()));
            }
            if !run.resched.is_empty() {
                ctx.out.fail("rescheduled bytes left unparsed after a read", input_json.clone(), json!("rs=-"), json!(run.answer()));
            }
            // leftmost-longest with respect to the set of patterns: same boundaries, same kind, and the
            // pattern the decoder names is one of those that match (which one wins a tie is not C03's)
            let same = flat.len() == exp_items.len()
                && flat.iter().zip(exp_items.iter()).all(|(g, e)| {
                    g.1 == e.1
                        && match (&g.0, &e.0) {
                            (None, None) => true,
                            (Some(k), Some(set)) => *k >= 1 && set.contains(&(*k - 1)),
                            _ => false,
                        }
                });
            if !same || pending != exp_pending {
                ctx.out.fail(
                    "items are not the leftmost-longest tokenisation of the stream w.r.t. the patterns",
                    input_json.clone(),
                    json!(format!("{} rest={}", show_pat_items(&exp_items), hex(&exp_pending))),
                    json!(format!(
                        "{} rest={}",
                        flat.iter()
                            .map(|(t, b)| match t {
                                Some(k) => format!("t[{}]:{}", k.wrapping_sub(1), hexne(b)),
                                None => format!("r:{}", hexne(b)),
                            })
                            .collect::<Vec<_>>()
                            .join(","),
                        hex(&pending)
                    )),
                );
            }
            // partition independence
            match &whole {
                None => {
                    ctx.out.oracle(
                        &format!("c03 tokenize {name} {}", hex(input)),
                        &format!("{} rest={}", show_items(&flat), hex(&pending)),
                    );
                    whole = Some(flat);
                }
                Some(w) => {
                    if *w != flat {
                        ctx.out.fail(
                            "items depend on where the stream is cut into reads",
                            input_json.clone(),
                            json!(show_items(w)),
                            json!(show_items(&flat)),
                        );
                    }
                }
            }
            if ctx.out.evaluations % 1999 == 1 {
                ctx.out.sample(json!({"patterns": pats_show, "request": req, "impl": run.answer()}));
            }
        }
    }
}

// ---------------------------------------------------------------- part B: production decoders

fn num(rng: &mut Rng) -> String {
    match rng.below(6) {
        0 => "0".into(),
        1 => rng.below(10).to_string(),
        2 => rng.below(300).to_string(),
        3 => rng.below(70000).to_string(),
        4 => "2026".into(),
        _ => format!("{}", rng.below(100)),
    }
}

fn utf8_char(rng: &mut Rng) -> Vec<u8> {
    let c = match rng.below(5) {
        0 => rng.range(0x20, 0x7e) as u32,
        1 => rng.range(0x80, 0x7ff) as u32,
        2 => {
            let v = rng.range(0x800, 0xffff) as u32;
            if (0xd800..0xe000).contains(&v) { 0x20ac } else { v }
        }
        3 => rng.range(0x10000, 0x10ffff) as u32,
        _ => *rng.pick(&[0x7f_u32, 0x80, 0x7ff, 0x800, 0xffff, 0x10000, 0x10ffff, 0xd7ff, 0xe000, 0x20ac]),
    };
    let ch = char::from_u32(c).unwrap_or('?');
    let mut b = [0u8; 4];
    ch.encode_utf8(&mut b).as_bytes().to_vec()
}

fn text(rng: &mut Rng, max: u64) -> Vec<u8> {
    let mut out = Vec::new();
    for _ in 0..(1 + rng.below(max)) {
        out.extend(utf8_char(rng));
    }
    out
}

fn payload(rng: &mut Rng, max: u64, forbid: &[u8]) -> Vec<u8> {
    let mut out = Vec::new();
    for _ in 0..rng.below(max + 1) {
        let b = match rng.below(4) {
            0 => rng.range(0x20, 0x7e) as u8,
            1 => *rng.pick(b"0123456789abcdefABCDEF;:=,/#?"),
            2 => rng.below(256) as u8,
            _ => *rng.pick(b"rgb:OK \n\t"),
        };
        if !forbid.contains(&b) {
            out.push(b);
        }
    }
    out
}

/// one well formed sequence of a random family; returns (family, bytes)
fn sequence(rng: &mut Rng) -> (&'static str, Vec<u8>) {
    let s = |x: String| x.into_bytes();
    match rng.below(22) {
        0 => ("key-basic", vec![*rng.pick(&[0x1bu8, 0x7f, 0x00, 0x01, 0x09, 0x0d, 0x1a])]),
        1 => ("key-alt", vec![0x1b, rng.range(0x21, 0x7e) as u8]),
        2 => {
            let code = *rng.pick(&["1", "2", "3", "4", "5", "6", "7", "8", "11", "15", "17", "20", "24"]);
            if rng.chance(1, 2) {
                ("key-tilde", s(format!("\x1b[{code}~")))
            } else {
                ("key-tilde-mod", s(format!("\x1b[{code};{}~", rng.range(2, 8))))
            }
        }
        3 => {
            let (p, c) = *rng.pick(&[("[", "A"), ("[", "B"), ("[", "C"), ("[", "D"), ("[", "F"), ("[", "H"),
                ("O", "P"), ("[", "P"), ("O", "Q"), ("O", "R"), ("[", "R"), ("O", "S"), ("[", "S")]);
            if rng.chance(1, 2) {
                ("key-arrow", s(format!("\x1b{p}{c}")))
            } else {
                ("key-arrow-mod", s(format!("\x1b[1;{}{c}", rng.range(2, 8))))
            }
        }
        4 => ("cursor-pos", s(format!("\x1b[{};{}R", num(rng), num(rng)))),
        5 => ("dec-mode", s(format!("\x1b[?{};{}$y", num(rng), rng.below(5)))),
        6 => {
            let mut x = "\x1b[?".to_string();
            for i in 0..(1 + rng.below(4)) {
                if i > 0 {
                    x.push(';');
                }
                x.push_str(&num(rng));
            }
            if rng.chance(1, 4) {
                x.push(';');
            }
            x.push('c');
            ("device-attrs", s(x))
        }
        7 => ("kitty-kbd-level", s(format!("\x1b[?{}u", rng.below(32)))),
        8 => {
            let mut x = format!("\x1b[{}", rng.range(32, 60000));
            if rng.chance(1, 3) {
                x.push_str(&format!(":{}", rng.range(32, 128)));
            }
            if rng.chance(2, 3) {
                x.push_str(&format!(";{}", rng.range(1, 16)));
                if rng.chance(1, 3) {
                    x.push_str(&format!(":{}", rng.range(1, 3)));
                }
            }
            x.push('u');
            ("kitty-kbd-key", s(x))
        }
        9 => ("mouse", s(format!("\x1b[<{};{};{}{}", rng.below(128), num(rng), num(rng), rng.pick(&["m", "M"])))),
        10 => ("term-size", s(format!("\x1b[8;{};{}t\x1b[4;{};{}t", num(rng), num(rng), num(rng), num(rng)))),
        11 => {
            let mut x = "\x1b[".to_string();
            for i in 0..rng.below(6) {
                if i > 0 {
                    x.push(';');
                }
                match rng.below(4) {
                    0 => x.push_str(&rng.below(110).to_string()),
                    1 => x.push_str(&format!("38;2;{};{};{}", rng.below(256), rng.below(256), rng.below(256))),
                    2 => x.push_str(&format!("48:5:{}", rng.below(256))),
                    _ => x.push_str(&format!("4:{}", rng.below(6))),
                }
            }
            x.push('m');
            ("sgr", s(x))
        }
        12 => {
            let mut x = s(format!("\x1b]{};", *rng.pick(&["4;1", "10", "11", "12", "52"])));
            let mut p = payload(rng, 20, &[0x1b, 0x07]);
            if p.is_empty() {
                p.push(b'?');
            }
            x.extend(p);
            if rng.chance(1, 2) {
                x.extend(b"\x1b\\");
            } else {
                x.push(0x07);
            }
            ("osc", x)
        }
        13 => {
            let mut x = s(format!("\x1bP{}$r", rng.below(2)));
            x.extend(payload(rng, 12, &[0x1b]));
            x.extend(b"\x1b\\");
            ("report-setting", x)
        }
        14 => {
            let hexs = |rng: &mut Rng| -> String { (0..(1 + rng.below(4))).map(|_| format!("{:02x}", rng.range(0x20, 0x7e))).collect() };
            let mut x = String::new();
            if rng.chance(2, 3) {
                x.push_str("\x1bP1+r");
                for i in 0..rng.below(3) {
                    if i > 0 {
                        x.push(';');
                    }
                    x.push_str(&format!("{}={}", hexs(rng), hexs(rng)));
                }
            } else {
                x.push_str("\x1bP0+r");
                for i in 0..rng.below(3) {
                    if i > 0 {
                        x.push(';');
                    }
                    x.push_str(&hexs(rng));
                }
            }
            x.push_str("\x1b\\");
            ("termcap", s(x))
        }
        15 => {
            let mut x = s(format!("\x1b_Gi={}", rng.below(1000)));
            if rng.chance(1, 2) {
                x.extend(s(format!(",p={}", rng.below(100))));
            }
            x.push(b';');
            x.extend(payload(rng, 16, &[0x1b]));
            x.extend(b"\x1b\\");
            ("kitty-image", x)
        }
        16 => {
            let mut x = b"\x1b[200~".to_vec();
            if rng.chance(1, 2) {
                x.extend(text(rng, 20));
            } else {
                x.extend(payload(rng, 30, &[0x1b]));
            }
            x.extend(b"\x1b[201~");
            ("paste", x)
        }
        17 | 18 | 19 => ("utf8", text(rng, 8)),
        20 => ("ascii", (0..(1 + rng.below(10))).map(|_| rng.range(0x20, 0x7e) as u8).collect()),
        _ => ("ctrl", vec![rng.range(0, 0x1f) as u8]),
    }
}

/// log-uniform in 300..=5000
fn long_len(rng: &mut Rng) -> usize {
    let lo = 300f64.ln();
    let hi = 5000f64.ln();
    let u = rng.below(1_000_000) as f64 / 1_000_000.0;
    (lo + (hi - lo) * u).exp() as usize
}

/// one recognised sequence of 300 - 5000 bytes
fn long_sequence(rng: &mut Rng) -> (&'static str, Vec<u8>) {
    let n = long_len(rng);
    match rng.below(5) {
        0 => {
            let mut x = b"\x1b[200~".to_vec();
            while x.len() < n {
                if rng.chance(1, 3) { x.extend(utf8_char(rng)) } else { x.push(*rng.pick(b"abc xyz\n\t0123[;~")) }
            }
            x.extend(b"\x1b[201~");
            ("long:paste", x)
        }
        1 => {
            let mut x = b"\x1b]52;c;".to_vec();
            while x.len() < n {
                x.push(*rng.pick(b"ABCDEFGHabcdefgh0123456789+/="));
            }
            if rng.chance(1, 2) { x.extend(b"\x1b\\") } else { x.push(0x07) }
            ("long:osc", x)
        }
        2 => {
            let mut x = format!("\x1b_Gi={},p={};", rng.below(1000), rng.below(100)).into_bytes();
            while x.len() < n {
                x.push(*rng.pick(b"OKENOENT:abcdefgh0123456789+/= "));
            }
            x.extend(b"\x1b\\");
            ("long:kitty-image", x)
        }
        3 => {
            let mut x = b"\x1b[".to_vec();
            while x.len() < n {
                x.extend(format!("38;2;{};{};{};", rng.below(256), rng.below(256), rng.below(256)).into_bytes());
            }
            x.push(b'm');
            ("long:sgr", x)
        }
        _ => {
            // a long candidate that fails at the very end: everything after `ESC [` is parsed again
            let mut x = b"\x1b[".to_vec();
            while x.len() < n.min(1200) {
                x.extend(format!("{};", rng.below(100)).into_bytes());
            }
            x.push(b'!');
            ("long:failed-candidate", x)
        }
    }
}

fn garbage(rng: &mut Rng) -> (&'static str, Vec<u8>) {
    match rng.below(8) {
        0 => ("g:random", (0..(1 + rng.below(12))).map(|_| rng.below(256) as u8).collect()),
        1 => {
            // truncated sequence
            let (_, mut b) = sequence(rng);
            let n = rng.below(b.len() as u64 + 1) as usize;
            b.truncate(n);
            ("g:truncated", b)
        }
        2 => {
            // one byte changed / inserted / deleted
            let (_, mut b) = sequence(rng);
            if !b.is_empty() {
                let i = rng.below(b.len() as u64) as usize;
                match rng.below(3) {
                    0 => b[i] = rng.below(256) as u8,
                    1 => b.insert(i, *rng.pick(b"\x1b[;0?~mx\x80")),
                    _ => {
                        b.remove(i);
                    }
                }
            }
            ("g:mutated", b)
        }
        3 => (
            "g:bad-utf8",
            rng.pick(&[
                vec![0x80u8],
                vec![0xc0, 0x80],
                vec![0xc2],
                vec![0xe2, 0x82],
                vec![0xe2, 0x82, 0x41],
                vec![0xed, 0xa0, 0x80],
                vec![0xf4, 0x90, 0x80, 0x80],
                vec![0xf0, 0x9f, 0x98],
                vec![0xf7, 0xbf, 0xbf, 0xbf],
                vec![0xe0, 0x9f, 0xbf],
                vec![0xff],
            ])
            .clone(),
        ),
        4 => ("g:esc-run", vec![0x1b; 1 + rng.below(3) as usize]),
        5 => ("g:esc-o-t", b"\x1bOT".to_vec()),
        6 => ("g:long-number", format!("\x1b[{};{}", "9".repeat(1 + rng.below(25) as usize), num(rng)).into_bytes()),
        _ => ("g:csi-unknown", format!("\x1b[{}{}", num(rng), rng.pick(&["x", "z", "@", "~", "$", " q"])).into_bytes()),
    }
}

fn gen_stream(rng: &mut Rng, out: &mut Out, command: bool) -> Vec<u8> {
    let mut stream = Vec::new();
    let pieces = 1 + rng.below(10);
    let garbage_rate = *rng.pick(&[0u64, 1, 1, 3]);
    for _ in 0..pieces {
        let (fam, bytes) = if rng.below(6) < garbage_rate {
            garbage(rng)
        } else if command && rng.chance(1, 2) {
            // the command decoder knows SGR and characters only
            if rng.chance(1, 2) { ("utf8", text(rng, 8)) } else { sequence_sgr(rng) }
        } else {
            sequence(rng)
        };
        out.hist(&format!("B:family:{fam}"));
        stream.extend(bytes);
    }
    stream
}

fn sequence_sgr(rng: &mut Rng) -> (&'static str, Vec<u8>) {
    loop {
        let (f, b) = sequence(rng);
        if f == "sgr" {
            return (f, b);
        }
    }
}

/// Rendering of an event for comparison between partitions: the field-wise canonical text of C04's
/// printer (built from the raw fields of the value) AND the crate's `Debug` text - two events count as
/// the same only if both agree; the crate's `PartialEq` is cross-checked against it (`public_all`).
fn show_ev(e: &surf_n_term::TerminalEvent) -> String {
    format!("{} {:?}", events::show_event(e), e).replace('\n', "\\n")
}

fn show_cmd(c: &surf_n_term::TerminalCommand) -> String {
    format!("{} {:?}", events::show_command(c), c).replace('\n', "\\n")
}

/// events of a public decoder under a partition; markers "PANIC" / "ERROR" / "UNCONSUMED" appear in the
/// rendering only. `by_decode`: repeated `Decoder::decode` per read (as `UnixTerminal::poll` does) instead
/// of the trait's default `decode_into`.
fn public_events<D: Decoder>(dec: &mut D, chunks: &[Vec<u8>], by_decode: bool, show: fn(&D::Item) -> String) -> (Vec<String>, Vec<D::Item>) {
    let mut out = Vec::new();
    let mut vals: Vec<D::Item> = Vec::new();
    for chunk in chunks {
        let mut items = Vec::new();
        let r = guarded(|| {
            let mut cur = Cursor::new(&chunk[..]);
            let ok = if by_decode {
                loop {
                    match dec.decode(&mut cur) {
                        Ok(Some(item)) => items.push(item),
                        Ok(None) => break true,
                        Err(_) => break false,
                    }
                }
            } else {
                dec.decode_into(&mut cur, &mut items).is_ok()
            };
            (ok, cur.position() as usize)
        });
        out.extend(items.iter().map(show));
        vals.extend(items);
        match r {
            Ok((true, pos)) if pos == chunk.len() => {}
            Ok((true, _)) => out.push("UNCONSUMED".into()),
            Ok((false, _)) => out.push("ERROR".into()),
            Err(()) => {
                out.push("PANIC".into());
                return (out, vals);
            }
        }
    }
    (out, vals)
}

/// The same through the crate's own chunked reader: every read is written to an `IOQueue` and flushed (one
/// chunk per read, an empty read leaves an empty chunk behind a non-empty one), then the decoder reads
/// from the queue until it is drained.
fn queue_events<D: Decoder>(dec: &mut D, chunks: &[Vec<u8>], show: fn(&D::Item) -> String) -> (Vec<String>, Vec<D::Item>) {
    let mut vals: Vec<D::Item> = Vec::new();
    let r = guarded(|| {
        let mut q = IOQueue::new();
        for c in chunks {
            q.write_all(c).unwrap();
            q.flush().unwrap();
        }
        let total: usize = chunks.iter().map(|c| c.len()).sum();
        let mut out = Vec::new();
        for _ in 0..(4 * (chunks.len() + 4) + total) {
            let mut items = Vec::new();
            let r = dec.decode_into(&mut q, &mut items);
            out.extend(items.iter().map(show));
            vals.extend(items);
            if r.is_err() {
                out.push("ERROR".into());
            }
            if q.is_empty() {
                return out;
            }
        }
        out.push("QUEUE-NOT-DRAINED".into());
        out
    });
    (r.unwrap_or_else(|()| vec!["PANIC".into()]), vals)
}

struct PubPart {
    events: Vec<String>,
    queue: Vec<String>,
    /// the crate's `PartialEq` on the event lists disagrees with equality of the renderings
    eq_disagrees: Option<String>,
}

struct PubAll {
    parts: Vec<PubPart>,
    /// the whole stream on a decoder object that has already decoded other streams (none pending)
    reused: Option<Vec<String>>,
}

/// everything that is asked of a public decoder for one stream: every partition through `Cursor`
/// (alternating `decode_into` / repeated `decode`) and through `IOQueue`, and the single buffer on a
/// long-lived decoder object (`long`) that is kept as long as the streams leave nothing pending
fn public_all<D: Decoder>(
    mk: fn() -> D,
    show: fn(&D::Item) -> String,
    parts: &[Vec<Vec<u8>>],
    long: &mut Option<D>,
    stream: &[u8],
    leaves_pending: bool,
) -> PubAll
where
    D::Item: PartialEq,
{
    let mut out = Vec::new();
    let mut base: Option<(Vec<String>, Vec<D::Item>)> = None;
    for (pi, chunks) in parts.iter().enumerate() {
        let (events, vals) = public_events(&mut mk(), chunks, pi % 2 == 1, show);
        let (queue, qvals) = queue_events(&mut mk(), chunks, show);
        let mut eq_disagrees = None;
        match &base {
            None => {}
            Some((bs, bv)) => {
                let clean = |s: &Vec<String>| s.iter().filter(|x| !matches!(x.as_str(), "PANIC" | "ERROR" | "UNCONSUMED" | "QUEUE-NOT-DRAINED")).cloned().collect::<Vec<_>>();
                if (vals == *bv) != (clean(&events) == clean(bs)) {
                    eq_disagrees = Some(format!("Cursor: PartialEq says {}, renderings say {}", vals == *bv, clean(&events) == clean(bs)));
                }
                if (qvals == *bv) != (clean(&queue) == clean(bs)) {
                    eq_disagrees = Some(format!("IOQueue: PartialEq says {}, renderings say {}", qvals == *bv, clean(&queue) == clean(bs)));
                }
            }
        }
        if base.is_none() {
            base = Some((events.clone(), vals));
        }
        out.push(PubPart { events, queue, eq_disagrees });
    }
    let reused = long.as_mut().map(|d| public_events(d, &[stream.to_vec()], false, show).0);
    let broken = reused.as_ref().map(|r| r.iter().any(|e| e == "PANIC")).unwrap_or(false);
    if long.is_none() || leaves_pending || broken {
        *long = Some(mk());
    }
    PubAll { parts: out, reused }
}

fn production_case(ctx: &mut Ctx, rng: &mut Rng, command: bool, stream: &[u8], reference: &RefDfa, forced: Option<Vec<Vec<u8>>>) {
    let name = if command { "cmd" } else { "ev" };
    let parts: Vec<Vec<Vec<u8>>> = match forced {
        Some(c) if c.is_empty() => {
            let mut v = vec![vec![stream.to_vec()]];
            v.extend(all_three_pieces(stream));
            v
        }
        Some(c) => vec![vec![stream.to_vec()], c],
        None => vec![
            partition(rng, stream, 0),
            partition(rng, stream, 1),
            partition(rng, stream, 2),
            partition(rng, stream, 3),
            partition(rng, stream, 4),
        ],
    };
    let (exp_items, exp_pending, tails) = reference.tokenize(stream);
    // an abort inside the crate (non-unwinding panic, e.g. in a payload decoder) cannot be caught: try the
    // whole case in a child process first; totality is property C02, not C03
    let leaves_pending = !exp_pending.is_empty();
    let survived = survives(|| {
        if command {
            let _ = public_all(TTYCommandDecoder::new, show_cmd, &parts, &mut ctx.long_cmd, stream, leaves_pending);
        } else {
            let _ = public_all(TTYEventDecoder::new, show_ev, &parts, &mut ctx.long_ev, stream, leaves_pending);
        }
        for chunks in &parts {
            if command {
                let _ = guarded(|| run_tok(&mut VerifTokenizer::command(), chunks, true, false));
            } else {
                let _ = guarded(|| run_tok(&mut VerifTokenizer::event(), chunks, true, false));
            }
        }
    });
    if !survived {
        ctx.out.hist("B:skipped:abort-inside-the-crate (totality is C02)");
        ctx.aborted.push(json!({"kind": name, "stream": hex(stream)}));
        return;
    }
    let public = if command {
        public_all(TTYCommandDecoder::new, show_cmd, &parts, &mut ctx.long_cmd, stream, leaves_pending)
    } else {
        public_all(TTYEventDecoder::new, show_ev, &parts, &mut ctx.long_ev, stream, leaves_pending)
    };
    // a decoder object that has decoded other streams before (nothing pending) gives the same events
    if let Some(reused) = &public.reused {
        ctx.out.hist(&format!("B:{name}:reused-decoder"));
        if *reused != public.parts[0].events {
            ctx.out.fail(
                &format!("{name} decoder: a decoder that has decoded other streams before (none pending) gives other events than a new one"),
                json!({"kind": name, "stream": hex(stream), "chunks": chunks_str(&parts[0]), "reused": true}),
                json!(public.parts[0].events),
                json!(reused),
            );
        }
    }
    hist_tails(&mut ctx.out, &format!("B:{name}"), &tails);
    ctx.out.hist(&format!("B:{name}:longest-item:{}", len_bucket(exp_items.iter().map(|i| i.1.len()).max().unwrap_or(0))));
    let mut base_events: Option<Vec<String>> = None;
    let mut base_items: Option<Vec<(Option<usize>, Vec<u8>)>> = None;
    for (pi, chunks) in parts.iter().enumerate() {
        let input_json = json!({"kind": name, "stream": hex(stream), "chunks": chunks_str(chunks)});
        set_current(&input_json);
        // 1. the public decoder: identical events under every partition (odd partitions: repeated `decode`
        // per read as `UnixTerminal::poll` does, even ones: the trait's `decode_into`)
        let events = public.parts[pi].events.clone();
        match &base_events {
            None => base_events = Some(events.clone()),
            Some(b) => {
                if *b != events {
                    ctx.out.fail(
                        &format!("{name} decoder: events depend on where the stream is cut into reads"),
                        input_json.clone(),
                        json!(b),
                        json!(events),
                    );
                }
            }
        }
        if let Some(msg) = &public.parts[pi].eq_disagrees {
            ctx.out.fail(
                &format!("{name}: PartialEq of the crate's event type disagrees with the field-wise rendering of the events (the comparison between partitions cannot rely on it)"),
                input_json.clone(),
                json!("PartialEq equal <=> renderings equal"),
                json!(msg),
            );
        }
        // 1b. the same reads delivered through the crate's chunked reader `IOQueue`
        if !events.iter().any(|e| e == "PANIC") {
            let qev = &public.parts[pi].queue;
            ctx.out.hist(&format!("B:{name}:reader:IOQueue"));
            if Some(qev) != base_events.as_ref() {
                ctx.out.fail(
                    &format!("{name} decoder fed through IOQueue (one chunk per read): events differ from those of the single buffer"),
                    json!({"kind": name, "stream": hex(stream), "chunks": chunks_str(chunks), "reader": "IOQueue"}),
                    json!(base_events),
                    json!(qev),
                );
            }
        }
        // 2. item boundaries from the private tokenizer over the production automaton
        let by_decode = true;
        let run = guarded(|| {
            if command {
                run_tok(&mut VerifTokenizer::command(), chunks, by_decode, false)
            } else {
                run_tok(&mut VerifTokenizer::event(), chunks, by_decode, false)
            }
        });
        let req = format!("c03 runb {name} {}", chunks_str(chunks));
        let run = match run {
            Ok(r) => r,
            Err(()) => {
                if events.iter().any(|e| e == "PANIC") {
                    // a payload decoder panicked (the public decoder panics on the same stream):
                    // totality is property C02; nothing to compare for C03 on this stream
                    ctx.out.hist("B:skipped:payload-decoder-panic");
                } else {
                    ctx.out.corr(&req, "panic");
                    ctx.out.fail(&format!("{name} tokenizer panicked"), input_json, json!(show_items(&exp_items)), json!("panic"));
                }
                continue;
            }
        };
        ctx.out.corr(&req, &run.answer_bounds());
        let flat = run.flat();
        let mut pending = run.buffer.clone();
        pending.extend(run.resched.iter().rev());
        ctx.out.case(&format!("{name} {}", chunks_str(chunks)), flat.len() >= 2);
        ctx.out.hist(&format!("B:{name}:partition:{}", if pi < 5 { pi.to_string() } else { "three-pieces".to_string() }));
        for p in &run.problems {
            ctx.out.fail(&format!("{name} conservation: {p}"), input_json.clone(), json!(hex(stream)), json!(run.answer()));
        }
        if !run.resched.is_empty() {
            ctx.out.fail(&format!("{name}: rescheduled bytes left unparsed after a read"), input_json.clone(), json!("rs=-"), json!(run.answer()));
        }
        // a recognised sequence may still be handed on as raw bytes by its payload decoder, but
        // bytes that are not recognised must be raw, and the boundaries must be the same
        let same = flat.len() == exp_items.len()
            && flat.iter().zip(exp_items.iter()).all(|(g, e)| g.1 == e.1 && (e.0.is_some() || g.0.is_none()));
        if !same || pending != exp_pending {
            ctx.out.fail(
                &format!("{name}: item boundaries are not the leftmost-longest tokenisation of the stream"),
                input_json.clone(),
                json!(format!("{} rest={}", show_items(&exp_items), hex(&exp_pending))),
                json!(format!("{} rest={}", show_items(&flat), hex(&pending))),
            );
        }
        // the public decoder and the tokenizer agree on the number of items and on raw bytes
        if !events.iter().any(|e| e == "PANIC") {
            if events.len() != flat.len() {
                ctx.out.fail(
                    &format!("{name}: public decoder and its tokenizer disagree on the number of items"),
                    input_json.clone(),
                    json!(flat.len()),
                    json!(events),
                );
            } else {
                for (e, (t, b)) in events.iter().zip(flat.iter()) {
                    // unrecognised bytes must surface as the Raw event carrying exactly these bytes
                    // (`raw:<hex>` is the field-wise rendering of `Raw(bytes)`)
                    let want = format!("raw:{} ", events::hexs(b));
                    if t.is_none() && !e.starts_with(&want) {
                        ctx.out.fail(
                            &format!("{name}: raw event differs from the unrecognised bytes"),
                            input_json.clone(),
                            json!(want),
                            json!(e),
                        );
                        break;
                    }
                }
            }
        }
        match &base_items {
            None => {
                // O line: the verified specification evaluated on the dumped production DFA
                ctx.out.oracle(
                    &format!("c03 tokenizeb {name} {}", hex(stream)),
                    &format!("{} rest={}", show_bounds(&flat), hex(&pending)),
                );
                base_items = Some(flat);
            }
            Some(b) => {
                if *b != flat {
                    ctx.out.fail(
                        &format!("{name}: item boundaries depend on where the stream is cut into reads"),
                        input_json.clone(),
                        json!(show_items(b)),
                        json!(show_items(&flat)),
                    );
                }
            }
        }
        if ctx.out.evaluations % 499 == 1 {
            ctx.out.sample(json!({"decoder": name, "request": req, "impl": run.answer_bounds(), "events": events}));
        }
    }
}

// ---------------------------------------------------------------- Utf8Decoder

/// results of the public `Utf8Decoder` under a partition: (`c`|`e`, bytes consumed for it), pending
fn utf8_run(chunks: &[Vec<u8>]) -> Result<(Vec<Vec<(char, Vec<u8>, String)>>, Vec<u8>), ()> {
    guarded(|| {
        let mut dec = Utf8Decoder::new();
        let mut per = Vec::new();
        let mut acc: Vec<u8> = Vec::new();
        for chunk in chunks {
            let mut row = Vec::new();
            let mut cur = Cursor::new(&chunk[..]);
            loop {
                let before = cur.position() as usize;
                let r = dec.decode(&mut cur);
                let after = cur.position() as usize;
                acc.extend(&chunk[before..after]);
                match r {
                    Ok(Some(c)) => row.push(('c', std::mem::take(&mut acc), format!("{c:?}"))),
                    Err(_) => row.push(('e', std::mem::take(&mut acc), "error".to_string())),
                    Ok(None) => break,
                }
            }
            per.push(row);
        }
        (per, acc)
    })
}

/// `Utf8Decoder` reading from an `IOQueue` holding one chunk per read: kinds and values of the results
fn utf8_queue_run(chunks: &[Vec<u8>]) -> Vec<String> {
    guarded(|| {
        let mut q = IOQueue::new();
        for c in chunks {
            q.write_all(c).unwrap();
            q.flush().unwrap();
        }
        let total: usize = chunks.iter().map(|c| c.len()).sum();
        let mut dec = Utf8Decoder::new();
        let mut out = Vec::new();
        for _ in 0..(4 * (chunks.len() + 4) + 2 * total) {
            match dec.decode(&mut q) {
                Ok(Some(c)) => out.push(format!("{c:?}")),
                Err(_) => out.push("error".to_string()),
                Ok(None) => {
                    if q.is_empty() {
                        return out;
                    }
                }
            }
        }
        out.push("QUEUE-NOT-DRAINED".into());
        out
    })
    .unwrap_or_else(|()| vec!["PANIC".into()])
}

/// results through the trait's default `decode_into` (stops at the first error, the caller goes on with what
/// is left in the reader), on a given decoder object
fn utf8_into_run(dec: &mut Utf8Decoder, chunks: &[Vec<u8>]) -> Vec<String> {
    guarded(|| {
        let mut out = Vec::new();
        for chunk in chunks {
            let mut cur = Cursor::new(&chunk[..]);
            for _ in 0..=chunk.len() {
                let mut items = Vec::new();
                let r = dec.decode_into(&mut cur, &mut items);
                out.extend(items.iter().map(|c| format!("{c:?}")));
                match r {
                    Ok(_) => break,
                    Err(_) => out.push("error".to_string()),
                }
            }
            if cur.position() as usize != chunk.len() {
                out.push("UNCONSUMED".into());
            }
        }
        out
    })
    .unwrap_or_else(|()| vec!["PANIC".into()])
}

fn utf8_answer(per: &[Vec<(char, Vec<u8>, String)>], pending: &[u8]) -> String {
    format!(
        "{} buf={}",
        per.iter()
            .map(|row| {
                if row.is_empty() {
                    "-".to_string()
                } else {
                    row.iter().map(|(k, b, _)| format!("{k}:{}", hexne(b))).collect::<Vec<_>>().join(",")
                }
            })
            .collect::<Vec<_>>()
            .join("/"),
        hex(pending)
    )
}

fn utf8_case(ctx: &mut Ctx, rng: &mut Rng, stream: &[u8], forced: Option<Vec<Vec<u8>>>) {
    let parts: Vec<Vec<Vec<u8>>> = match forced {
        Some(c) => vec![vec![stream.to_vec()], c],
        None => vec![
            partition(rng, stream, 0),
            partition(rng, stream, 1),
            partition(rng, stream, 2),
            partition(rng, stream, 3),
            partition(rng, stream, 4),
        ],
    };
    let survived = survives(|| {
        for chunks in &parts {
            let _ = utf8_run(chunks);
            let _ = utf8_queue_run(chunks);
            let _ = utf8_into_run(&mut Utf8Decoder::new(), chunks);
        }
        if let Some(d) = ctx.long_u8.as_mut() {
            let _ = utf8_into_run(d, &[stream.to_vec()]);
        }
    });
    if !survived {
        ctx.out.hist("B:skipped:abort-inside-the-crate (totality is C02)");
        ctx.aborted.push(json!({"kind": "utf8", "stream": hex(stream)}));
        return;
    }
    let mut base: Option<Vec<(char, Vec<u8>, String)>> = None;
    for (pi, chunks) in parts.iter().enumerate() {
        let input_json = json!({"kind": "utf8", "stream": hex(stream), "chunks": chunks_str(chunks)});
        set_current(&input_json);
        let req = format!("c03 utf8 u8 {}", chunks_str(chunks));
        let Ok((per, pending)) = utf8_run(chunks) else {
            ctx.out.corr(&req, "panic");
            ctx.out.fail("Utf8Decoder panicked", input_json, json!("no panic"), json!("panic"));
            continue;
        };
        ctx.out.corr(&req, &utf8_answer(&per, &pending));
        let flat: Vec<_> = per.iter().flatten().cloned().collect();
        ctx.out.case(&format!("utf8 {}", chunks_str(chunks)), flat.len() >= 2);
        ctx.out.hist(&format!("B:utf8:partition:{pi}"));
        // valid UTF-8: exactly the characters of the text, whatever the cuts
        if let Ok(s) = std::str::from_utf8(stream) {
            let want: Vec<String> = s.chars().map(|c| format!("{c:?}")).collect();
            let got: Vec<String> = flat.iter().map(|x| x.2.clone()).collect();
            if want != got || !pending.is_empty() {
                ctx.out.fail("Utf8Decoder: characters differ from the text", input_json.clone(), json!(want), json!(got));
            }
        }
        {
            let want: Vec<String> = base.as_ref().unwrap_or(&flat).iter().map(|x| x.2.clone()).collect();
            // the trait's default `decode_into` (the other runs call `decode`)
            let got = utf8_into_run(&mut Utf8Decoder::new(), chunks);
            ctx.out.hist("B:utf8:decode_into");
            if want != got {
                ctx.out.fail(
                    "Utf8Decoder through decode_into: results differ from those of repeated decode over the single buffer",
                    json!({"kind": "utf8", "stream": hex(stream), "chunks": chunks_str(chunks), "via": "decode_into"}),
                    json!(want),
                    json!(got),
                );
            }
            // a decoder object that has decoded other streams before (nothing held back)
            if pi == 0 {
                if let Some(d) = ctx.long_u8.as_mut() {
                    let got = utf8_into_run(d, chunks);
                    ctx.out.hist("B:utf8:reused-decoder");
                    if want != got {
                        ctx.out.fail(
                            "Utf8Decoder: a decoder that has decoded other streams before (nothing held back) gives other results than a new one",
                            json!({"kind": "utf8", "stream": hex(stream), "chunks": chunks_str(chunks), "reused": true}),
                            json!(want),
                            json!(got),
                        );
                    }
                }
                if ctx.long_u8.is_none() || !pending.is_empty() {
                    ctx.long_u8 = Some(Utf8Decoder::new());
                }
            }
            let got = utf8_queue_run(chunks);
            ctx.out.hist("B:utf8:reader:IOQueue");
            if want != got {
                ctx.out.fail(
                    "Utf8Decoder fed through IOQueue (one chunk per read): results differ from those of the single buffer",
                    json!({"kind": "utf8", "stream": hex(stream), "chunks": chunks_str(chunks), "reader": "IOQueue"}),
                    json!(want),
                    json!(got),
                );
            }
        }
        match &base {
            None => base = Some(flat),
            Some(b) => {
                if *b != flat {
                    ctx.out.fail(
                        "Utf8Decoder: results depend on where the stream is cut into reads",
                        input_json.clone(),
                        json!(b.iter().map(|x| x.2.clone()).collect::<Vec<_>>()),
                        json!(flat.iter().map(|x| x.2.clone()).collect::<Vec<_>>()),
                    );
                }
            }
        }
    }
}

fn gen_utf8_stream(rng: &mut Rng) -> Vec<u8> {
    let mut s = Vec::new();
    let bad = *rng.pick(&[0u64, 0, 1, 3]);
    for _ in 0..(1 + rng.below(12)) {
        if rng.below(6) < bad {
            match rng.below(3) {
                0 => s.push(rng.below(256) as u8),
                1 => {
                    let mut c = utf8_char(rng);
                    c.pop();
                    s.extend(c);
                }
                _ => s.extend(garbage(rng).1),
            }
        } else {
            s.extend(utf8_char(rng));
        }
    }
    s
}

// ---------------------------------------------------------------- part C: the cell writers as clients of the decoders

/// recording `CellWrite` target with room for `room` cells
struct Rec {
    face: surf_n_term::Face,
    wraps: bool,
    room: usize,
    cells: Vec<String>,
}

impl surf_n_term::CellWrite for Rec {
    fn face(&self) -> surf_n_term::Face {
        self.face
    }
    fn set_face(&mut self, face: surf_n_term::Face) -> surf_n_term::Face {
        std::mem::replace(&mut self.face, face)
    }
    fn wraps(&self) -> bool {
        self.wraps
    }
    fn set_wraps(&mut self, wraps: bool) -> bool {
        std::mem::replace(&mut self.wraps, wraps)
    }
    fn put_cell(&mut self, cell: surf_n_term::Cell) -> bool {
        if self.cells.len() < self.room {
            self.cells.push(format!("{:?} {}", cell.kind(), events::show_face(&cell.face())));
            true
        } else {
            false
        }
    }
}

/// reader that hands out at most `k` bytes per read (for `io::copy`)
struct SmallReads<'a> {
    data: &'a [u8],
    k: usize,
}

impl std::io::Read for SmallReads<'_> {
    fn read(&mut self, buf: &mut [u8]) -> std::io::Result<usize> {
        let n = self.k.min(buf.len()).min(self.data.len());
        buf[..n].copy_from_slice(&self.data[..n]);
        self.data = &self.data[n..];
        Ok(n)
    }
}

/// how the stream is handed to the writer
enum Feed<'a> {
    Pieces(Vec<&'a [u8]>),
    Copy(usize),
}

/// cells, final face and Ok / Err of writing `stream` through `tty_writer()` / `utf8_writer()`
fn writer_run(tty: bool, room: usize, stream: &[u8], feed: &Feed) -> String {
    use surf_n_term::CellWrite;
    guarded(|| {
        let mut rec = Rec { face: surf_n_term::Face::default(), wraps: false, room, cells: Vec::new() };
        let result = {
            let go = |w: &mut dyn std::io::Write| -> std::io::Result<()> {
                match feed {
                    Feed::Pieces(ps) => {
                        for p in ps {
                            w.write_all(p)?;
                        }
                        Ok(())
                    }
                    Feed::Copy(k) => std::io::copy(&mut SmallReads { data: stream, k: *k }, w).map(|_| ()),
                }
            };
            if tty { go(&mut rec.by_ref().tty_writer()) } else { go(&mut rec.by_ref().utf8_writer()) }
        };
        format!(
            "{} cells=[{}] face={}",
            match result {
                Ok(()) => "ok".to_string(),
                Err(e) => format!("err:{:?}", e.kind()),
            },
            rec.cells.join(" ; "),
            events::show_face(&rec.face)
        )
    })
    .unwrap_or_else(|()| "PANIC".to_string())
}

/// the writers must deliver the same cells, leave the same face and report the same outcome however the
/// stream is cut into write calls by a caller that honours the returned counts (`write_all`, `io::copy`)
fn writer_case(ctx: &mut Ctx, tty: bool, room: usize, stream: &[u8]) {
    let name = if tty { "tty_writer" } else { "utf8_writer" };
    let single = writer_run(tty, room, stream, &Feed::Pieces(vec![stream]));
    let mut feeds: Vec<(String, Feed)> = Vec::new();
    for cut in 0..=stream.len() {
        feeds.push((format!("{}/{}", hex(&stream[..cut]), hex(&stream[cut..])), Feed::Pieces(vec![&stream[..cut], &stream[cut..]])));
    }
    feeds.push(("bytewise".into(), Feed::Pieces(stream.chunks(1).collect())));
    for k in 1..=5 {
        feeds.push((format!("io::copy with reads of {k}"), Feed::Copy(k)));
    }
    for (how, feed) in &feeds {
        let got = writer_run(tty, room, stream, feed);
        ctx.out.case(&format!("{name} {room} {} {how}", hex(stream)), true);
        ctx.out.hist(&format!("C:{name}"));
        if got != single {
            ctx.out.fail(
                &format!("{name}: cells / final face / outcome depend on where the stream is cut into writes"),
                json!({"kind": name, "stream": hex(stream), "room": room.to_string(), "writes": how}),
                json!(single),
                json!(got),
            );
            return;
        }
    }
}

// ---------------------------------------------------------------- main

fn install_production(ctx: &mut Ctx) -> (RefDfa, RefDfa) {
    let ev = event_dfa();
    let cmd = command_dfa();
    let u8d = utf8_dfa();
    for (name, d) in [("ev", &ev), ("cmd", &cmd), ("u8", &u8d)] {
        let (req, ans) = dfa_request(name, d);
        ctx.out.corr(&req, &ans);
        check_terminal_flags(&mut ctx.out, d, json!({"kind": "dfa", "name": name}));
        // the set of recognised sequences: the dumped automaton against the automaton of the Lean transcription
        // of the documented grammar (language and terminal flags, exhaustive product exploration, tags ignored)
        let which = match name {
            "ev" => "event",
            "cmd" => "command",
            _ => "utf8",
        };
        ctx.out.oracle(&format!("c03 lang {name} {which}"), &format!("ok {}", d.len()));
        ctx.out.extra(&format!("dfa_{name}"), json!({"states": d.len(), "edges": d.iter().map(|s| s.edges.len()).sum::<usize>(),
            "accepting_non_terminal": d.iter().filter(|s| s.accepting && !s.terminal).count()}));
    }
    (RefDfa::new(&ev), RefDfa::new(&cmd))
}

fn lits(ws: &[&str]) -> Vec<Re> {
    ws.iter().map(|w| Re::Lit(w.as_bytes().to_vec())).collect()
}

fn replay(ctx: &mut Ctx, rng: &mut Rng, input: &Value, refs: &(RefDfa, RefDfa)) {
    // a failing O line carries the request only
    if let Some(req) = input.get("request").and_then(|r| r.as_str()) {
        let t: Vec<&str> = req.split(' ').collect();
        if t.len() == 4 && t[1] == "tokenizeb" && (t[2] == "ev" || t[2] == "cmd") {
            let stream = unhex(t[3]);
            production_case(ctx, rng, t[2] == "cmd", &stream, if t[2] == "cmd" { &refs.1 } else { &refs.0 }, None);
        } else {
            eprintln!("replay of `{req}`: pattern set not recorded in an O line; see the Rust oracle failure of the same run");
        }
        return;
    }
    let stream = unhex(input.get("stream").and_then(|s| s.as_str()).unwrap_or("-"));
    let chunks = input.get("chunks").and_then(|s| s.as_str()).map(parse_chunks);
    match input.get("kind").and_then(|k| k.as_str()).unwrap_or("") {
        "patterns" => {
            ctx.force_by_decode = input.get("by_decode").and_then(|b| b.as_bool());
            let pats: Vec<Re> = input
                .get("patterns")
                .and_then(|p| p.as_array())
                .map(|a| a.iter().filter_map(Re::from_json).collect())
                .unwrap_or_default();
            pattern_case(ctx, rng, &pats, &[stream], chunks, false);
        }
        "ev" => production_case(ctx, rng, false, &stream, &refs.0, chunks),
        "cmd" => production_case(ctx, rng, true, &stream, &refs.1, chunks),
        "utf8" => utf8_case(ctx, rng, &stream, chunks),
        _ => {}
    }
}

/// `SurfModel/Generated/KeyTable.lean`, byte for byte what `c04 tables` / `c02 tables` write (the grammar
/// the `c03 lang` lines compare with contains the literal key table)
fn key_table_lean() -> String {
    use surf_n_term::terminal::TerminalEvent;
    let rows: Vec<(Vec<u8>, u64, u64, u64)> = surf_n_term::decoder::verif_c04::key_table()
        .into_iter()
        .map(|(bytes, event)| match event {
            TerminalEvent::Key(k) => {
                let (v, p) = events::key_name_variant(k.name);
                (bytes, v, p, events::mod_bits(k.mode))
            }
            _ => (bytes, 99, 0, 0),
        })
        .collect();
    let mut s = String::new();
    s.push_str("/-! Literal key table of `basic_events_nfa()` (src/decoder.rs), rewritten from the implementation on every\nrun (`c04 tables`, hook `verif_c04::key_table`): bytes, `KeyName` variant, its payload, modifier bits,\nin registration order. -/\n");
    s.push_str("namespace SurfModel.Generated\n\n");
    s.push_str("def keyTable : List (List Nat × Nat × Nat × Nat) := [\n");
    for (i, (bytes, v, p, m)) in rows.iter().enumerate() {
        let bs: Vec<String> = bytes.iter().map(|b| b.to_string()).collect();
        s.push_str(&format!("  ([{}], {v}, {p}, {m}){}\n", bs.join(", "), if i + 1 == rows.len() { "" } else { "," }));
    }
    s.push_str("]\n\nend SurfModel.Generated\n");
    s
}

fn main() {
    let cfg = Cfg::from_env();
    if let Some(names) = &cfg.tables {
        for name in names {
            match name.as_str() {
                "KeyTable" => std::fs::write(cfg.outdir.join("KeyTable.lean"), key_table_lean()).unwrap(),
                other => {
                    eprintln!("c03: unknown table {other}");
                    std::process::exit(2);
                }
            }
        }
        return;
    }
    let out = cfg.out();
    install_abort_hook(&cfg.outdir);
    let mut ctx = Ctx { out, dfa_serial: 0, force_by_decode: None, aborted: Vec::new(), long_ev: None, long_cmd: None, long_u8: None };
    let mut rng = Rng::new(cfg.seed);
    let refs = install_production(&mut ctx);

    if let Some(rep) = &cfg.replay {
        let input = rep["failure"]["input"].clone();
        replay(&mut ctx, &mut rng, &input, &refs);
        ctx.out.finish("replay of one recorded input");
        return;
    }

    // ---- white-box corner cases first
    // longest match with a non-terminal accepting state; two and more rescheduled bytes; a stale
    // candidate would fire again on the second failure; raw items of length 1 and > 1
    let corner_sets: Vec<(Vec<Re>, Vec<&str>)> = vec![
        (lits(&["ab", "abcd"]), vec!["abcx", "abcab", "abcd", "abcabcx", "ababab", "abc", "xabx", "abcxabcx"]),
        (lits(&["a", "abcc", "b"]), vec!["abcx", "abcabcb", "abcc", "abcbabca"]),
        (lits(&["ab", "abcd", "c"]), vec!["abcx", "abccab", "cabcabcd"]),
        (lits(&["abc", "bc", "c", "abcabca"]), vec!["abcabcb", "abcabcabcabx", "bcabcab"]),
        (vec![Re::Lit(b"ab".to_vec()), Re::Seq(vec![Re::Lit(b"ab".to_vec()), Re::Plus(Box::new(Re::Lit(b"c".to_vec()))), Re::Lit(b"a".to_vec())])],
            vec!["abcccb", "abccca", "abcccabccx", "abab"]),
        (lits(&["aaa", "a", "aaaaa"]), vec!["aaaa", "aaaaaaaab", "aab"]),
        (vec![Re::Star(Box::new(Re::Lit(b"a".to_vec()))), Re::Lit(b"bb".to_vec())], vec!["aabab", "bbb", "b"]),
        (lits(&["abc", "cab", "bca"]), vec!["abcabcab", "abxcab", "ababab"]),
    ];
    for (pats, inputs) in &corner_sets {
        let inputs: Vec<Vec<u8>> = inputs.iter().map(|s| s.as_bytes().to_vec()).collect();
        pattern_case(&mut ctx, &mut rng, pats, &inputs, None, true);
    }
    // classes built with `NFA::predicate` over the whole alphabet (both ends: 0x00, 0xff) and optional groups
    // that begin with a loop (`r((ab)+=)?;`: the group's start state has an incoming edge)
    let lb = |b: u8| Re::Lit(vec![b]);
    let wide_sets: Vec<(Vec<Re>, Vec<&[u8]>)> = vec![
        (
            vec![Re::Seq(vec![lb(b'a'), Re::Star(Box::new(Re::Set(all_but(b'b')))), lb(b'b')]), lb(b'a'), lb(b'c')],
            vec![b"a\xffb", b"a\x00\xff\x7fbc", b"a\xfe\xffx", b"acc\xffbab", b"\xffab"],
        ),
        (
            vec![Re::Seq(vec![lb(b'a'), Re::Plus(Box::new(Re::Set(vec![(0x80, 0xff)])))]), Re::Set(vec![(0xff, 0xff)]), Re::Set(vec![(0, 0)])],
            vec![b"a\x80\xffb", b"\xff\xffa\xff", b"\x00a\xfe\xff\x00", b"a\x7f"],
        ),
        (
            vec![
                Re::Seq(vec![lb(b'c'), Re::Opt(Box::new(Re::Seq(vec![Re::Plus(Box::new(Re::Lit(b"ab".to_vec()))), lb(b'c')]))), lb(b'b')]),
                lb(b'c'),
            ],
            vec![b"cabb", b"cabcb", b"cb", b"cababcbcab", b"cababb"],
        ),
        (
            vec![Re::Seq(vec![Re::Opt(Box::new(Re::Seq(vec![Re::Star(Box::new(lb(b'a'))), lb(b'b')]))), lb(b'c')]), lb(b'a')],
            vec![b"aac", b"aabc", b"c", b"bc", b"aaac"],
        ),
    ];
    for (pats, inputs) in &wide_sets {
        let inputs: Vec<Vec<u8>> = inputs.iter().map(|s| s.to_vec()).collect();
        pattern_case(&mut ctx, &mut rng, pats, &inputs, None, true);
    }
    let corner_streams: Vec<&[u8]> = vec![
        b"\x1bOT",
        b"\x1b[200~paste \xe2\x82\xac text\x1b[201~",
        b"\x1b[200~abc\x1b[20",
        b"\x1b\x1b[A",
        b"\x1b[1;5",
        b"\x1b[1;5A\x1b[1;5",
        b"\x1b[8;24;80t\x1b[4;480;640t",
        b"\x1b[8;24;80t\x1b[4;480;640",
        b"\x1b[8;24;80t\x1b[A",
        b"\x1b]11;rgb:ff/ff/ff\x1b\\\x1b]11;?\x07",
        b"\xe2\x82\xac\xe2\x82",
        b"\x1bP1+r436f=323536\x1b\\x",
        b"\x1b[<0;10;20M\x1b[<0;10;20",
        b"\x1b[97;5u\x1b[?1u\x1b[?62;4c",
        b"\x1b[38;2;1;2;3;4m\x1b[m",
        b"\x1b_Gi=1;OK\x1b\\\x1b_Gi=1;OK\x1b",
        // string payloads with bytes from both ends of the alphabet; optional parts present / absent
        b"\x1b_Gi=31;bad \xff\x00\x1a\x7f\x80 payload\x1b\\x",
        b"\x1b[200~\x00\x1a\x7f\x80\xff\x1b[201~\x1b]11;\xff\x80\x7f\x1a\x00\x07",
        b"\x1bP1$r\xff\x00 q\x1b\\\x1bP0$r\x1b\\",
        b"\x1bP1+r4142\x1b\\",
        b"\x1bP1+r4142=43\x1b\\\x1bP1+r\x1b\\\x1bP0+r4142\x1b\\\x1bP1+r4142=43;44\x1b\\",
        b"\x1b[1;31;m\x1b[1;31m\x1b[;m\x1b[?62;c\x1b[?62c",
        b"\x1b[97;15Rab\x1b[1;5A\xd1\x8f\x1bOT\x1b[<0;94;14M",
    ];
    for s in &corner_streams {
        production_case(&mut ctx, &mut rng, false, s, &refs.0, None);
        production_case(&mut ctx, &mut rng, true, s, &refs.1, None);
        if s.len() <= 16 || cfg.thorough {
            // every partition into three pieces (`Some(vec![])`)
            production_case(&mut ctx, &mut rng, false, s, &refs.0, Some(vec![]));
        }
    }
    // cuts after every byte of a bracketed paste
    {
        let s: &[u8] = b"\x1b[200~ab\xe2\x82\xac\x1b[201~\x1b[A";
        for cut in 0..=s.len() {
            let chunks = vec![s[..cut].to_vec(), vec![], s[cut..].to_vec()];
            production_case(&mut ctx, &mut rng, false, s, &refs.0, Some(chunks));
        }
    }
    for s in [&b"\xe2\x82\xac"[..], b"a\xe2\x82\xacb", b"\xf0\x9f\x98\x80\xe2\x82", b"\xe2\x82A\xe2\x82\xac", b"\xed\xa0\x80", b"\xc3\xa9\xff\xc3"] {
        utf8_case(&mut ctx, &mut rng, s, None);
        for cut in 0..=s.len() {
            utf8_case(&mut ctx, &mut rng, s, Some(vec![s[..cut].to_vec(), vec![], s[cut..].to_vec()]));
        }
    }

    // ---- generated
    let (n_sets, n_inputs, n_streams, n_utf8) = if cfg.thorough { (30000, 8, 40000, 40000) } else { (2000, 5, 1800, 2000) };
    for _ in 0..n_sets {
        let pats = gen_patterns(&mut rng);
        let max = if cfg.thorough { 40 } else { 24 };
        let inputs: Vec<Vec<u8>> = (0..n_inputs).map(|_| gen_input(&mut rng, max)).collect();
        let ex3 = cfg.thorough && rng.chance(1, 20);
        pattern_case(&mut ctx, &mut rng, &pats, &inputs, None, ex3);
    }
    for i in 0..n_streams {
        let command = i % 3 == 2;
        let stream = gen_stream(&mut rng, &mut ctx.out, command);
        production_case(&mut ctx, &mut rng, command, &stream, if command { &refs.1 } else { &refs.0 }, None);
    }
    for _ in 0..n_utf8 {
        let stream = gen_utf8_stream(&mut rng);
        utf8_case(&mut ctx, &mut rng, &stream, None);
    }
    // recognised sequences of 300 - 5000 bytes (and a long candidate that fails at its end) between short ones
    let n_long = if cfg.thorough { 400 } else { 30 };
    for i in 0..n_long {
        let command = i % 4 == 3;
        let mut stream = Vec::new();
        for k in 0..3 {
            let (fam, bytes) = if k == 1 { long_sequence(&mut rng) } else { sequence(&mut rng) };
            ctx.out.hist(&format!("B:family:{fam}"));
            stream.extend(bytes);
        }
        production_case(&mut ctx, &mut rng, command, &stream, if command { &refs.1 } else { &refs.0 }, None);
    }
    // ---- part C: `utf8_writer()` / `tty_writer()` (src/render.rs) feed the decoders from write calls
    let utf8_texts: Vec<Vec<u8>> = vec!["a\u{a2}b\u{20ac}c\u{10348}d-\u{44f}\u{44f}\u{20ac}\u{20ac}".as_bytes().to_vec(), "\u{20ac}".as_bytes().to_vec(), b"abc".to_vec()];
    for t in &utf8_texts {
        writer_case(&mut ctx, false, usize::MAX, t);
    }
    for _ in 0..(if cfg.thorough { 400 } else { 25 }) {
        let t = text(&mut rng, 10);
        writer_case(&mut ctx, false, usize::MAX, &t);
    }
    let tty_texts: Vec<&[u8]> = vec![b"\x1b[31mabcd\x1b[1;4mef\x1b[32mg", b"ab\x1b[1mc\x1b[", b"\x1b[38;2;1;2;3m\xe2\x82\xacx\x1b[m"];
    for t in &tty_texts {
        for room in [0usize, 1, 3, 4, usize::MAX] {
            writer_case(&mut ctx, true, room, t);
        }
    }
    for _ in 0..(if cfg.thorough { 400 } else { 25 }) {
        let mut t = Vec::new();
        for _ in 0..(1 + rng.below(4)) {
            let (_, b) = if rng.chance(1, 2) { sequence_sgr(&mut rng) } else { ("utf8", text(&mut rng, 4)) };
            t.extend(b);
        }
        t.truncate(60);
        for room in [rng.below(6) as usize, usize::MAX] {
            writer_case(&mut ctx, true, room, &t);
        }
    }
    ctx.out.extra("pattern_sets", json!(ctx.dfa_serial));
    ctx.out.extra("skipped_aborts", json!(ctx.aborted.iter().take(5).collect::<Vec<_>>()));
    ctx.out.finish("A: random sets of 3-8 patterns over {a,b,c} (shared prefixes, +, *, ?, |) x random inputs (occasionally a foreign byte) x 6 partitions (whole, bytewise, bytewise with empty reads, two pieces, 2 x arbitrary cuts with empty reads) through the private MatcherDecoder; B: TTYEventDecoder / TTYCommandDecoder / Utf8Decoder on streams of 1-10 pieces drawn from 21 sequence families + 8 kinds of garbage under 5 partitions, plus streams with one 300-5000 byte sequence (paste, OSC, kitty image answer, SGR, long failed candidate); Part A expectations are computed from the patterns alone (Brzozowski derivatives), Part B from the dumped DFA; non-trivial = at least two items (or one item and pending bytes); distinct by (patterns or decoder, partition)");
}
