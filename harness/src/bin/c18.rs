//! C18: `KeyMap` (register / lookup / for_each / register_override), the stateful matcher
//! (`KeyMap::lookup_state`, `KeyMapHandler::handle`) and the `Key` / `KeyName` / `KeyChord` parsers and printers.
//!
//! Correspondence: Lean models `SurfModel.KeyMap` / `SurfModel.KeyParse` (script per line, see their headers).
//! Oracle (independent of the model): a prefix-free last-writer-wins dictionary kept as a plain vector
//! (`Dict`), a reading of the matcher clause on streams made of bound chords and unbound keys, and
//! "no panic + print/parse round trip" for the parsers.
use serde_json::{Value, json};
use std::collections::BTreeSet;
use std::str::FromStr;
use surf_n_term::keys::KeyMapResult;
use surf_n_term::{Key, KeyChord, KeyMap, KeyMapHandler, KeyMod, KeyName};
use verif_harness::{Cfg, r#gen::Rng, guarded, out::Out};

// ---------------------------------------------------------------------------------------------------------
// wire forms
// ---------------------------------------------------------------------------------------------------------

const FLAGS: [(KeyMod, u32); 9] = [
    (KeyMod::SHIFT, 1),
    (KeyMod::ALT, 2),
    (KeyMod::CTRL, 4),
    (KeyMod::SUPER, 8),
    (KeyMod::HYPER, 16),
    (KeyMod::META, 32),
    (KeyMod::CAPSLOCK, 64),
    (KeyMod::NUMLOCK, 128),
    (KeyMod::PRESS, 256),
];

/// modifier bits through the crate's accessor `KeyMod::contains` (cross-checked against `raw_bits` in `keymod_table`)
fn contains_bits(m: KeyMod) -> u32 {
    FLAGS.iter().filter(|(f, _)| m.contains(*f)).map(|(_, b)| b).sum()
}

/// The modifier bits of a `KeyMod` WITHOUT any crate helper: `KeyMod` is a struct around one `u32` and offers no
/// accessor, so its memory is read.  (If its size ever changes, falls back to `contains`.)
fn mod_bits(m: KeyMod) -> u32 {
    if std::mem::size_of::<KeyMod>() == 4 && std::mem::align_of::<KeyMod>() == 4 {
        // SAFETY: same size and alignment, `KeyMod` is `Copy` and has no padding (one `u32` field)
        unsafe { std::mem::transmute_copy::<KeyMod, u32>(&m) }
    } else {
        contains_bits(m)
    }
}

/// Identity of a key as the harness sees it: variant (by pattern matching), payload, raw modifier bits — never
/// the crate's `PartialEq` / `Ord` / `Hash`.
type RawKey = (u8, u128, u32);

fn rk(k: &Key) -> RawKey {
    use KeyName::*;
    let (v, p): (u8, u128) = match k.name {
        Backspace => (0, 0),
        Char(c) => (1, c as u128),
        Delete => (2, 0),
        Insert => (3, 0),
        Down => (4, 0),
        End => (5, 0),
        Enter => (6, 0),
        Esc => (7, 0),
        F(i) => (8, i as u128),
        Home => (9, 0),
        Left => (10, 0),
        MouseLeft => (11, 0),
        MouseMiddle => (12, 0),
        MouseMove => (13, 0),
        MouseRight => (14, 0),
        MouseWheelDown => (15, 0),
        MouseWheelUp => (16, 0),
        PageDown => (17, 0),
        PageUp => (18, 0),
        Right => (19, 0),
        Tab => (20, 0),
        Up => (21, 0),
    };
    (v, p, mod_bits(k.mode))
}

fn same_key(a: &Key, b: &Key) -> bool {
    rk(a) == rk(b)
}

fn same_chord(a: &[Key], b: &[Key]) -> bool {
    a.len() == b.len() && a.iter().zip(b).all(|(x, y)| same_key(x, y))
}

fn is_prefix(p: &[Key], c: &[Key]) -> bool {
    p.len() <= c.len() && same_chord(p, &c[..p.len()])
}

fn is_suffix(sfx: &[Key], c: &[Key]) -> bool {
    sfx.len() <= c.len() && same_chord(sfx, &c[c.len() - sfx.len()..])
}

fn has_key(c: &[Key], k: &Key) -> bool {
    c.iter().any(|x| same_key(x, k))
}

fn name_wire(n: &KeyName) -> String {
    use KeyName::*;
    let (v, p): (&str, u128) = match n {
        Backspace => ("Backspace", 0),
        Char(c) => ("Char", *c as u128),
        Delete => ("Delete", 0),
        Insert => ("Insert", 0),
        Down => ("Down", 0),
        End => ("End", 0),
        Enter => ("Enter", 0),
        Esc => ("Esc", 0),
        F(i) => ("F", *i as u128),
        Home => ("Home", 0),
        Left => ("Left", 0),
        MouseLeft => ("MouseLeft", 0),
        MouseMiddle => ("MouseMiddle", 0),
        MouseMove => ("MouseMove", 0),
        MouseRight => ("MouseRight", 0),
        MouseWheelDown => ("MouseWheelDown", 0),
        MouseWheelUp => ("MouseWheelUp", 0),
        PageDown => ("PageDown", 0),
        PageUp => ("PageUp", 0),
        Right => ("Right", 0),
        Tab => ("Tab", 0),
        Up => ("Up", 0),
    };
    format!("{v}:{p}")
}

fn key_wire(k: &Key) -> String {
    format!("{}:{}", name_wire(&k.name), mod_bits(k.mode))
}

fn chord_wire(c: &[Key]) -> String {
    if c.is_empty() { "-".to_string() } else { c.iter().map(key_wire).collect::<Vec<_>>().join(",") }
}

fn key_from_wire(s: &str) -> Option<Key> {
    use KeyName::*;
    let parts: Vec<&str> = s.split(':').collect();
    if parts.len() != 3 {
        return None;
    }
    let p: u128 = parts[1].parse().ok()?;
    let bits: u32 = parts[2].parse().ok()?;
    let name = match parts[0] {
        "Backspace" => Backspace,
        "Char" => Char(char::from_u32(p as u32)?),
        "Delete" => Delete,
        "Insert" => Insert,
        "Down" => Down,
        "End" => End,
        "Enter" => Enter,
        "Esc" => Esc,
        "F" => F(p as usize),
        "Home" => Home,
        "Left" => Left,
        "MouseLeft" => MouseLeft,
        "MouseMiddle" => MouseMiddle,
        "MouseMove" => MouseMove,
        "MouseRight" => MouseRight,
        "MouseWheelDown" => MouseWheelDown,
        "MouseWheelUp" => MouseWheelUp,
        "PageDown" => PageDown,
        "PageUp" => PageUp,
        "Right" => Right,
        "Tab" => Tab,
        "Up" => Up,
        _ => return None,
    };
    Some(Key::new(name, KeyMod::from_bits(bits)))
}

fn chord_from_wire(s: &str) -> Option<Vec<Key>> {
    if s == "-" { Some(vec![]) } else { s.split(',').map(key_from_wire).collect() }
}

fn cps(s: &str) -> String {
    if s.is_empty() { "-".to_string() } else { s.chars().map(|c| (c as u32).to_string()).collect::<Vec<_>>().join(",") }
}

// ---------------------------------------------------------------------------------------------------------
// key map: ops, execution against the implementation, dictionary oracle
// ---------------------------------------------------------------------------------------------------------

#[derive(Clone, Debug)]
enum Seg {
    Chord(Vec<Key>),
    Junk(Key),
}

#[derive(Clone, Debug)]
enum Op {
    RegA(Vec<Key>, u32),
    RegB(Vec<Key>, u32),
    Lookup(Vec<Key>),
    EnumA,
    EnumB,
    Override,
    Key(Key),
    SetState(Vec<Key>),
    ClearA,
    /// oracle-bearing: from a cleared state type these segments; every bound chord must fire at its last key
    Typed(Vec<Seg>),
    /// oracle-bearing: look up every chord over `alphabet` of length 1..=maxlen
    LookupAll(Vec<Key>, usize),
    /// `KeyMapHandler`: register / clear / handle
    HReg(Vec<Key>, u32),
    HClear,
    HKey(Key),
}

impl Op {
    fn to_json(&self) -> Value {
        match self {
            Op::RegA(c, v) => json!(format!("ra={}={}", chord_wire(c), v)),
            Op::RegB(c, v) => json!(format!("rb={}={}", chord_wire(c), v)),
            Op::Lookup(c) => json!(format!("l={}", chord_wire(c))),
            Op::EnumA => json!("e"),
            Op::EnumB => json!("eb"),
            Op::Override => json!("o"),
            Op::Key(k) => json!(format!("k={}", key_wire(k))),
            Op::SetState(c) => json!(format!("s={}", chord_wire(c))),
            Op::ClearA => json!("c"),
            Op::Typed(segs) => json!(format!(
                "typed={}",
                segs.iter()
                    .map(|s| match s {
                        Seg::Chord(c) => format!("c{}", chord_wire(c)),
                        Seg::Junk(k) => format!("j{}", key_wire(k)),
                    })
                    .collect::<Vec<_>>()
                    .join("/")
            )),
            Op::LookupAll(a, n) => json!(format!("all={}={}", chord_wire(a), n)),
            Op::HReg(c, v) => json!(format!("hr={}={}", chord_wire(c), v)),
            Op::HClear => json!("hc"),
            Op::HKey(k) => json!(format!("hk={}", key_wire(k))),
        }
    }
    fn from_json(v: &Value) -> Option<Op> {
        let s = v.as_str()?;
        let parts: Vec<&str> = s.split('=').collect();
        Some(match parts.as_slice() {
            ["ra", c, v] => Op::RegA(chord_from_wire(c)?, v.parse().ok()?),
            ["rb", c, v] => Op::RegB(chord_from_wire(c)?, v.parse().ok()?),
            ["l", c] => Op::Lookup(chord_from_wire(c)?),
            ["e"] => Op::EnumA,
            ["eb"] => Op::EnumB,
            ["o"] => Op::Override,
            ["k", k] => Op::Key(key_from_wire(k)?),
            ["s", c] => Op::SetState(chord_from_wire(c)?),
            ["c"] => Op::ClearA,
            ["typed", segs] => Op::Typed(
                segs.split('/')
                    .filter(|x| !x.is_empty())
                    .map(|x| {
                        if let Some(c) = x.strip_prefix('c') {
                            chord_from_wire(c).map(Seg::Chord)
                        } else {
                            key_from_wire(&x[1..]).map(Seg::Junk)
                        }
                    })
                    .collect::<Option<Vec<_>>>()?,
            ),
            ["all", a, n] => Op::LookupAll(chord_from_wire(a)?, n.parse().ok()?),
            ["hr", c, v] => Op::HReg(chord_from_wire(c)?, v.parse().ok()?),
            ["hc"] => Op::HClear,
            ["hk", k] => Op::HKey(key_from_wire(k)?),
            _ => return None,
        })
    }
}

fn related(a: &[Key], b: &[Key]) -> bool {
    is_prefix(a, b) || is_prefix(b, a)
}

/// The specification: chords with values, most recent last; binding removes every prefix-related chord.
#[derive(Clone, Default)]
struct Dict(Vec<(Vec<Key>, u32)>);

#[derive(Debug, PartialEq, Eq, Clone, Copy)]
enum Ans {
    Success(u32),
    Continue,
    Failure,
}

impl Dict {
    fn bind(&mut self, c: &[Key], v: u32) {
        if c.is_empty() {
            return;
        }
        self.0.retain(|(c2, _)| !related(c, c2));
        self.0.push((c.to_vec(), v));
    }
    fn lookup(&self, q: &[Key]) -> Ans {
        if let Some((_, v)) = self.0.iter().find(|(c, _)| same_chord(c, q)) {
            Ans::Success(*v)
        } else if self.0.iter().any(|(c, _)| c.len() > q.len() && is_prefix(q, c)) {
            Ans::Continue
        } else {
            Ans::Failure
        }
    }
    fn begins_chord(&self, k: &Key) -> bool {
        self.0.iter().any(|(c, _)| c.first().map(|f| same_key(f, k)).unwrap_or(false))
    }
    fn as_set(&self) -> BTreeSet<(String, u32)> {
        self.0.iter().map(|(c, v)| (chord_wire(c), *v)).collect()
    }
}

struct Failure {
    what: String,
    expected: Value,
    got: Value,
}

fn show_ans(r: &KeyMapResult<&u32>) -> (String, Ans) {
    match r {
        KeyMapResult::Success(v) => (format!("S{v}"), Ans::Success(**v)),
        KeyMapResult::Continue => ("C".to_string(), Ans::Continue),
        KeyMapResult::Failure => ("F".to_string(), Ans::Failure),
    }
}

/// enumeration of the implementation, canonicalised: sorted by the implementation's own `Ord` on chords
/// (a no-op for the `BTreeMap` trie; keeps a change of iteration order from being reported)
fn enumerate(m: &KeyMap<u32>) -> (Vec<(Vec<Key>, u32)>, bool) {
    let mut v: Vec<(Vec<Key>, u32)> = Vec::new();
    m.for_each(|c, x| v.push((c.to_vec(), *x)));
    let sorted = v.windows(2).all(|w| w[0].0 < w[1].0);
    if !sorted {
        v.sort();
    }
    (v, sorted)
}

fn show_enum(v: &[(Vec<Key>, u32)]) -> String {
    v.iter().map(|(c, x)| format!("{}={}", chord_wire(c), x)).collect::<Vec<_>>().join(";")
}

fn all_chords(alpha: &[Key], maxlen: usize) -> Vec<Vec<Key>> {
    let mut res: Vec<Vec<Key>> = Vec::new();
    let mut level: Vec<Vec<Key>> = vec![vec![]];
    for _ in 0..maxlen {
        let mut next = Vec::new();
        for c in &level {
            for k in alpha {
                let mut d = c.clone();
                d.push(*k);
                next.push(d);
            }
        }
        res.extend(next.iter().cloned());
        level = next;
    }
    res
}

/// Reference matcher: knows only the dictionary and the property.
/// * soundness — a fire needs a chord bound to that value that is a suffix of the keys since the last fire / reset;
/// * pending `p` known and `p + key` bound: must fire its value, nothing pending afterwards;
/// * `p + key` a proper prefix of a bound chord: must not fire, `p + key` pending;
/// * `p + key` dead and the key begins no bound chord: afterwards the matcher must behave as idle
///   ("an unbound key never prevents the chord typed immediately after it from firing", from any state);
/// * `p + key` dead and the key begins a chord: the restart policy is the implementation's business — the
///   reference stops predicting until the next fire, reset or foreign key;
/// * the table changes while something may be left in the matcher: stops predicting likewise — unless nothing at
///   all has been fed since the matcher was created or cleared (`fresh`): then it is idle whatever is registered.
#[derive(Clone)]
struct RefMatcher {
    /// the keys pending as far as the PROPERTY determines them (`None`: it does not)
    pending: Option<Vec<Key>>,
    /// keys since the last fire or reset (the reset contents included)
    since: Vec<Key>,
    /// no key fed since creation / clear()
    fresh: bool,
    judged: u64,
}

impl RefMatcher {
    fn new() -> Self {
        RefMatcher { pending: Some(vec![]), since: vec![], fresh: true, judged: 0 }
    }
    fn reset(&mut self, state: &[Key], fresh: bool) {
        self.pending = Some(state.to_vec());
        self.since = state.to_vec();
        self.fresh = fresh;
    }
    fn table_changed(&mut self) {
        if !self.fresh {
            self.pending = None;
        }
    }
    fn judge(&mut self, who: &str, dict: &Dict, k: Key, r: Option<u32>) -> Result<(), Failure> {
        let a = match r {
            None => "N".to_string(),
            Some(v) => format!("S{v}"),
        };
        self.fresh = false;
        self.since.push(k);
        if let Some(v) = r {
            let ok = dict.0.iter().any(|(c, x)| *x == v && is_suffix(c, &self.since));
            if !ok {
                return Err(Failure {
                    what: format!("{who} fired a value although no chord bound to it ends at this key"),
                    expected: json!("a bound chord that is a suffix of the keys since the last fire or reset"),
                    got: json!(format!("S{v} after {}", chord_wire(&self.since))),
                });
            }
            self.since.clear();
        }
        match self.pending.take() {
            Some(p) => {
                self.judged += 1;
                let mut q = p.clone();
                q.push(k);
                match dict.lookup(&q) {
                    Ans::Success(v) => {
                        if r != Some(v) {
                            return Err(Failure {
                                what: format!("{who}: pending {} + key {} is a bound chord but its value did not fire", chord_wire(&p), key_wire(&k)),
                                expected: json!(format!("S{v}")),
                                got: json!(a),
                            });
                        }
                        self.pending = Some(vec![]);
                    }
                    Ans::Continue => {
                        if r.is_some() {
                            return Err(Failure {
                                what: format!("{who}: pending {} + key {} is a proper prefix of a bound chord but something fired", chord_wire(&p), key_wire(&k)),
                                expected: json!("N"),
                                got: json!(a),
                            });
                        }
                        self.pending = Some(q);
                    }
                    Ans::Failure => {
                        if !dict.begins_chord(&k) || r.is_some() {
                            self.pending = Some(vec![]);
                        }
                    }
                }
            }
            None => {
                let foreign = !dict.0.iter().any(|(c, _)| has_key(c, &k));
                if r.is_some() || foreign {
                    self.pending = Some(vec![]);
                }
            }
        }
        Ok(())
    }
}

struct Exec {
    a: KeyMap<u32>,
    b: KeyMap<u32>,
    state: Vec<Key>,
    da: Dict,
    db: Dict,
    wire: Vec<String>,
    answers: Vec<String>,
    /// the ops the specification speaks about, with the implementation's answers (oracle line for the Lean spec)
    spec_wire: Vec<String>,
    spec_answers: Vec<String>,
    /// API-observable representation (previous entry returned by `register`, key vector left by
    /// `lookup_state`): compared with the model on a line of its own (`kmrep`)
    rep_wire: Vec<String>,
    rep_answers: Vec<String>,
    /// reference for `A.lookup_state` on the script's state vector
    refm: RefMatcher,
    /// a `KeyMapHandler`, its dictionary and its reference
    h: KeyMapHandler<u32>,
    dh: Dict,
    refh: RefMatcher,
    unsorted_enum: bool,
    lookups: u64,
    typed_chords: u64,
}

impl Exec {
    fn new() -> Self {
        Exec {
            a: KeyMap::new(),
            b: KeyMap::default(),
            state: vec![],
            da: Dict::default(),
            db: Dict::default(),
            wire: vec![],
            answers: vec![],
            spec_wire: vec![],
            spec_answers: vec![],
            rep_wire: vec![],
            rep_answers: vec![],
            refm: RefMatcher::new(),
            h: KeyMapHandler::default(),
            dh: Dict::default(),
            refh: RefMatcher::new(),
            unsorted_enum: false,
            lookups: 0,
            typed_chords: 0,
        }
    }

    fn emit(&mut self, w: String, a: String) {
        self.wire.push(w);
        self.answers.push(a);
    }

    fn emit_rep(&mut self, w: String, a: Option<String>) {
        self.rep_wire.push(w);
        if let Some(a) = a {
            self.rep_answers.push(a);
        }
    }

    fn emit_spec(&mut self, w: String, a: String) {
        self.spec_wire.push(w);
        self.spec_answers.push(a);
    }

    fn show_prev(&mut self, prev: Option<Result<u32, KeyMap<u32>>>) -> String {
        match prev {
            None => "-".to_string(),
            Some(Ok(v)) => format!("v{v}"),
            Some(Err(m)) => {
                let (e, sorted) = enumerate(&m);
                self.unsorted_enum |= !sorted;
                format!("m({})", show_enum(&e))
            }
        }
    }

    fn check_enum(&mut self, which: char) -> Result<(), Failure> {
        let (m, d) = if which == 'a' { (&self.a, &self.da) } else { (&self.b, &self.db) };
        let (e, sorted) = enumerate(m);
        self.unsorted_enum |= !sorted;
        let got: BTreeSet<(String, u32)> = e.iter().map(|(c, v)| (chord_wire(c), *v)).collect();
        let want = d.as_set();
        if got != want || got.len() != e.len() {
            return Err(Failure {
                what: format!("for_each of map {which} does not list exactly the bound chords"),
                expected: json!(want.iter().map(|(c, v)| format!("{c}={v}")).collect::<Vec<_>>()),
                got: json!(e.iter().map(|(c, v)| format!("{}={}", chord_wire(c), v)).collect::<Vec<_>>()),
            });
        }
        // other readers of the same table: a clone lists the same bindings, `Debug` lists as many entries
        let (e2, _) = enumerate(&m.clone());
        let dbg = format!("{m:?}");
        if e2.len() != e.len() || !e.iter().zip(e2.iter()).all(|(x, y)| same_chord(&x.0, &y.0) && x.1 == y.1) {
            return Err(Failure {
                what: format!("clone of map {which} lists other bindings than the map"),
                expected: json!(show_enum(&e)),
                got: json!(show_enum(&e2)),
            });
        }
        if dbg.matches(": ").count() < e.len() {
            return Err(Failure {
                what: format!("Debug of map {which} lists fewer entries than for_each"),
                expected: json!(e.len()),
                got: json!(dbg),
            });
        }
        let w = if which == 'a' { "e" } else { "eb" };
        self.emit(w.to_string(), format!("[{}]", show_enum(&e)));
        // for the specification: an order that does not depend on `Ord for Key`
        let mut canon: Vec<(String, u32)> = e.iter().map(|(c, v)| (chord_wire(c), *v)).collect();
        canon.sort();
        self.emit_spec(w.to_string(), format!("[{}]", canon.iter().map(|(c, v)| format!("{c}={v}")).collect::<Vec<_>>().join(";")));
        Ok(())
    }

    fn lookup(&mut self, c: &[Key]) -> Result<(), Failure> {
        let (s, ans) = show_ans(&self.a.lookup(c));
        self.lookups += 1;
        self.emit(format!("l={}", chord_wire(c)), s.clone());
        if !c.is_empty() {
            self.emit_spec(format!("l={}", chord_wire(c)), s);
            let want = self.da.lookup(c);
            if ans != want {
                return Err(Failure {
                    what: format!("lookup of chord {} differs from the dictionary", chord_wire(c)),
                    expected: json!(format!("{want:?}")),
                    got: json!(format!("{ans:?}")),
                });
            }
        }
        Ok(())
    }

    /// feed one key to `A.lookup_state`; returns what fired; judged on the spot by the reference matcher
    fn key(&mut self, k: Key) -> Result<Option<u32>, Failure> {
        let r = self.a.lookup_state(&mut self.state, k).copied();
        let a = match r {
            None => "N".to_string(),
            Some(v) => format!("S{v}"),
        };
        let st = chord_wire(&self.state);
        self.emit(format!("k={}", key_wire(&k)), a);
        self.emit_rep(format!("k={}", key_wire(&k)), Some(st));
        self.refm.judge("matcher", &self.da, k, r)?;
        Ok(r)
    }

    fn run(&mut self, op: &Op) -> Result<(), Failure> {
        match op {
            Op::RegA(c, v) => {
                let prev = self.a.register(c.as_slice(), *v);
                let p = self.show_prev(prev);
                self.emit(format!("ra={}={}", chord_wire(c), v), "r".to_string());
                self.emit_rep(format!("ra={}={}", chord_wire(c), v), Some(p));
                self.refm.table_changed();
                self.emit_spec(format!("ra={}={}", chord_wire(c), v), "r".to_string());
                self.da.bind(c, *v);
                if !c.is_empty() {
                    let (_, ans) = show_ans(&self.a.lookup(c));
                    if ans != Ans::Success(*v) {
                        return Err(Failure {
                            what: format!("lookup of the chord just registered ({})", chord_wire(c)),
                            expected: json!(format!("{:?}", Ans::Success(*v))),
                            got: json!(format!("{ans:?}")),
                        });
                    }
                }
            }
            Op::RegB(c, v) => {
                let prev = self.b.register(c.as_slice(), *v);
                let p = self.show_prev(prev);
                self.emit(format!("rb={}={}", chord_wire(c), v), "r".to_string());
                self.emit_rep(format!("rb={}={}", chord_wire(c), v), Some(p));
                self.emit_spec(format!("rb={}={}", chord_wire(c), v), "r".to_string());
                self.db.bind(c, *v);
            }
            Op::Lookup(c) => self.lookup(c)?,
            Op::EnumA => self.check_enum('a')?,
            Op::EnumB => self.check_enum('b')?,
            Op::Override => {
                self.a.register_override(&self.b);
                self.emit("o".to_string(), "o".to_string());
                self.emit_rep("o".to_string(), None);
                self.refm.table_changed();
                self.emit_spec("o".to_string(), "o".to_string());
                // the other map's chords are pairwise unrelated, so the order of replay is immaterial
                let other = self.db.0.clone();
                for (c, v) in other {
                    self.da.bind(&c, v);
                }
            }
            Op::Key(k) => {
                self.key(*k)?;
            }
            Op::SetState(c) => {
                self.state = c.clone();
                // the caller resets its own vector; only an EMPTY vector is "nothing fed yet"
                self.refm.reset(c, c.is_empty());
                self.emit(format!("s={}", chord_wire(c)), "s".to_string());
                self.emit_rep(format!("s={}", chord_wire(c)), None);
            }
            Op::ClearA => {
                self.a.clear();
                self.da = Dict::default();
                self.emit("c".to_string(), "c".to_string());
                self.emit_rep("c".to_string(), None);
                self.refm.table_changed();
                self.emit_spec("c".to_string(), "c".to_string());
            }
            Op::Typed(segs) => {
                self.state.clear();
                self.refm.reset(&[], true);
                self.emit("s=-".to_string(), "s".to_string());
                self.emit_rep("s=-".to_string(), None);
                // second matcher: the public handler type, loaded with the same bindings
                let mut handler: KeyMapHandler<u32> = KeyMapHandler::new();
                for (c, v) in self.da.0.iter() {
                    handler.register(c.as_slice(), *v);
                }
                let mut structured = true;
                for seg in segs {
                    match seg {
                        Seg::Junk(u) => {
                            structured &= !self.da.begins_chord(u);
                            let r = self.key(*u)?;
                            let r2 = handler.handle(*u).copied();
                            if structured && (r.is_some() || r2.is_some()) {
                                return Err(Failure {
                                    what: format!("matcher fired on the unbound key {}", key_wire(u)),
                                    expected: json!("N"),
                                    got: json!(format!("{r:?} / handler {r2:?}")),
                                });
                            }
                        }
                        Seg::Chord(c) => {
                            let want = match self.da.lookup(c) {
                                Ans::Success(v) => Some(v),
                                _ => None,
                            };
                            structured &= want.is_some();
                            for (i, k) in c.iter().enumerate() {
                                let r = self.key(*k)?;
                                let r2 = handler.handle(*k).copied();
                                if structured {
                                    let expect = if i + 1 == c.len() { want } else { None };
                                    if r != expect || r2 != expect {
                                        return Err(Failure {
                                            what: format!(
                                                "bound chord {} typed from an idle state: wrong answer at key {} of {}",
                                                chord_wire(c),
                                                i + 1,
                                                c.len()
                                            ),
                                            expected: json!(format!("{expect:?}")),
                                            got: json!(format!("lookup_state {r:?} / KeyMapHandler::handle {r2:?}")),
                                        });
                                    }
                                }
                            }
                            if structured {
                                self.typed_chords += 1;
                            }
                        }
                    }
                }
            }
            Op::LookupAll(alpha, n) => {
                for c in all_chords(alpha, *n) {
                    self.lookup(&c)?;
                }
            }
            Op::HReg(c, v) => {
                self.h.register(c.as_slice(), *v);
                self.dh.bind(c, *v);
                self.refh.table_changed();
                self.emit(format!("hr={}={}", chord_wire(c), v), "r".to_string());
            }
            Op::HClear => {
                // after clear() the table is empty and the matcher idle, whatever was pending
                self.h.clear();
                self.dh = Dict::default();
                self.refh.reset(&[], true);
                self.emit("hc".to_string(), "c".to_string());
            }
            Op::HKey(k) => {
                let r = self.h.handle(*k).copied();
                let a = match r {
                    None => "N".to_string(),
                    Some(v) => format!("S{v}"),
                };
                self.emit(format!("hk={}", key_wire(k)), a);
                self.refh.judge("KeyMapHandler", &self.dh, *k, r)?;
            }
        }
        Ok(())
    }
}

/// run a script from scratch; `Ok(exec)` or the first oracle failure (with the index of the failing op)
fn run_script(ops: &[Op]) -> Result<Exec, (usize, Failure)> {
    let mut ex = Exec::new();
    for (i, op) in ops.iter().enumerate() {
        match guarded(|| ex.run(op)) {
            Ok(Ok(())) => {}
            Ok(Err(f)) => return Err((i, f)),
            Err(()) => {
                return Err((
                    i,
                    Failure { what: "key map operation panicked".to_string(), expected: json!("no panic"), got: json!("panic") },
                ));
            }
        }
    }
    Ok(ex)
}

/// greedy shrink: cut after the failing op, then drop single ops while some oracle failure remains
fn shrink(ops: Vec<Op>) -> Vec<Op> {
    let mut cur = ops;
    if let Err((i, _)) = run_script(&cur) {
        cur.truncate(i + 1);
    }
    let mut budget = 600;
    let mut changed = true;
    while changed && budget > 0 {
        changed = false;
        let mut i = 0;
        while i < cur.len() && budget > 0 {
            let mut cand = cur.clone();
            cand.remove(i);
            budget -= 1;
            if run_script(&cand).is_err() {
                cur = cand;
                changed = true;
            } else {
                i += 1;
            }
        }
        // segments of typed streams, one at a time
        for i in 0..cur.len() {
            if let Op::Typed(segs) = &cur[i] {
                let mut segs = segs.clone();
                let mut j = 0;
                while j < segs.len() && budget > 0 {
                    let mut fewer = segs.clone();
                    fewer.remove(j);
                    let mut cand = cur.clone();
                    cand[i] = Op::Typed(fewer.clone());
                    budget -= 1;
                    if run_script(&cand).is_err() {
                        segs = fewer;
                        cur = cand;
                        changed = true;
                    } else {
                        j += 1;
                    }
                }
            }
        }
    }
    cur
}

fn script_case(out: &mut Out, tag: &str, ops: Vec<Op>) {
    out.hist(&format!("script:{tag}"));
    match run_script(&ops) {
        Ok(ex) => {
            let req = format!("c18 km {}", ex.wire.join(" "));
            let ans = ex.answers.join(" ");
            let regs = ops.iter().filter(|o| matches!(o, Op::RegA(..) | Op::RegB(..))).count();
            out.case(&req, regs >= 2);
            out.evaluations += ex.lookups + ex.typed_chords + ex.refm.judged + ex.refh.judged;
            if ex.unsorted_enum {
                out.hist("enum:not-in-key-order(canonicalised)");
            }
            out.hist(&format!("regs:{}", if regs <= 3 { "0-3" } else if regs <= 10 { "4-10" } else { "11+" }));
            out.hist(&format!("dict-size:{}", ex.da.0.len().min(8)));
            if out.lines % 997 == 0 {
                out.sample(json!({"kind": "script", "tag": tag, "request": req.chars().take(400).collect::<String>(), "impl": ans.chars().take(200).collect::<String>()}));
            }
            out.corr(&req, &ans);
            // representation only: a mismatch on a `kmrep` line with the `km` line intact means the returned
            // previous entry or the leftover key vector changed, not any lookup / enumeration / matcher answer
            if !ex.rep_answers.is_empty() {
                out.corr(&format!("c18 kmrep {}", ex.rep_wire.join(" ")), &ex.rep_answers.join(" "));
            }
            // the verified Lean specification (bind / bindAll / answer) on the same history must give what the
            // implementation answered
            if !ex.spec_wire.is_empty() {
                out.oracle(&format!("c18 spec {}", ex.spec_wire.join(" ")), &ex.spec_answers.join(" "));
            }
        }
        Err(_) => {
            let small = shrink(ops.clone());
            let (i, f) = match run_script(&small) {
                Err(x) => x,
                Ok(_) => match run_script(&ops) {
                    Err(x) => x,
                    Ok(_) => return,
                },
            };
            out.case(&format!("fail {tag} {}", out.failure_count), true);
            out.fail(
                &f.what,
                json!({"kind": "script", "tag": tag, "ops": small.iter().map(|o| o.to_json()).collect::<Vec<_>>(), "failing_op": i}),
                f.expected,
                f.got,
            );
        }
    }
}

// ---------------------------------------------------------------------------------------------------------
// generation of histories
// ---------------------------------------------------------------------------------------------------------

fn key_pool() -> Vec<Key> {
    use KeyName::*;
    let m = KeyMod::from_bits;
    vec![
        Key::new(Char('a'), m(0)),
        Key::new(Char('a'), m(1)),
        Key::new(Char('a'), m(2)),
        Key::new(Char('a'), m(4)),
        Key::new(Char('b'), m(0)),
        Key::new(Char('b'), m(4)),
        Key::new(Char('x'), m(4)),
        Key::new(Char('A'), m(0)),
        Key::new(Char(' '), m(0)),
        Key::new(Char('é'), m(0)),
        Key::new(Char('\u{10FFFF}'), m(0)),
        Key::new(Char('\0'), m(511)),
        Key::new(F(1), m(0)),
        Key::new(F(2), m(0)),
        Key::new(F(10), m(0)),
        Key::new(F(12), m(6)),
        Key::new(F(usize::MAX), m(0)),
        Key::new(F(0), m(256)),
        Key::new(Backspace, m(0)),
        Key::new(Backspace, m(511)),
        Key::new(Delete, m(0)),
        Key::new(Insert, m(1)),
        Key::new(Down, m(3)),
        Key::new(End, m(0)),
        Key::new(Enter, m(0)),
        Key::new(Esc, m(0)),
        Key::new(Home, m(0)),
        Key::new(Left, m(0)),
        Key::new(MouseLeft, m(0)),
        Key::new(MouseMiddle, m(0)),
        Key::new(MouseMove, m(128)),
        Key::new(MouseRight, m(0)),
        Key::new(MouseWheelDown, m(0)),
        Key::new(MouseWheelUp, m(4)),
        Key::new(PageDown, m(0)),
        Key::new(PageUp, m(0)),
        Key::new(Right, m(0)),
        Key::new(Tab, m(0)),
        Key::new(Up, m(0)),
        Key::new(Up, m(64)),
    ]
}

fn rand_chord(rng: &mut Rng, alpha: &[Key], maxlen: usize) -> Vec<Key> {
    // lengths 1..=maxlen, short ones favoured (dense prefix overlap)
    let w = [3u64, 5, 3, 1, 1, 1];
    let total: u64 = w[..maxlen].iter().sum();
    let mut r = rng.below(total);
    let mut len = 1;
    for (i, x) in w[..maxlen].iter().enumerate() {
        if r < *x {
            len = i + 1;
            break;
        }
        r -= x;
    }
    (0..len).map(|_| *rng.pick(alpha)).collect()
}

fn gen_typed(rng: &mut Rng, dict: &Dict, alpha: &[Key], junk: &[Key], nseg: usize) -> Vec<Seg> {
    let unbound: Vec<Key> = alpha.iter().chain(junk.iter()).filter(|k| !dict.begins_chord(k)).cloned().collect();
    let mut segs = Vec::new();
    for _ in 0..nseg {
        if !dict.0.is_empty() && (unbound.is_empty() || rng.chance(2, 3)) {
            segs.push(Seg::Chord(rng.pick(&dict.0).0.clone()));
        } else if !unbound.is_empty() {
            segs.push(Seg::Junk(*rng.pick(&unbound)));
        }
    }
    segs
}

fn gen_history(rng: &mut Rng, pool: &[Key], thorough: bool) -> Vec<Op> {
    let nalpha = 2 + rng.below(3) as usize; // 2..4 keys
    let mut alpha: Vec<Key> = Vec::new();
    while alpha.len() < nalpha {
        let k = *rng.pick(pool);
        if !has_key(&alpha, &k) {
            alpha.push(k);
        }
    }
    let mut junk: Vec<Key> = Vec::new();
    while junk.len() < 2 {
        let k = *rng.pick(pool);
        if !has_key(&alpha, &k) && !has_key(&junk, &k) {
            junk.push(k);
        }
    }
    let maxlen = if rng.chance(1, 6) { 5 } else { 4 };
    let nregs = match rng.below(10) {
        0 => rng.below(3),
        1..=5 => 3 + rng.below(8),
        6..=8 => 8 + rng.below(12),
        _ => 20 + rng.below(11),
    } as usize;
    let mut ops: Vec<Op> = Vec::new();
    // oracle dictionaries mirrored here only to generate meaningful streams
    let mut da = Dict::default();
    let mut db = Dict::default();
    let mut next_val = 1u32;
    for _ in 0..nregs {
        let c = if rng.chance(1, 40) { vec![] } else { rand_chord(rng, &alpha, maxlen) };
        let v = if rng.chance(1, 10) { 1 + rng.below(3) as u32 } else { next_val };
        next_val += 1;
        if rng.chance(1, 5) {
            db.bind(&c, v);
            ops.push(Op::RegB(c, v));
        } else {
            da.bind(&c, v);
            ops.push(Op::RegA(c, v));
        }
        match rng.below(24) {
            0 => ops.push(Op::EnumA),
            1 => {
                ops.push(Op::Override);
                for (c, v) in db.0.clone() {
                    da.bind(&c, v);
                }
            }
            2 => ops.push(Op::Lookup(rand_chord(rng, &alpha, maxlen))),
            3 => ops.push(Op::LookupAll(alpha.clone(), 2)),
            4 => ops.push(Op::Typed(gen_typed(rng, &da, &alpha, &junk, 3))),
            5 if rng.chance(1, 8) => {
                ops.push(Op::ClearA);
                da = Dict::default();
            }
            _ => {}
        }
    }
    // a few long chords, so that long prefixes can be pending when a chord is aborted
    if rng.chance(1, 2) {
        for _ in 0..(1 + rng.below(2)) {
            let len = 4 + rng.below(3) as usize;
            let c: Vec<Key> = (0..len).map(|_| *rng.pick(&alpha)).collect();
            da.bind(&c, next_val);
            ops.push(Op::RegA(c, next_val));
            next_val += 1;
        }
    }
    if rng.chance(1, 2) {
        ops.push(Op::EnumB);
        ops.push(Op::Override);
        for (c, v) in db.0.clone() {
            da.bind(&c, v);
        }
    }
    ops.push(Op::EnumA);
    let depth = if alpha.len() <= 3 || rng.chance(1, if thorough { 2 } else { 8 }) { 4 } else { 3 };
    ops.push(Op::LookupAll(alpha.clone(), depth));
    ops.push(Op::Lookup(vec![]));
    // structured stream: bound chords and unbound keys from an idle matcher
    let nseg = 2 + rng.below(6) as usize;
    ops.push(Op::Typed(gen_typed(rng, &da, &alpha, &junk, nseg)));
    // unstructured streams: any keys, from the state left behind and from an arbitrary state
    let with_junk: Vec<Key> = alpha.iter().chain(junk.iter()).cloned().collect();
    let nkeys = rng.below(13) as usize;
    for _ in 0..nkeys {
        let k = if rng.chance(1, 5) { *rng.pick(&with_junk) } else { *rng.pick(&alpha) };
        ops.push(Op::Key(k));
    }
    if rng.chance(1, 3) {
        ops.push(Op::SetState(rand_chord(rng, &with_junk, 3)));
        for _ in 0..(1 + rng.below(6)) {
            ops.push(Op::Key(*rng.pick(&with_junk)));
        }
    }
    // aborted chords: a proper prefix of a bound chord (the longest ones favoured) or an arbitrary vector is
    // pending, then a key that begins no bound chord, then a bound chord - which has to fire
    let unbound: Vec<Key> = with_junk.iter().filter(|k| !da.begins_chord(k)).cloned().collect();
    if !da.0.is_empty() && !unbound.is_empty() {
        let mut by_len: Vec<&(Vec<Key>, u32)> = da.0.iter().collect();
        by_len.sort_by_key(|(c, _)| std::cmp::Reverse(c.len()));
        for round in 0..(1 + rng.below(3)) {
            let pending: Vec<Key> = if round == 0 || rng.chance(2, 3) {
                let (c, _) = if rng.chance(2, 3) { by_len[0] } else { *rng.pick(&by_len) };
                if c.len() < 2 {
                    vec![]
                } else {
                    let j = if rng.chance(1, 2) { c.len() - 1 } else { 1 + rng.below(c.len() as u64 - 1) as usize };
                    c[..j].to_vec()
                }
            } else {
                (0..(1 + rng.below(5))).map(|_| *rng.pick(&with_junk)).collect()
            };
            if rng.chance(1, 2) {
                ops.push(Op::SetState(pending));
            } else {
                ops.push(Op::SetState(vec![]));
                for k in pending {
                    ops.push(Op::Key(k));
                }
            }
            for _ in 0..(1 + rng.below(2)) {
                ops.push(Op::Key(*rng.pick(&unbound)));
            }
            for _ in 0..(1 + rng.below(2)) {
                for k in rng.pick(&da.0).0.clone() {
                    ops.push(Op::Key(k));
                }
            }
        }
    }
    // a `KeyMapHandler` of its own: registrations, keys (chords are left half typed), clear(), registrations that
    // share prefixes with what was pending, chords typed right after; registering while a chord is pending
    if rng.chance(2, 3) {
        let mut dh = Dict::default();
        let mut hval = 100u32;
        for _round in 0..(1 + rng.below(3)) {
            for _ in 0..(1 + rng.below(4)) {
                let c = rand_chord(rng, &alpha, 4);
                dh.bind(&c, hval);
                ops.push(Op::HReg(c, hval));
                hval += 1;
            }
            // some typing, then (usually) a proper prefix of a bound chord is left pending
            for _ in 0..rng.below(3) {
                if rng.chance(1, 4) {
                    ops.push(Op::HKey(*rng.pick(&with_junk)));
                } else {
                    for k in rng.pick(&dh.0).0.clone() {
                        ops.push(Op::HKey(k));
                    }
                }
            }
            let long: Vec<Vec<Key>> = dh.0.iter().filter(|(c, _)| c.len() >= 2).map(|(c, _)| c.clone()).collect();
            let mut stale: Option<(Vec<Key>, usize)> = None;
            if !long.is_empty() && rng.chance(3, 4) {
                let c = rng.pick(&long).clone();
                let j = 1 + rng.below(c.len() as u64 - 1) as usize;
                for k in &c[..j] {
                    ops.push(Op::HKey(*k));
                }
                stale = Some((c, j));
            }
            if rng.chance(2, 3) {
                ops.push(Op::HClear);
                dh = Dict::default();
            }
            // the new bindings: the chord that was being typed again, and a chord that starts with the key that
            // would have continued it
            if let Some((c, j)) = &stale {
                if rng.chance(2, 3) {
                    dh.bind(c, hval);
                    ops.push(Op::HReg(c.clone(), hval));
                    hval += 1;
                    let mut d = vec![c[*j]];
                    for _ in 0..(1 + rng.below(2)) {
                        d.push(*rng.pick(&alpha));
                    }
                    if !related(&d, c) {
                        dh.bind(&d, hval);
                        ops.push(Op::HReg(d.clone(), hval));
                        hval += 1;
                        for k in d {
                            ops.push(Op::HKey(k));
                        }
                    }
                }
            }
            for _ in 0..rng.below(3) {
                let c = rand_chord(rng, &alpha, 3);
                dh.bind(&c, hval);
                ops.push(Op::HReg(c, hval));
                hval += 1;
            }
            if !dh.0.is_empty() {
                for _ in 0..(1 + rng.below(3)) {
                    if rng.chance(1, 4) {
                        ops.push(Op::HKey(*rng.pick(&junk)));
                    }
                    for k in rng.pick(&dh.0).0.clone() {
                        ops.push(Op::HKey(k));
                    }
                }
            }
        }
    }
    ops
}

fn corner_histories(pool: &[Key]) -> Vec<(&'static str, Vec<Op>)> {
    let a = pool[0];
    let b = pool[4];
    let x = pool[6];
    let f1 = pool[12];
    let alpha = vec![a, b, x];
    let tail = |ops: &mut Vec<Op>, alpha: &Vec<Key>| {
        ops.push(Op::EnumA);
        ops.push(Op::LookupAll(alpha.clone(), 4));
        ops.push(Op::Lookup(vec![]));
    };
    let mut res = Vec::new();
    // empty map
    let mut ops = vec![Op::EnumA, Op::Lookup(vec![]), Op::Lookup(vec![a]), Op::Key(a), Op::Key(a), Op::Override, Op::EnumA];
    tail(&mut ops, &alpha);
    res.push(("empty", ops));
    // re-registration of a prefix: the extension subtree must go
    let mut ops = vec![Op::RegA(vec![a, b, x], 1), Op::RegA(vec![a, b, a], 2), Op::RegA(vec![a, b], 3)];
    tail(&mut ops, &alpha);
    ops.push(Op::RegA(vec![a], 4));
    tail(&mut ops, &alpha);
    res.push(("prefix-over-extensions", ops));
    // registration of an extension: the bound prefix must go
    let mut ops = vec![Op::RegA(vec![a], 1), Op::RegA(vec![a, b], 2), Op::RegA(vec![a, b, x, a], 3)];
    tail(&mut ops, &alpha);
    res.push(("extension-over-prefix", ops));
    // same chord twice, empty chord
    let mut ops = vec![Op::RegA(vec![a, b], 1), Op::RegA(vec![a, b], 2), Op::RegA(vec![], 3), Op::RegA(vec![b], 4), Op::RegA(vec![b], 4)];
    tail(&mut ops, &alpha);
    res.push(("re-register", ops));
    // override merging: prefix and extension relations across the two maps
    let mut ops = vec![
        Op::RegA(vec![a, b], 1),
        Op::RegA(vec![b], 2),
        Op::RegA(vec![x, x, x], 3),
        Op::RegA(vec![x, a], 4),
        Op::RegB(vec![a], 10),
        Op::RegB(vec![b, b], 11),
        Op::RegB(vec![x, x], 12),
        Op::RegB(vec![f1], 13),
        Op::EnumB,
        Op::Override,
    ];
    tail(&mut ops, &vec![a, b, x, f1]);
    ops.push(Op::Override);
    tail(&mut ops, &alpha);
    res.push(("override", ops));
    // matcher: chord after an unbound key; unbound key in the middle of a pending chord; chord after chord
    let mut ops = vec![Op::RegA(vec![a, b], 1), Op::RegA(vec![b], 2), Op::RegA(vec![a, a, a], 3)];
    ops.push(Op::Typed(vec![Seg::Junk(x), Seg::Chord(vec![a, b]), Seg::Junk(x), Seg::Junk(f1), Seg::Chord(vec![b]), Seg::Chord(vec![a, a, a]), Seg::Chord(vec![a, b])]));
    for k in [a, x, a, b, a, a, b, a, a, x, b, x, x, a, a, a] {
        ops.push(Op::Key(k));
    }
    ops.push(Op::SetState(vec![x, x]));
    for k in [a, b, b] {
        ops.push(Op::Key(k));
    }
    res.push(("matcher", ops));
    // aborted chord with three and four keys pending, then an unbound key, then a chord (one and two keys)
    let mut ops = vec![Op::RegA(vec![a, b, a, b, a], 1), Op::RegA(vec![x], 2), Op::RegA(vec![b, x], 3)];
    for pending in [3usize, 4, 2, 1] {
        ops.push(Op::SetState(vec![]));
        for k in [a, b, a, b][..pending].iter() {
            ops.push(Op::Key(*k));
        }
        ops.push(Op::Key(f1));
        ops.push(Op::Key(x));
        ops.push(Op::SetState([a, b, a, b][..pending].to_vec()));
        ops.push(Op::Key(f1));
        ops.push(Op::Key(b));
        ops.push(Op::Key(x));
        ops.push(Op::Key(x));
    }
    ops.push(Op::SetState(vec![f1, f1, x, f1, b]));
    ops.push(Op::Key(f1));
    ops.push(Op::Key(x));
    res.push(("matcher-aborted-chord", ops));
    // KeyMapHandler: clear() while a chord is half typed, then bindings that share the stale prefix
    let ops = vec![
        Op::HReg(vec![x, a], 1),
        Op::HKey(x),
        Op::HClear,
        Op::HReg(vec![x, a], 10),
        Op::HReg(vec![a, b], 11),
        Op::HKey(a),
        Op::HKey(b),
        Op::HKey(x),
        Op::HKey(a),
        Op::HClear,
        Op::HKey(a),
        Op::HKey(x),
        Op::HReg(vec![b], 12),
        Op::HKey(b),
        Op::HKey(f1),
        Op::HKey(b),
        // registering while a chord is pending
        Op::HReg(vec![a, a, a], 13),
        Op::HKey(a),
        Op::HKey(a),
        Op::HReg(vec![a, a, b], 14),
        Op::HKey(b),
        Op::HKey(f1),
        Op::HKey(a),
        Op::HKey(a),
        Op::HKey(a),
    ];
    res.push(("handler-clear", ops));
    // order of iteration across variants, payloads and modifiers
    let mut ops: Vec<Op> = Vec::new();
    for (i, k) in pool.iter().enumerate().rev() {
        if i % 3 == 0 {
            ops.push(Op::RegA(vec![*k, pool[(i * 7 + 3) % pool.len()]], i as u32));
        } else {
            ops.push(Op::RegA(vec![*k], i as u32));
        }
    }
    for (i, k) in pool.iter().enumerate() {
        if i % 3 == 0 {
            ops.push(Op::RegA(vec![*k, pool[(i * 5 + 1) % pool.len()]], 100 + i as u32));
        }
    }
    ops.push(Op::EnumA);
    res.push(("key-order", ops));
    res
}

// ---------------------------------------------------------------------------------------------------------
// parsers
// ---------------------------------------------------------------------------------------------------------

/// lower-case table for the Lean driver: every non-ASCII character of `s` and of the expansions, closed under
/// one more lowering; `None` when `str::to_lowercase` is not the per-character map on some piece (final sigma)
fn low_table(s: &str) -> Option<String> {
    let mut tab: Vec<(u32, Vec<u32>)> = Vec::new();
    let mut todo: Vec<char> = s.chars().filter(|c| !c.is_ascii()).collect();
    let mut guard = 0;
    while let Some(c) = todo.pop() {
        guard += 1;
        if guard > 10_000 {
            return None;
        }
        if tab.iter().any(|(x, _)| *x == c as u32) {
            continue;
        }
        let l: Vec<char> = c.to_lowercase().collect();
        for d in &l {
            if !d.is_ascii() && *d != c {
                todo.push(*d);
            }
        }
        tab.push((c as u32, l.iter().map(|d| *d as u32).collect()));
    }
    let per_char = |p: &str| -> String { p.chars().flat_map(|c| c.to_lowercase()).collect() };
    for word in s.split(' ') {
        for piece in word.split('+') {
            let l1 = piece.to_lowercase();
            if l1 != per_char(piece) || l1.to_lowercase() != per_char(&l1) {
                return None;
            }
        }
    }
    // the whole string is also passed to KeyName::from_str
    let l1 = s.to_lowercase();
    if l1 != per_char(s) {
        return None;
    }
    tab.sort();
    Some(if tab.is_empty() {
        "-".to_string()
    } else {
        tab.iter()
            .map(|(c, l)| format!("{}>{}", c, l.iter().map(|x| x.to_string()).collect::<Vec<_>>().join(".")))
            .collect::<Vec<_>>()
            .join(",")
    })
}

fn parse_case(out: &mut Out, tag: &str, s: &str, corr: bool) {
    out.hist(&format!("parse:{tag}"));
    let table = if corr { low_table(s) } else { None };
    if corr && table.is_none() {
        out.hist("parse:corr-skipped(context-sensitive lowercase)");
    }
    let input = |what: &str| json!({"kind": "parse", "parser": what, "string": s, "code_points": s.chars().map(|c| c as u32).collect::<Vec<_>>()});

    // KeyName
    let r = guarded(|| KeyName::from_str(s));
    let ans = match &r {
        Err(()) => {
            out.fail("KeyName::from_str panicked", input("KeyName"), json!("Ok or Err"), json!("panic"));
            "panic".to_string()
        }
        Ok(Err(_)) => "err".to_string(),
        Ok(Ok(n)) => {
            let printed = n.to_string();
            match guarded(|| KeyName::from_str(&printed)) {
                Ok(Ok(n2)) if name_wire(&n2) == name_wire(n) => {}
                other => out.fail(
                    "KeyName: printed form does not parse back to the same value",
                    input("KeyName"),
                    json!(format!("Ok({})", name_wire(n))),
                    json!(format!("printed {:?} -> {:?}", printed, other.map(|r| r.map(|n| name_wire(&n)).map_err(|e| e.to_string())))),
                ),
            }
            format!("{}|{}", name_wire(n), cps(&printed))
        }
    };
    let accepted_name = matches!(r, Ok(Ok(_)));
    if let Some(t) = &table {
        out.corr(&format!("c18 pn {} {}", cps(s), t), &ans);
    }

    // Key
    let r = guarded(|| Key::from_str(s));
    let ans = match &r {
        Err(()) => {
            out.fail("Key::from_str panicked", input("Key"), json!("Ok or Err"), json!("panic"));
            "panic".to_string()
        }
        Ok(Err(_)) => "err".to_string(),
        Ok(Ok(k)) => {
            let printed = k.to_string();
            match guarded(|| Key::from_str(&printed)) {
                Ok(Ok(k2)) if same_key(&k2, k) => {}
                other => out.fail(
                    "Key: printed form does not parse back to the same value",
                    input("Key"),
                    json!(format!("Ok({})", key_wire(k))),
                    json!(format!("printed {:?} -> {:?}", printed, other.map(|r| r.map(|k| key_wire(&k)).map_err(|e| e.to_string())))),
                ),
            }
            format!("{}|{}", key_wire(k), cps(&printed))
        }
    };
    let accepted_key = matches!(r, Ok(Ok(_)));
    if let Some(t) = &table {
        out.corr(&format!("c18 pk {} {}", cps(s), t), &ans);
    }

    // KeyChord
    let r = guarded(|| KeyChord::from_str(s));
    let ans = match &r {
        Err(()) => {
            out.fail("KeyChord::from_str panicked", input("KeyChord"), json!("Ok or Err"), json!("panic"));
            "panic".to_string()
        }
        Ok(Err(_)) => "err".to_string(),
        Ok(Ok(c)) => {
            let printed = c.to_string();
            match guarded(|| KeyChord::from_str(&printed)) {
                Ok(Ok(c2)) if same_chord(c2.keys(), c.keys()) => {}
                other => out.fail(
                    "KeyChord: printed form does not parse back to the same value",
                    input("KeyChord"),
                    json!(format!("Ok({})", chord_wire(c.keys()))),
                    json!(format!("printed {:?} -> {:?}", printed, other.map(|r| r.map(|c| chord_wire(c.keys())).map_err(|e| e.to_string())))),
                ),
            }
            format!("{}|{}", chord_wire(c.keys()), cps(&printed))
        }
    };
    let accepted_chord = matches!(r, Ok(Ok(_)));
    if let Some(t) = &table {
        out.corr(&format!("c18 pc {} {}", cps(s), t), &ans);
    }
    out.evaluations += 2;
    out.case(&format!("parse {s}"), accepted_name || accepted_key || accepted_chord);
    out.hist(match (accepted_name, accepted_key, accepted_chord) {
        (_, true, _) => "parse-result:key-accepted",
        (_, false, true) => "parse-result:chord-only-accepted",
        _ => "parse-result:rejected",
    });
    if out.lines % 4999 < 3 {
        out.sample(json!({"kind": "parse", "string": s, "key": ans}));
    }
}

const NAMES: [&str; 16] = [
    "left", "up", "right", "down", "pageup", "pagedown", "end", "home", "tab", "enter", "escape", "esc", "space",
    "backspace", "delete", "insert",
];
const MODS: [&str; 8] = ["alt", "ctrl", "shift", "press", "super", "hyper", "meta", "capslock"];
const PLAIN: &str = "abcdefghijklmnopqrstuvwxyz0123456789`-=[]\\;,./";
/// characters that matter to the parser, to the printer, or to case mapping
const ODD: [char; 40] = [
    '+', ' ', '"', '\t', '\n', '\0', 'f', 'F', '0', '9', '1', 'K', 'k', '\u{212A}', '\u{212B}', '\u{130}', '\u{131}', 'ß',
    '\u{1E9E}', 'Σ', 'σ', 'ς', '\u{1C5}', '\u{FB00}', '\u{FB01}', '\u{17F}', 'É', 'é', '\u{10400}', '\u{1D518}', '\u{10FFFF}',
    '\u{FF26}', '\u{FF11}', '\u{660}', 'A', 'Z', '_', '!', '\u{307}', '\u{a0}',
];

fn rand_case(rng: &mut Rng, s: &str) -> String {
    match rng.below(4) {
        0 => s.to_string(),
        1 => s.to_uppercase(),
        _ => s
            .chars()
            .map(|c| {
                if rng.chance(1, 3) {
                    if c == 'k' && rng.chance(1, 3) { '\u{212A}' } else { c.to_ascii_uppercase() }
                } else {
                    c
                }
            })
            .collect(),
    }
}

fn gen_fname(rng: &mut Rng) -> String {
    let digits = match rng.below(10) {
        0 => "0".to_string(),
        1 => format!("{}", rng.below(36)),
        2 => format!("{:0>w$}", rng.below(100), w = 1 + rng.below(30) as usize),
        3 => "18446744073709551615".to_string(),
        4 => "18446744073709551616".to_string(),
        5 => format!("{}", rng.next()),
        6 => format!("{}{}", rng.next(), rng.below(1000)),
        7 => (0..(20 + rng.below(40))).map(|_| char::from(b'0' + rng.below(10) as u8)).collect(),
        8 => format!("1844674407370955{}", 1000 + rng.below(9000)),
        _ => format!("{}", rng.below(1 << 20)),
    };
    format!("f{digits}")
}

fn gen_key_string(rng: &mut Rng) -> String {
    let mut parts: Vec<String> = Vec::new();
    let nm = match rng.below(6) {
        0..=1 => 0,
        2..=3 => 1,
        4 => 2,
        _ => rng.below(9) as usize,
    };
    for _ in 0..nm {
        let m: &str = *rng.pick(&MODS);
        parts.push(rand_case(rng, m));
    }
    let name = match rng.below(5) {
        0..=1 => {
            let n: &str = *rng.pick(&NAMES);
            rand_case(rng, n)
        }
        2 => {
            let f = gen_fname(rng);
            rand_case(rng, &f)
        }
        _ => {
            let c = *rng.pick(&PLAIN.chars().collect::<Vec<_>>());
            rand_case(rng, &c.to_string())
        }
    };
    // the name is usually last, but any position is accepted
    let pos = if rng.chance(3, 4) { parts.len() } else { rng.below(parts.len() as u64 + 1) as usize };
    parts.insert(pos, name);
    parts.join("+")
}

fn gen_chord_string(rng: &mut Rng) -> String {
    let n = 1 + rng.below(4);
    let mut s = String::new();
    if rng.chance(1, 6) {
        s.push(' ');
    }
    for i in 0..n {
        if i > 0 {
            for _ in 0..(1 + rng.below(2) * rng.below(3)) {
                s.push(' ');
            }
        }
        s.push_str(&gen_key_string(rng));
    }
    if rng.chance(1, 6) {
        s.push(' ');
    }
    s
}

fn mutate(rng: &mut Rng, s: &str) -> String {
    let mut cs: Vec<char> = s.chars().collect();
    let n = 1 + rng.below(3);
    for _ in 0..n {
        let odd = *rng.pick(&ODD);
        match rng.below(4) {
            0 if !cs.is_empty() => {
                let i = rng.below(cs.len() as u64) as usize;
                cs.remove(i);
            }
            1 if !cs.is_empty() => {
                let i = rng.below(cs.len() as u64) as usize;
                cs[i] = odd;
            }
            2 if cs.len() >= 2 => {
                let i = rng.below(cs.len() as u64 - 1) as usize;
                cs.swap(i, i + 1);
            }
            _ => {
                let i = rng.below(cs.len() as u64 + 1) as usize;
                cs.insert(i, odd);
            }
        }
    }
    cs.into_iter().collect()
}

fn corner_strings() -> Vec<String> {
    let mut v: Vec<String> = [
        "", " ", "+", "++", "a", "A", "f", "F", "f0", "f1", "F12", "f007", "f18446744073709551615", "f18446744073709551616",
        "f99999999999999999999999", "F99999999999999999999999", "ctrl+f99999999999999999999999", "f+1", "f-1", "f1a", "ff",
        "f１", "fİ", "\u{FB00}1", "\u{FF26}1", "\u{212A}", "ctrl+\u{212A}", "bac\u{212A}space", "\u{130}", "ß", "Σ", "ΑΣ", "ΑΣ+a",
        "a+ΑΣ", "\u{1C5}", "ctrl+x", "ctrl+x f", "ctrl+x a b", "Ctrl+Alt+Delete", "shift+", "+a", "a+", "a+b", "a+a", "ctrl+a+zzz",
        "ctrl+a+zzz+shift", "ctrl+ctrl+a", "a+ctrl", "alt", "ctrl+alt", "a  b", " a", "a ", "  ", "space", "ctrl+space", "tab",
        "\t", "\"", "\"A\"", "\"a\"", "None", "none+a", "esc", "escape", "ESCAPE", "enter", "\n", "mouseleft", "numlock+a",
        "press+capslock+meta+hyper+super+ctrl+alt+shift+up", "-", "=", "`", "\\", ";", ",", ".", "/", "[", "]", "'", "+ +", "a +b",
        "f1 f2 f3", "f1  F2   f03", "é", "ctrl+é", "\u{10FFFF}", "\0", "f\0", "f 1", "f1+f2", "up+down", "up+", "backspace+backspace",
    ]
    .iter()
    .map(|s| s.to_string())
    .collect();
    v.push(format!("f{}", "0".repeat(300)));
    v.push(format!("f{}1", "0".repeat(300)));
    v.push(format!("f{}", "9".repeat(5000)));
    v
}

/// every printable value: parse(print(k)) is `k` again or an error — and never a panic; correspondence of the printer
fn print_case(out: &mut Out, k: &Key) {
    let printed = match guarded(|| k.to_string()) {
        Ok(p) => p,
        Err(()) => {
            out.hist("print:panic");
            return;
        }
    };
    out.hist("print:key");
    out.case(&format!("print {}", key_wire(k)), true);
    out.corr(&format!("c18 sk {}", key_wire(k)), &cps(&printed));
    parse_case(out, "printed-key", &printed, true);
}

/// the two facts about `char::to_lowercase` the totality theorem assumes, against all of Unicode — by running
/// the parsers on every one- and two-character string `c`, `c1` (a violated assumption shows up as a panic)
fn unicode_sweep(out: &mut Out, step: u32) {
    let mut n = 0u64;
    let mut c = 0u32;
    while c <= 0x10FFFF {
        if let Some(ch) = char::from_u32(c) {
            let lower: Vec<char> = ch.to_lowercase().collect();
            let interesting = lower.first().map(|d| d.is_ascii()).unwrap_or(true) || lower.len() != 1 || lower[0] != ch;
            if interesting || c % step == 0 {
                let s1 = ch.to_string();
                let s2 = format!("{ch}1");
                for s in [&s1, &s2] {
                    n += 1;
                    if guarded(|| (KeyName::from_str(s).is_ok(), Key::from_str(s).is_ok(), KeyChord::from_str(s).is_ok())).is_err() {
                        out.fail(
                            "parser panicked",
                            json!({"kind": "parse", "parser": "any", "string": s, "code_points": s.chars().map(|c| c as u32).collect::<Vec<_>>()}),
                            json!("Ok or Err"),
                            json!("panic"),
                        );
                    }
                }
                if ch.is_ascii() && lower != vec![ch.to_ascii_lowercase()] {
                    out.hist("assumption-broken:ascii-lowercase");
                }
                if !ch.is_ascii() && lower.first() == Some(&'f') {
                    out.hist("assumption-broken:nonascii-lowers-to-f");
                }
            }
        }
        c += 1;
    }
    out.evaluations += n;
    out.extra("unicode_sweep_strings", json!(n));
}

// ---------------------------------------------------------------------------------------------------------

fn ord_str(o: std::cmp::Ordering) -> &'static str {
    match o {
        std::cmp::Ordering::Less => "lt",
        std::cmp::Ordering::Equal => "eq",
        std::cmp::Ordering::Greater => "gt",
    }
}

/// records every write of a `Hash` impl, so that two hashes can be compared without trusting any hasher
#[derive(Default)]
struct Tape(Vec<u8>);
impl std::hash::Hasher for Tape {
    fn finish(&self) -> u64 {
        0
    }
    fn write(&mut self, bytes: &[u8]) {
        self.0.extend_from_slice(bytes);
    }
}
fn hash_tape<T: std::hash::Hash>(t: &T) -> Vec<u8> {
    let mut h = Tape::default();
    t.hash(&mut h);
    h.0
}

/// `Ord` / `Eq` / `Hash` of `Key`, `KeyName`, `KeyMod`: the order against the model's (correspondence), and —
/// oracle, with the harness' own raw identity — keys are equal / compare `Equal` / hash alike exactly when they are
/// the same key (otherwise chords collide or split in the map), and `cmp` is antisymmetric
fn cmp_case(out: &mut Out, a: &Key, b: &Key) {
    let same = same_key(a, b);
    out.hist("cmp");
    out.case(&format!("cmp {} {}", key_wire(a), key_wire(b)), !same);
    let r = guarded(|| {
        (
            a.cmp(b),
            b.cmp(a),
            a.partial_cmp(b),
            a == b,
            a.name.cmp(&b.name),
            a.name == b.name,
            a.mode.cmp(&b.mode),
            a.mode == b.mode,
            hash_tape(a) == hash_tape(b),
            (a < b, a <= b, a > b, a >= b),
        )
    });
    let input = json!({"kind": "cmp", "a": key_wire(a), "b": key_wire(b)});
    let Ok((ab, ba, pab, eq, nab, neq, mab, meq, heq, (lt, le, gt, ge))) = r else {
        out.fail("comparison of two keys panicked", input, json!("an ordering"), json!("panic"));
        return;
    };
    out.corr(&format!("c18 cmp {} {}", key_wire(a), key_wire(b)), ord_str(ab));
    out.corr(&format!("c18 cmpn {} {}", key_wire(a), key_wire(b)), ord_str(nab));
    out.corr(&format!("c18 cmpm {} {}", key_wire(a), key_wire(b)), ord_str(mab));
    let (ra, rb) = (rk(a), rk(b));
    let same_name = (ra.0, ra.1) == (rb.0, rb.1);
    let same_mode = ra.2 == rb.2;
    let mut bad: Vec<String> = Vec::new();
    if eq != same {
        bad.push(format!("Key == gives {eq}"));
    }
    if (ab == std::cmp::Ordering::Equal) != same {
        bad.push(format!("Key cmp gives {ab:?}"));
    }
    if ba != ab.reverse() {
        bad.push(format!("cmp(a,b)={ab:?} but cmp(b,a)={ba:?}"));
    }
    if pab != Some(ab) {
        bad.push(format!("partial_cmp {pab:?} vs cmp {ab:?}"));
    }
    if (lt, le, gt, ge) != (ab.is_lt(), ab.is_le(), ab.is_gt(), ab.is_ge()) {
        bad.push("operators < <= > >= disagree with cmp".to_string());
    }
    if neq != same_name || (nab == std::cmp::Ordering::Equal) != same_name {
        bad.push(format!("KeyName == {neq}, cmp {nab:?}"));
    }
    if meq != same_mode || (mab == std::cmp::Ordering::Equal) != same_mode {
        bad.push(format!("KeyMod == {meq}, cmp {mab:?}"));
    }
    if same && !heq {
        bad.push("equal keys hash differently".to_string());
    }
    if !bad.is_empty() {
        out.fail(
            "Eq / Ord / Hash of keys do not identify exactly the same keys (chords would collide or split in the map)",
            input,
            json!(if same { "same key: equal, Equal, same hash" } else { "different keys: not equal, not Equal" }),
            json!(bad.join("; ")),
        );
    }
}

/// `cmp` is transitive on every triple of the pool (what `BTreeMap` needs)
fn cmp_transitive(out: &mut Out, pool: &[Key]) {
    let n = pool.len();
    let lt: Vec<Vec<bool>> = pool.iter().map(|a| pool.iter().map(|b| a.cmp(b).is_lt()).collect()).collect();
    for i in 0..n {
        for j in 0..n {
            if !lt[i][j] {
                continue;
            }
            for k in 0..n {
                if lt[j][k] && !lt[i][k] {
                    out.fail(
                        "Ord of keys is not transitive",
                        json!({"kind": "cmp3", "a": key_wire(&pool[i]), "b": key_wire(&pool[j]), "c": key_wire(&pool[k])}),
                        json!("a < c"),
                        json!("a < b, b < c, not a < c"),
                    );
                    return;
                }
            }
        }
    }
    out.evaluations += (n * n * n) as u64;
}

/// `KeyMod` as a bit set, against plain integer arithmetic on the raw bits: constants, `from_bits` (masks with
/// `ALL` = 511), `is_empty`, `contains`, `|`, `|=`
fn keymod_table(out: &mut Out, rng: &mut Rng) {
    let consts: [(&str, KeyMod, u32); 11] = [
        ("EMPTY", KeyMod::EMPTY, 0),
        ("SHIFT", KeyMod::SHIFT, 1),
        ("ALT", KeyMod::ALT, 2),
        ("CTRL", KeyMod::CTRL, 4),
        ("SUPER", KeyMod::SUPER, 8),
        ("HYPER", KeyMod::HYPER, 16),
        ("META", KeyMod::META, 32),
        ("CAPSLOCK", KeyMod::CAPSLOCK, 64),
        ("NUMLOCK", KeyMod::NUMLOCK, 128),
        ("PRESS", KeyMod::PRESS, 256),
        ("ALL", KeyMod::ALL, 511),
    ];
    let fail = |out: &mut Out, what: String, expected: String, got: String| {
        out.fail("KeyMod is not the bit set of its modifiers", json!({"kind": "keymod", "case": what}), json!(expected), json!(got));
    };
    for (n, m, bits) in consts.iter() {
        if mod_bits(*m) != *bits {
            fail(out, format!("constant {n}"), bits.to_string(), mod_bits(*m).to_string());
        }
    }
    let mut values: Vec<u32> = (0..1024).collect();
    for _ in 0..200 {
        values.push(rng.next() as u32);
    }
    values.extend([u32::MAX, 1 << 31, 512, 511 << 9]);
    for &b in values.iter() {
        let Ok(m) = guarded(|| KeyMod::from_bits(b)) else {
            fail(out, format!("from_bits({b})"), "a value".to_string(), "panic".to_string());
            continue;
        };
        let raw = mod_bits(m);
        if raw != b & 511 {
            fail(out, format!("from_bits({b})"), (b & 511).to_string(), raw.to_string());
        }
        if contains_bits(m) != raw {
            fail(out, format!("contains on bits {raw}"), raw.to_string(), contains_bits(m).to_string());
        }
        if m.is_empty() != (raw == 0) {
            fail(out, format!("is_empty on bits {raw}"), (raw == 0).to_string(), m.is_empty().to_string());
        }
        let o = rng.below(512) as u32;
        let other = KeyMod::from_bits(o);
        let want_contains = raw & mod_bits(other) == mod_bits(other);
        if m.contains(other) != want_contains {
            fail(out, format!("bits {raw} contains bits {o}"), want_contains.to_string(), m.contains(other).to_string());
        }
        let or = m | other;
        let mut or2 = m;
        or2 |= other;
        if mod_bits(or) != (raw | mod_bits(other)) || mod_bits(or2) != mod_bits(or) {
            fail(out, format!("bits {raw} | bits {o}"), (raw | mod_bits(other)).to_string(), format!("{} / |= {}", mod_bits(or), mod_bits(or2)));
        }
        out.evaluations += 1;
    }
    out.hist("keymod-table");
}

/// the other ways to make and read keys and chords agree with the plain ones (raw identity)
fn constructors(out: &mut Out, rng: &mut Rng, pool: &[Key]) {
    for _ in 0..200 {
        let k = rand_key(rng, pool);
        let k1: Key = Key::new(k.name, k.mode);
        let k2: Key = (k.name, k.mode).into();
        let k3: Key = k.name.into();
        let want3 = (rk(&k).0, rk(&k).1, 0u32);
        if !same_key(&k1, &k) || !same_key(&k2, &k) || rk(&k3) != want3 {
            out.fail(
                "Key::new / From<(KeyName, KeyMod)> / From<KeyName> build different keys",
                json!({"kind": "ctor", "key": key_wire(&k)}),
                json!(key_wire(&k)),
                json!(format!("{} / {} / {}", key_wire(&k1), key_wire(&k2), key_wire(&k3))),
            );
        }
        let n = 1 + rng.below(4) as usize;
        let keys: Vec<Key> = (0..n).map(|_| rand_key(rng, pool)).collect();
        let c1 = KeyChord::new(keys.clone());
        let c2: KeyChord = keys.iter().collect();
        let c3: KeyChord = keys.iter().cloned().collect();
        let r1: &[Key] = c1.as_ref();
        if !same_chord(c1.keys(), &keys) || !same_chord(r1, &keys) || !same_chord(c2.keys(), &keys) || !same_chord(c3.keys(), &keys) {
            out.fail(
                "KeyChord::new / FromIterator / keys() / as_ref() do not preserve the keys",
                json!({"kind": "ctor", "chord": chord_wire(&keys)}),
                json!(chord_wire(&keys)),
                json!(format!("{} / {} / {}", chord_wire(c1.keys()), chord_wire(c2.keys()), chord_wire(c3.keys()))),
            );
        }
        // chord printer against the model's
        if let Ok(printed) = guarded(|| (c1.to_string(), format!("{c1:?}"))) {
            out.corr(&format!("c18 sc {}", chord_wire(&keys)), &cps(&printed.0));
            if printed.0 != printed.1 {
                out.hist("chord-debug-differs-from-display");
            }
        }
        out.evaluations += 1;
    }
    out.hist("constructors");
}

fn rand_key(rng: &mut Rng, pool: &[Key]) -> Key {
    let name = match rng.below(6) {
        0 => KeyName::Char(char::from_u32(rng.below(0x11_0000) as u32).unwrap_or('x')),
        1 => KeyName::Char(char::from(b'a' + rng.below(4) as u8)),
        2 => KeyName::F(rng.below(14) as usize),
        3 => KeyName::F(match rng.below(3) {
            0 => rng.next() as usize,
            1 => usize::MAX - rng.below(3) as usize,
            _ => (1usize << rng.below(64)) - rng.below(2) as usize,
        }),
        _ => rng.pick(pool).name,
    };
    let bits = if rng.chance(1, 2) { rng.below(512) as u32 } else { [0u32, 1, 2, 4, 256, 511][rng.below(6) as usize] };
    Key::new(name, KeyMod::from_bits(bits))
}

fn replay(out: &mut Out, input: &Value) {
    let pool = key_pool();
    let mut rng = Rng::new(1);
    match input["kind"].as_str() {
        Some("keymod") => keymod_table(out, &mut rng),
        Some("ctor") => constructors(out, &mut rng, &pool),
        Some("cmp3") => cmp_transitive(out, &pool),
        Some("script") => {
            let ops: Option<Vec<Op>> = input["ops"].as_array().map(|a| a.iter().map(Op::from_json).collect()).unwrap_or(None);
            if let Some(ops) = ops {
                script_case(out, "replay", ops);
            }
        }
        Some("cmp") => {
            if let (Some(a), Some(b)) = (input["a"].as_str().and_then(key_from_wire), input["b"].as_str().and_then(key_from_wire)) {
                cmp_case(out, &a, &b);
            }
        }
        Some("parse") => {
            let s: String = input["code_points"]
                .as_array()
                .map(|a| a.iter().filter_map(|x| x.as_u64().and_then(|x| char::from_u32(x as u32))).collect())
                .unwrap_or_default();
            parse_case(out, "replay", &s, true);
        }
        _ => {}
    }
}

fn main() {
    let cfg = Cfg::from_env();
    let mut out = cfg.out();
    verif_harness::silence_panics();
    if let Some(r) = &cfg.replay {
        replay(&mut out, &r["failure"]["input"]);
        out.finish("replay of one recorded case");
        return;
    }
    let mut rng = Rng::new(cfg.seed);
    let pool = key_pool();

    // white-box corner cases first
    for (tag, ops) in corner_histories(&pool) {
        script_case(&mut out, tag, ops);
    }
    for s in corner_strings() {
        parse_case(&mut out, "corner", &s, true);
    }
    for k in pool.iter() {
        print_case(&mut out, k);
    }

    // derived order of keys: every pair of the pool, then random pairs (close payloads and modifier sets favoured)
    for a in pool.iter() {
        for b in pool.iter() {
            cmp_case(&mut out, a, b);
        }
    }
    cmp_transitive(&mut out, &pool);
    keymod_table(&mut out, &mut rng);
    constructors(&mut out, &mut rng, &pool);
    let ncmp = if cfg.thorough { 100_000 } else { 4_000 };
    for _ in 0..ncmp {
        let a = rand_key(&mut rng, &pool);
        let b = if rng.chance(1, 3) { Key::new(a.name, KeyMod::from_bits(rng.below(512) as u32)) } else { rand_key(&mut rng, &pool) };
        cmp_case(&mut out, &a, &b);
    }

    // histories
    let nhist = if cfg.thorough { 40_000 } else { 5_000 };
    for _ in 0..nhist {
        let ops = gen_history(&mut rng, &pool, cfg.thorough);
        script_case(&mut out, "random", ops);
    }

    // parser: generated, mutated, garbage
    let nparse = if cfg.thorough { 400_000 } else { 24_000 };
    for i in 0..nparse {
        match i % 8 {
            0..=1 => {
                let s = gen_key_string(&mut rng);
                parse_case(&mut out, "key", &s, true);
            }
            2 => {
                let s = gen_chord_string(&mut rng);
                parse_case(&mut out, "chord", &s, true);
            }
            3..=4 => {
                let s = gen_key_string(&mut rng);
                let s = mutate(&mut rng, &s);
                parse_case(&mut out, "key-mutated", &s, true);
            }
            5 => {
                let s = gen_chord_string(&mut rng);
                let s = mutate(&mut rng, &s);
                parse_case(&mut out, "chord-mutated", &s, true);
            }
            6 => {
                let n = rng.below(7);
                let s: String = (0..n).map(|_| *rng.pick(&ODD)).collect();
                parse_case(&mut out, "garbage", &s, true);
            }
            _ => {
                // any key value: printer correspondence, and its printed form through the parsers
                let name = match rng.below(4) {
                    0 => KeyName::Char(char::from_u32(rng.below(0x11_0000) as u32).unwrap_or('x')),
                    1 => KeyName::Char(*rng.pick(&ODD)),
                    2 => KeyName::F(if rng.chance(1, 2) { rng.below(40) as usize } else { rng.next() as usize }),
                    _ => rng.pick(&pool).name,
                };
                let k = Key::new(name, KeyMod::from_bits(rng.below(512) as u32));
                print_case(&mut out, &k);
            }
        }
    }
    unicode_sweep(&mut out, if cfg.thorough { 1 } else { 16 });
    out.extra("histories", json!(nhist));
    out.extra("parser_strings", json!(nparse));
    out.finish("one case = one history script (registrations on two maps over an alphabet of 2-4 keys drawn from a pool covering all KeyName variants, chords of length <= 5 with dense prefix overlap, override merging, lookups of every chord up to length 3-4, enumerations, key streams) or one parser input string (run through KeyName, Key and KeyChord parsers); evaluations additionally count single lookups, typed chords and the Unicode sweep strings; non-trivial = history with at least two registrations, or a string accepted by one of the parsers, or a printed key; distinct by request text");
}
