//! C09: text writing stays inside its surface, ignores chunking and loses no cell.
//!
//! Every case runs the REAL `Cell::layout`, `TerminalWriter` (`put_cell`, `io::Write`), `utf8_writer`,
//! `tty_writer`, `Text` / `str` views of /repo on a view (plain, offset / strided, transposed, nested
//! `view_owned`, random carriers) of a sentinel filled canvas and
//!   * compares, cell by cell, with the Lean model `SurfModel.TextLayout` (correspondence lines:
//!     positions returned by `Cell::layout`, result / cursor / changed offsets of every `put_cell`,
//!     the whole canvas at the end, the size reported by `Text::layout`),
//!   * judges the implementation by independent oracles written from the property:
//!     sentinel check (nothing outside the given view changed), identical cells for every partition
//!     of the written bytes, every printable cell of a text exactly once and in reading order on a
//!     surface of the size the text's own layout reported, no-wrap drops exactly the cells beyond
//!     the right edge, layout at every width between the reported and the available one agrees.
#[path = "c04/dumps.rs"]
mod dumps;
#[path = "c04/events.rs"]
mod events;

use serde_json::{Value, json};
use std::collections::HashMap;
use std::io::Write as _;
use std::sync::{Arc, Mutex};
use surf_n_term::render::CellKind;
use surf_n_term::surface::{Shape, Surface, SurfaceMut, SurfaceOwned};
use surf_n_term::view::{BoxConstraint, Text, Tree, View, ViewContext, ViewLayoutStore};
use surf_n_term::{
    Cell, CellWrite, Color, Error, Face, FaceAttrs, FillRule, Glyph, Image, Path, Position, RGBA, Size, Terminal, TerminalCaps,
    TerminalCommand, TerminalEvent, TerminalSize, TerminalWaker, TerminalWriter,
};
use verif_harness::{Cfg, r#gen::Rng, guarded, out::Out, out::hex};

// ---------------------------------------------------------------------------------------------
// characters used by the generators (narrow, wide, zero width)
// ---------------------------------------------------------------------------------------------
const NARROW: [char; 8] = ['a', 'b', 'c', 'x', '|', '.', 'é', 'Ж'];
const WIDE: [char; 3] = ['世', '界', '😀'];
const ZERO: [char; 2] = ['\u{0301}', '\u{200b}'];
const BOUNDARY: [char; 20] = [
    '\u{7f}', '\u{80}', '\u{7ff}', '\u{800}', '\u{fff}', '\u{1000}', '\u{cfff}', '\u{d000}', '\u{d7bf}', '\u{d7c0}', '\u{d7ff}', '\u{e000}',
    '\u{fffd}', '\u{ffff}', '\u{10000}', '\u{3ffff}', '\u{40000}', '\u{fffff}', '\u{100000}', '\u{10ffff}',
];

/// unicode width of a character. For the alphabet of the generators (ASCII, `é`, `Ж`, three wide and two
/// zero width characters: fixed by the Unicode standard) an independent table, so that model requests and
/// oracle expectations do not inherit anything from `Cell::size`. Only for other characters (they arise when
/// random damage of a byte stream happens to spell one) the implementation's `unicode-width` is asked.
fn width_of(c: char) -> usize {
    if WIDE.contains(&c) {
        return 2;
    }
    if ZERO.contains(&c) || (c as u32) < 0x20 || c as u32 == 0x7f {
        return 0;
    }
    if (c as u32) < 0x7f || NARROW.contains(&c) {
        return 1;
    }
    static CTX: std::sync::OnceLock<ViewContext> = std::sync::OnceLock::new();
    let ctx = CTX.get_or_init(|| make_ctx(true, (1, 1)));
    Cell::new_char(Face { fg: None, bg: None, attrs: attrs_of(0) }, c).size(ctx).width
}

// ---------------------------------------------------------------------------------------------
// faces (opaque colours for which `blend_over` returns the source exactly; checked at start)
// ---------------------------------------------------------------------------------------------
#[derive(Clone, Copy, Debug, PartialEq)]
struct F {
    fg: Option<u32>,
    bg: Option<u32>,
    attrs: u16,
}
const F0: F = F { fg: None, bg: None, attrs: 0 };

fn rgba(c: u32) -> RGBA {
    RGBA::new((c >> 24) as u8, (c >> 16) as u8, (c >> 8) as u8, c as u8)
}
fn rgba_num(c: RGBA) -> u32 {
    let [r, g, b, a] = c.to_rgba();
    ((r as u32) << 24) | ((g as u32) << 16) | ((b as u32) << 8) | a as u32
}
// `FaceAttrs` is a struct around one `u16` (underline style in the low three bits, then bold, italic, blink,
// reverse, strike): built from and read back as the raw word, without the crate's operators, constants,
// accessors or comparison impls
const _: () = assert!(std::mem::size_of::<FaceAttrs>() == 2);
fn attrs_of(bits: u16) -> FaceAttrs {
    unsafe { std::mem::transmute::<u16, FaceAttrs>(bits) }
}
fn attrs_num(a: FaceAttrs) -> u16 {
    unsafe { std::mem::transmute::<FaceAttrs, u16>(a) }
}
impl F {
    fn face(&self) -> Face {
        Face { fg: self.fg.map(rgba), bg: self.bg.map(rgba), attrs: attrs_of(self.attrs) }
    }
    fn of(f: &Face) -> F {
        F { fg: f.fg.map(rgba_num), bg: f.bg.map(rgba_num), attrs: attrs_num(f.attrs) }
    }
    fn tok(&self) -> String {
        let o = |x: Option<u32>| x.map(|v| v.to_string()).unwrap_or("-".into());
        format!("{}.{}.{}", o(self.fg), o(self.bg), self.attrs)
    }
    fn parse(s: &str) -> Option<F> {
        let p: Vec<&str> = s.split('.').collect();
        if p.len() != 3 {
            return None;
        }
        let o = |x: &str| if x == "-" { Some(None) } else { x.parse().ok().map(Some) };
        Some(F { fg: o(p[0])?, bg: o(p[1])?, attrs: p[2].parse().ok()? })
    }
}
const SENT_FG: u32 = 0x090909ff;
const SENT_BG: u32 = 0x0a0a0aff;
fn sentinel() -> Cell {
    Cell::new_char(F { fg: Some(SENT_FG), bg: Some(SENT_BG), attrs: 0 }.face(), '#')
}
/// colours used by the streams: opaque, and overlaying them is exact (`dst.blend_over(src) == src`)
fn palette() -> Vec<u32> {
    let cands: [u32; 8] = [0xff0000ff, 0x00ff00ff, 0x0000ffff, 0xffffffff, 0x000000ff, 0x80c0e0ff, 0x123456ff, 0xfedcbaff];
    let mut ok = Vec::new();
    for s in cands {
        let exact = cands.iter().chain([SENT_FG, SENT_BG].iter()).all(|d| rgba(*d).blend_over(rgba(s)) == rgba(s));
        if exact {
            ok.push(s);
        }
    }
    ok
}

// ---------------------------------------------------------------------------------------------
// cells
// ---------------------------------------------------------------------------------------------
#[derive(Clone, Debug, PartialEq)]
enum K {
    Ch(char),
    /// image, size in pixels
    Img(usize, usize),
    /// glyph: size in cells, fallback string
    Gl(usize, usize, String),
}
#[derive(Clone, Debug, PartialEq)]
struct C {
    k: K,
    f: F,
}

fn kind_tok(k: &K) -> String {
    match k {
        K::Ch(c) => format!("c{}", *c as u32),
        K::Img(h, w) => format!("i{h}x{w}"),
        K::Gl(h, w, fb) => {
            let mut s = format!("g{h}x{w}");
            for c in fb.chars() {
                s.push_str(&format!(":{}", c as u32));
            }
            s
        }
    }
}
fn parse_dims(s: &str) -> Option<(usize, usize)> {
    let (a, b) = s.split_once('x')?;
    Some((a.parse().ok()?, b.parse().ok()?))
}
fn parse_kind(s: &str) -> Option<K> {
    let (t, r) = s.split_at(1);
    match t {
        "c" => Some(K::Ch(char::from_u32(r.parse().ok()?)?)),
        "i" => parse_dims(r).map(|(h, w)| K::Img(h, w)),
        "g" => {
            let mut it = r.split(':');
            let (h, w) = parse_dims(it.next()?)?;
            let mut fb = String::new();
            for c in it {
                fb.push(char::from_u32(c.parse().ok()?)?);
            }
            Some(K::Gl(h, w, fb))
        }
        _ => None,
    }
}
impl C {
    fn tok(&self) -> String {
        format!("{}@{}", kind_tok(&self.k), self.f.tok())
    }
    fn parse(s: &str) -> Option<C> {
        let (k, f) = s.split_once('@')?;
        Some(C { k: parse_kind(k)?, f: F::parse(f)? })
    }
}
fn cells_tok(cs: &[C]) -> String {
    if cs.is_empty() { "-".into() } else { cs.iter().map(|c| c.tok()).collect::<Vec<_>>().join(",") }
}
fn parse_cells(s: &str) -> Option<Vec<C>> {
    if s == "-" { Some(vec![]) } else { s.split(',').map(C::parse).collect() }
}

static IMAGES: Mutex<Option<HashMap<(usize, usize), Image>>> = Mutex::new(None);
fn image_of(ph: usize, pw: usize) -> Image {
    let mut g = IMAGES.lock().unwrap();
    let m = g.get_or_insert_with(HashMap::new);
    m.entry((ph, pw))
        .or_insert_with(|| {
            let data: Arc<[RGBA]> = (0..(ph + 1) * (pw + 2)).map(|i| RGBA::new(i as u8, 7, 7, 255)).collect();
            if (ph + pw) % 2 == 0 || ph == 0 || pw == 0 {
                Image::from_parts(data, Shape::from(Size { height: ph, width: pw }))
            } else {
                // a crop of a larger image: the pixel size is the size of the window
                Image::from_parts(data, Shape::from(Size { height: ph + 1, width: pw + 2 })).crop(1..ph + 1, 1..pw + 1)
            }
        })
        .clone()
}
static GLYPHS: Mutex<Option<HashMap<(usize, usize, String), Glyph>>> = Mutex::new(None);
fn glyph_of(h: usize, w: usize, fb: &str) -> Glyph {
    let mut g = GLYPHS.lock().unwrap();
    let m = g.get_or_insert_with(HashMap::new);
    m.entry((h, w, fb.to_string()))
        .or_insert_with(|| {
            let path: Path = "M0,0L1,0L1,1Z".parse().expect("path");
            Glyph::new(path, FillRule::default(), None, Size::new(h, w), fb.to_string(), None)
        })
        .clone()
}
fn real_cell(c: &C) -> Cell {
    match &c.k {
        K::Ch(ch) => Cell::new_char(c.f.face(), *ch),
        K::Img(h, w) => Cell::new_image(image_of(*h, *w)).with_face(c.f.face()),
        K::Gl(h, w, fb) => Cell::new_glyph(c.f.face(), glyph_of(*h, *w, fb)),
    }
}
fn kind_of(cell: &Cell) -> K {
    match cell.kind() {
        CellKind::Char(c) => K::Ch(*c),
        CellKind::Image(img) => K::Img(img.height(), img.width()),
        CellKind::Glyph(g) => K::Gl(g.size().height, g.size().width, g.fallback_str().to_string()),
    }
}
/// kind and face of a cell from its raw pieces; cells are compared through this (never through the
/// `PartialEq` impls of `Cell` / `Face` / `Glyph` / `Image`)
fn full_tok(cell: &Cell) -> String {
    format!("{}@{}", kind_tok(&kind_of(cell)), F::of(&cell.face()).tok())
}
fn sentinel_tok() -> String {
    format!("c35@{}", F { fg: Some(SENT_FG), bg: Some(SENT_BG), attrs: 0 }.tok())
}
fn is_sentinel(cell: &Cell) -> bool {
    full_tok(cell) == sentinel_tok()
}
fn cell_tok(cell: &Cell, _sent: &Cell) -> String {
    if is_sentinel(cell) { "#".into() } else { full_tok(cell) }
}
fn canvas_tok(data: &[Cell]) -> String {
    let sent = sentinel();
    data.iter().map(|c| cell_tok(c, &sent)).collect::<Vec<_>>().join(",")
}
/// characters used by a case, with their widths: `code:width,…`
fn widths_tok(chars: impl Iterator<Item = char>) -> String {
    let mut v: Vec<char> = chars.collect();
    v.sort();
    v.dedup();
    if v.is_empty() {
        return "-".into();
    }
    v.iter().map(|c| format!("{}:{}", *c as u32, width_of(*c))).collect::<Vec<_>>().join(",")
}
fn cells_chars(cs: &[C]) -> Vec<char> {
    let mut v = Vec::new();
    for c in cs {
        match &c.k {
            K::Ch(ch) => v.push(*ch),
            K::Gl(_, _, fb) => v.extend(fb.chars()),
            K::Img(..) => {}
        }
    }
    v
}

// ---------------------------------------------------------------------------------------------
// view context
// ---------------------------------------------------------------------------------------------
struct Rec {
    size: TerminalSize,
    caps: TerminalCaps,
}
impl std::io::Write for Rec {
    fn write(&mut self, buf: &[u8]) -> std::io::Result<usize> {
        Ok(buf.len())
    }
    fn flush(&mut self) -> std::io::Result<()> {
        Ok(())
    }
}
impl Terminal for Rec {
    fn execute(&mut self, _cmd: TerminalCommand) -> Result<(), Error> {
        Ok(())
    }
    fn poll(&mut self, _t: Option<std::time::Duration>) -> Result<Option<TerminalEvent>, Error> {
        Ok(None)
    }
    fn size(&self) -> Result<TerminalSize, Error> {
        Ok(self.size)
    }
    fn position(&mut self) -> Result<Position, Error> {
        Ok(Position::new(0, 0))
    }
    fn waker(&self) -> TerminalWaker {
        TerminalWaker::new(|| Ok(()))
    }
    fn frames_pending(&self) -> usize {
        0
    }
    fn frames_drop(&mut self) {}
    fn dyn_ref(&mut self) -> &mut dyn Terminal {
        self
    }
    fn capabilities(&self) -> &TerminalCaps {
        &self.caps
    }
}
fn make_ctx(glyphs: bool, ppc: (usize, usize)) -> ViewContext {
    let term = Rec {
        size: TerminalSize { cells: Size::new(10, 10), pixels: Size::new(ppc.0 * 10, ppc.1 * 10) },
        caps: TerminalCaps { glyphs, ..TerminalCaps::default() },
    };
    ViewContext::new(&term).expect("ctx")
}

// ---------------------------------------------------------------------------------------------
// views: chains of view / transpose steps over the canvas, and the window they select (oracle side:
// plain matrices of canvas indices)
// ---------------------------------------------------------------------------------------------
#[derive(Clone, Copy, Debug, PartialEq)]
enum VOp {
    V(usize, usize, usize, usize),
    T,
}
#[derive(Clone, Copy, Debug, PartialEq)]
struct Step {
    op: VOp,
    kind: u8,
}
fn chain_tok(steps: &[Step]) -> String {
    if steps.is_empty() {
        return "-".into();
    }
    steps
        .iter()
        .map(|s| match s.op {
            VOp::T => "T".to_string(),
            VOp::V(r0, r1, c0, c1) => format!("V;range:{r0}:{r1};range:{c0}:{c1}"),
        })
        .collect::<Vec<_>>()
        .join("/")
}
fn chain_json(steps: &[Step]) -> Value {
    json!(
        steps
            .iter()
            .map(|s| match s.op {
                VOp::T => json!({"op": "T", "kind": s.kind}),
                VOp::V(r0, r1, c0, c1) => json!({"op": "V", "kind": s.kind, "r": [r0, r1], "c": [c0, c1]}),
            })
            .collect::<Vec<_>>()
    )
}
fn chain_from_json(v: &Value) -> Option<Vec<Step>> {
    let mut out = Vec::new();
    for s in v.as_array()? {
        let kind = s["kind"].as_u64()? as u8;
        let op = if s["op"].as_str()? == "T" {
            VOp::T
        } else {
            let g = |k: &str, i: usize| s[k][i].as_u64().map(|x| x as usize);
            VOp::V(g("r", 0)?, g("r", 1)?, g("c", 0)?, g("c", 1)?)
        };
        out.push(Step { op, kind });
    }
    Some(out)
}
type Mat = Vec<Vec<usize>>;
/// Python `M[r0:r1]` for non-negative bounds
fn py_rows<T: Clone>(m: &[T], a: usize, b: usize) -> Vec<T> {
    let n = m.len();
    let (a, b) = (a.min(n), b.min(n));
    if a >= b { vec![] } else { m[a..b].to_vec() }
}
fn window(h: usize, w: usize, steps: &[Step]) -> Mat {
    let mut m: Mat = (0..h).map(|r| (0..w).map(|c| r * w + c).collect()).collect();
    for s in steps {
        m = match s.op {
            VOp::V(r0, r1, c0, c1) => py_rows(&m, r0, r1).iter().map(|row| py_rows(row, c0, c1)).collect(),
            VOp::T => {
                let wd = m.first().map(|r| r.len()).unwrap_or(0);
                (0..wd).map(|c| m.iter().map(|row| row[c]).collect()).collect()
            }
        };
        m.retain(|r| !r.is_empty());
    }
    m
}

type DynMut<'a> = Box<dyn SurfaceMut<Item = Cell> + 'a>;
fn chain_mut<'a>(mut s: DynMut<'a>, steps: &[Step], k: &mut dyn for<'b> FnMut(DynMut<'b>)) {
    let Some((step, rest)) = steps.split_first() else {
        return k(s);
    };
    match step.op {
        VOp::V(r0, r1, c0, c1) => {
            let (r, c) = (r0..r1, c0..c1);
            match step.kind % 5 {
                0 => chain_mut(Box::new(s.view_owned(r, c)), rest, k),
                1 => chain_mut(Box::new(s.view_mut(r, c)), rest, k),
                2 => chain_mut(Box::new((&mut s).view_owned(r, c)), rest, k),
                3 => {
                    let mut m = SurfaceMut::as_mut(&mut s);
                    chain_mut(Box::new(m.view_mut(r, c)), rest, k)
                }
                _ => {
                    let inner: &mut dyn SurfaceMut<Item = Cell> = &mut *s;
                    chain_mut(Box::new(inner.as_mut().view_owned(r, c)), rest, k)
                }
            }
        }
        VOp::T => match step.kind % 3 {
            0 => chain_mut(Box::new(s.transpose()), rest, k),
            1 => chain_mut(Box::new((&mut s).transpose()), rest, k),
            _ => chain_mut(Box::new(SurfaceMut::as_mut(&mut s).transpose()), rest, k),
        },
    }
}
/// run `k` on the view `steps` of a fresh sentinel filled `h × w` canvas; returns the canvas afterwards
fn on_view(h: usize, w: usize, steps: &[Step], k: &mut dyn for<'b> FnMut(DynMut<'b>)) -> Vec<Cell> {
    let mut canvas = SurfaceOwned::new_with(Size::new(h, w), |_| sentinel());
    chain_mut(Box::new(&mut canvas), steps, k);
    canvas.data().to_vec()
}
/// first canvas cell outside of the window that is not the sentinel any more
fn outside_changed(canvas: &[Cell], win: &Mat) -> Option<usize> {
    let mut inside = vec![false; canvas.len()];
    for row in win {
        for &i in row {
            inside[i] = true;
        }
    }
    (0..canvas.len()).find(|&i| !inside[i] && !is_sentinel(&canvas[i]))
}

// ---------------------------------------------------------------------------------------------
// cases
// ---------------------------------------------------------------------------------------------
#[derive(Clone, Debug)]
struct Case {
    /// layout | tlayout | put | write | tty | text | str
    op: String,
    h: usize,
    w: usize,
    steps: Vec<Step>,
    glyphs: bool,
    ppc: (usize, usize),
    wraps: bool,
    wface: F,
    cur: (usize, usize),
    cells: Vec<C>,
    /// write / tty: the byte stream, the partitions tried (chunk lengths) and the writer (`w`: the
    /// TerminalWriter's own `io::Write`, `u`: `utf8_writer()`, `x`: `utf8_writer()` of a `Text`)
    bytes: Vec<u8>,
    parts: Vec<Vec<usize>>,
    mode: String,
    max_h: usize,
    max_w: usize,
    /// text: minimum of the constraint, position of the layout inside the view
    min_h: usize,
    min_w: usize,
    pos: (usize, usize),
    /// text: the view is larger than the reported size (the layout clips it)
    loose_view: bool,
    /// script: calls made one after the other on ONE writer
    script: Vec<SO>,
}

/// one call on a `TerminalWriter`
#[derive(Clone, Debug, PartialEq)]
enum SO {
    Put(C),
    Chr(char),
    Gl(usize, usize, String),
    Img(usize, usize),
    Text(Vec<C>),
    Fmt(Option<F>, String),
    Write(Vec<u8>),
    Utf8(Vec<u8>),
    Tty(Vec<u8>),
    Face(F),
    Wraps(bool),
    Cursor(usize, usize),
}
impl SO {
    fn tok(&self) -> String {
        match self {
            SO::Put(c) => format!("P{}", c.tok()),
            SO::Chr(c) => format!("C{}", *c as u32),
            SO::Gl(h, w, fb) => format!("G{}", &kind_tok(&K::Gl(*h, *w, fb.clone()))[1..]),
            SO::Img(h, w) => format!("I{h}x{w}"),
            SO::Text(cs) => format!("X{}", if cs.is_empty() { "-".into() } else { cs.iter().map(|c| c.tok()).collect::<Vec<_>>().join(";") }),
            SO::Fmt(f, t) => format!("M{};{}", f.map(|f| f.tok()).unwrap_or("-".into()), hex(t.as_bytes())),
            SO::Write(b) => format!("W{}", hex(b)),
            SO::Utf8(b) => format!("U{}", hex(b)),
            SO::Tty(b) => format!("T{}", hex(b)),
            SO::Face(f) => format!("F{}", f.tok()),
            SO::Wraps(b) => format!("R{}", *b as u8),
            SO::Cursor(r, c) => format!("S{r},{c}"),
        }
    }
    fn parse(s: &str) -> Option<SO> {
        let unhex = |h: &str| -> Option<Vec<u8>> {
            if h == "-" { Some(vec![]) } else { (0..h.len() / 2).map(|i| u8::from_str_radix(&h[2 * i..2 * i + 2], 16).ok()).collect() }
        };
        let (t, r) = s.split_at(1);
        Some(match t {
            "P" => SO::Put(C::parse(r)?),
            "C" => SO::Chr(char::from_u32(r.parse().ok()?)?),
            "G" => match parse_kind(&format!("g{r}"))? {
                K::Gl(h, w, fb) => SO::Gl(h, w, fb),
                _ => return None,
            },
            "I" => {
                let (h, w) = parse_dims(r)?;
                SO::Img(h, w)
            }
            "X" => SO::Text(if r == "-" { vec![] } else { r.split(';').map(C::parse).collect::<Option<Vec<_>>>()? }),
            "M" => {
                let (f, h) = r.split_once(';')?;
                SO::Fmt(if f == "-" { None } else { Some(F::parse(f)?) }, String::from_utf8(unhex(h)?).ok()?)
            }
            "W" => SO::Write(unhex(r)?),
            "U" => SO::Utf8(unhex(r)?),
            "T" => SO::Tty(unhex(r)?),
            "F" => SO::Face(F::parse(r)?),
            "R" => SO::Wraps(r == "1"),
            "S" => {
                let (a, b) = r.split_once(',')?;
                SO::Cursor(a.parse().ok()?, b.parse().ok()?)
            }
            _ => return None,
        })
    }
    fn chars(&self) -> Vec<char> {
        let lossy = |b: &[u8]| String::from_utf8_lossy(b).chars().collect::<Vec<char>>();
        match self {
            SO::Put(c) => cells_chars(std::slice::from_ref(c)),
            SO::Chr(c) => vec![*c],
            SO::Gl(_, _, fb) => fb.chars().collect(),
            SO::Text(cs) => cells_chars(cs),
            SO::Fmt(_, t) => t.chars().collect(),
            SO::Write(b) | SO::Utf8(b) | SO::Tty(b) => lossy(b),
            _ => vec![],
        }
    }
}
fn script_tok(ops: &[SO]) -> String {
    ops.iter().map(|o| o.tok()).collect::<Vec<_>>().join("|")
}
impl Case {
    fn blank(op: &str) -> Case {
        Case {
            op: op.into(),
            h: 1,
            w: 1,
            steps: vec![],
            glyphs: true,
            ppc: (1, 1),
            wraps: true,
            wface: F0,
            cur: (0, 0),
            cells: vec![],
            bytes: vec![],
            parts: vec![],
            mode: "w".into(),
            max_h: 1000,
            max_w: 1,
            min_h: 0,
            min_w: 0,
            pos: (0, 0),
            loose_view: false,
            script: vec![],
        }
    }
    fn to_json(&self) -> Value {
        json!({
            "op": self.op, "h": self.h, "w": self.w, "chain": chain_tok(&self.steps), "steps": chain_json(&self.steps),
            "glyphs": self.glyphs, "ppc": [self.ppc.0, self.ppc.1], "wraps": self.wraps, "wface": self.wface.tok(),
            "cur": [self.cur.0, self.cur.1], "cells": cells_tok(&self.cells), "bytes": hex(&self.bytes),
            "text": String::from_utf8_lossy(&self.bytes), "parts": self.parts, "mode": self.mode,
            "max_h": self.max_h.to_string(), "max_w": self.max_w.to_string(), "loose_view": self.loose_view,
            "min_h": self.min_h.to_string(), "min_w": self.min_w.to_string(), "pos": [self.pos.0, self.pos.1],
            "script": script_tok(&self.script),
        })
    }
    fn from_json(v: &Value) -> Option<Case> {
        let u = |k: &str| v[k].as_u64().map(|x| x as usize);
        let bytes = {
            let s = v["bytes"].as_str()?;
            if s == "-" { vec![] } else { (0..s.len() / 2).map(|i| u8::from_str_radix(&s[2 * i..2 * i + 2], 16).unwrap_or(0)).collect() }
        };
        Some(Case {
            op: v["op"].as_str()?.into(),
            h: u("h")?,
            w: u("w")?,
            steps: chain_from_json(&v["steps"])?,
            glyphs: v["glyphs"].as_bool()?,
            ppc: (v["ppc"][0].as_u64()? as usize, v["ppc"][1].as_u64()? as usize),
            wraps: v["wraps"].as_bool()?,
            wface: F::parse(v["wface"].as_str()?)?,
            cur: (v["cur"][0].as_u64()? as usize, v["cur"][1].as_u64()? as usize),
            cells: parse_cells(v["cells"].as_str()?)?,
            bytes,
            parts: v["parts"].as_array()?.iter().map(|p| p.as_array().map(|a| a.iter().filter_map(|x| x.as_u64().map(|x| x as usize)).collect()).unwrap_or_default()).collect(),
            mode: v["mode"].as_str()?.into(),
            max_h: v["max_h"].as_str()?.parse().ok()?,
            max_w: v["max_w"].as_str()?.parse().ok()?,
            min_h: v["min_h"].as_str().and_then(|x| x.parse().ok()).unwrap_or(0),
            min_w: v["min_w"].as_str().and_then(|x| x.parse().ok()).unwrap_or(0),
            pos: (v["pos"][0].as_u64().unwrap_or(0) as usize, v["pos"][1].as_u64().unwrap_or(0) as usize),
            script: v["script"].as_str().filter(|x| !x.is_empty()).map(|x| x.split('|').filter_map(SO::parse).collect()).unwrap_or_default(),
            loose_view: v["loose_view"].as_bool()?,
        })
    }
    fn ctx_tok(&self) -> String {
        format!("{};{}x{}", self.glyphs as u8, self.ppc.0, self.ppc.1)
    }
    fn ctx(&self) -> ViewContext {
        make_ctx(self.glyphs, self.ppc)
    }
    fn ct(&self) -> BoxConstraint {
        BoxConstraint::new(Size::new(self.min_h, self.min_w), Size::new(self.max_h, self.max_w))
    }
    fn ct_tok(&self) -> String {
        format!("{},{},{},{}", self.min_h, self.min_w, self.max_h, self.max_w)
    }
}

fn split(bytes: &[u8], part: &[usize]) -> Vec<Vec<u8>> {
    let mut out = Vec::new();
    let mut at = 0;
    for &n in part {
        out.push(bytes[at..at + n].to_vec());
        at += n;
    }
    out
}
fn chunks_tok(chunks: &[Vec<u8>]) -> String {
    chunks.iter().map(|c| hex(c)).collect::<Vec<_>>().join("/")
}

// ---------------------------------------------------------------------------------------------
// independent reference used by the oracles
// ---------------------------------------------------------------------------------------------
fn round_up(a: usize, b: usize) -> usize {
    a.div_ceil(b)
}
/// size (h, w) a cell occupies; `None` for the three control characters
fn item_size(k: &K, glyphs: bool, ppc: (usize, usize)) -> (usize, usize) {
    match k {
        K::Ch(c) => (1, width_of(*c)),
        K::Img(ph, pw) => {
            if *ph == 0 || *pw == 0 || ppc.0 == 0 || ppc.1 == 0 {
                (0, 0)
            } else {
                (round_up(*ph, ppc.0), round_up(*pw, ppc.1))
            }
        }
        K::Gl(h, w, fb) => {
            if glyphs {
                (*h, *w)
            } else {
                (1, fb.chars().map(width_of).sum())
            }
        }
    }
}
/// what is written for a text: glyphs without glyph support are their fallback characters
fn expand(cells: &[C], glyphs: bool) -> Vec<K> {
    let mut out = Vec::new();
    for c in cells {
        match &c.k {
            K::Gl(_, _, fb) if !glyphs => out.extend(fb.chars().map(K::Ch)),
            k => out.push(k.clone()),
        }
    }
    out
}
fn is_control(k: &K) -> bool {
    matches!(k, K::Ch('\n') | K::Ch('\r') | K::Ch('\t'))
}
fn printable(k: &K, glyphs: bool, ppc: (usize, usize)) -> bool {
    let (h, w) = item_size(k, glyphs, ppc);
    !is_control(k) && h > 0 && w > 0
}
/// the printable cells a line-by-line layout without wrapping keeps at available width `w`:
/// a cell is dropped exactly when its right edge would lie beyond `w`
fn nowrap_kept(items: &[K], glyphs: bool, ppc: (usize, usize), w: usize) -> Vec<K> {
    let mut col = 0usize;
    let mut out = Vec::new();
    for k in items {
        match k {
            K::Ch('\n') | K::Ch('\r') => col = 0,
            K::Ch('\t') => {
                if col < w {
                    col = (col / 8 + 1).saturating_mul(8).min(w);
                }
            }
            k => {
                if !printable(k, glyphs, ppc) {
                    continue;
                }
                let cw = item_size(k, glyphs, ppc).1;
                if col.checked_add(cw).is_some_and(|e| e <= w) {
                    out.push(k.clone());
                    col += cw;
                }
            }
        }
    }
    out
}

/// height a text needs at available width `w`: reference layout written from the property (newline ends a
/// row, tab to the next multiple of 8 clipped to `w`, a cell that does not fit goes to the next row when
/// wrapping and is dropped otherwise)
fn ref_height(items: &[K], glyphs: bool, ppc: (usize, usize), w: usize, wraps: bool) -> usize {
    let (mut row, mut col, mut h) = (0usize, 0usize, 0usize);
    for k in items {
        match k {
            K::Ch('\n') => {
                h = h.max(row + 1);
                row += 1;
                col = 0;
            }
            K::Ch('\r') => col = 0,
            K::Ch('\t') => {
                if col < w {
                    col = (col / 8 + 1).saturating_mul(8).min(w);
                }
            }
            k => {
                if !printable(k, glyphs, ppc) {
                    continue;
                }
                let (ih, iw) = item_size(k, glyphs, ppc);
                if col.checked_add(iw).is_some_and(|e| e <= w) {
                    col += iw;
                    h = h.max(row.saturating_add(ih));
                } else if wraps {
                    row += 1;
                    col = iw.min(w);
                    h = h.max(row.saturating_add(ih));
                }
            }
        }
    }
    h
}

// ---------------------------------------------------------------------------------------------
// running the cases
// ---------------------------------------------------------------------------------------------
struct Ctx {
    out: Out,
    /// failures of the case being evaluated (reported after shrinking)
    pending: Vec<(String, Case, Value, Value)>,
    out_dir: std::path::PathBuf,
}

fn pos_tok(p: Option<Position>) -> String {
    match p {
        None => "x".into(),
        Some(p) => format!("{}.{}", p.row, p.col),
    }
}
fn join_s(v: &[String]) -> String {
    if v.is_empty() { "-".into() } else { v.join(";") }
}

/// `Cell::layout` call by call
fn real_layout(ctx: &ViewContext, cells: &[C], max_w: usize, wraps: bool) -> Result<(Size, Position, Vec<Option<Position>>), ()> {
    let real: Vec<Cell> = cells.iter().map(real_cell).collect();
    guarded(|| {
        let mut size = Size { height: 0, width: 0 };
        let mut cursor = Position { row: 0, col: 0 };
        let mut ps = Vec::new();
        for c in &real {
            ps.push(c.layout(ctx, max_w, wraps, &mut size, &mut cursor));
        }
        (size, cursor, ps)
    })
}

fn build_text(case: &Case) -> Text {
    let mut text = Text::new();
    text.set_wraps(case.wraps);
    for c in &case.cells {
        text.put_cell(real_cell(c));
    }
    text
}

impl Ctx {
    fn fail(&mut self, what: &str, case: &Case, expected: Value, got: Value) {
        self.pending.push((what.to_string(), case.clone(), expected, got));
    }

    /// evaluate a case; a failing cell stream is shrunk (cells dropped, fallback strings shortened, faces
    /// removed, the view re-chosen for texts) as long as the same failure shows, then reported
    fn run(&mut self, case: &Case, scratch: &mut Option<Box<Ctx>>) {
        self.eval(case);
        if self.pending.is_empty() {
            return;
        }
        let pending = std::mem::take(&mut self.pending);
        let (what, c0, exp, got) = pending[0].clone();
        let mut best = (c0, exp, got);
        if matches!(best.0.op.as_str(), "layout" | "tlayout" | "put" | "text" | "str") {
            let sc = scratch.get_or_insert_with(|| {
                let dir = self.out_dir.join("shrink");
                Box::new(Ctx { out: Out::new(&dir), pending: vec![], out_dir: dir })
            });
            let mut g = Gen { rng: Rng::new(7), pal: vec![0xff0000ff] };
            let mut progress = true;
            let mut budget = 400;
            while progress && budget > 0 {
                progress = false;
                let mut cands: Vec<Case> = Vec::new();
                for i in 0..best.0.cells.len() {
                    let mut c = best.0.clone();
                    c.cells.remove(i);
                    cands.push(c);
                }
                for i in 0..best.0.cells.len() {
                    if let K::Gl(h, w, fb) = &best.0.cells[i].k {
                        if !fb.is_empty() {
                            let mut c = best.0.clone();
                            let mut fb2: Vec<char> = fb.chars().collect();
                            fb2.pop();
                            c.cells[i].k = K::Gl(*h, *w, fb2.into_iter().collect());
                            cands.push(c);
                        }
                    }
                    if best.0.cells[i].f != F0 {
                        let mut c = best.0.clone();
                        c.cells[i].f = F0;
                        cands.push(c);
                    }
                }
                for c in cands {
                    budget -= 1;
                    if budget == 0 {
                        break;
                    }
                    let c = if matches!(c.op.as_str(), "text" | "str") { match place_text(&mut g, c) { Some(c) => c, None => continue } } else { c };
                    sc.pending.clear();
                    sc.eval(&c);
                    if let Some(f) = sc.pending.iter().find(|f| f.0 == what) {
                        best = (f.1.clone(), f.2.clone(), f.3.clone());
                        progress = true;
                        break;
                    }
                }
            }
        }
        self.out.fail(&what, best.0.to_json(), best.1, best.2);
        for (w, c, e, g) in pending.into_iter().skip(1) {
            if w != what {
                self.out.fail(&w, c.to_json(), e, g);
            }
        }
    }

    fn eval(&mut self, case: &Case) {
        match case.op.as_str() {
            "layout" => self.eval_layout(case),
            "tlayout" => self.eval_tlayout(case),
            "put" => self.eval_put(case),
            "write" => self.eval_write(case),
            "tty" => self.eval_tty(case),
            "text" | "str" => self.eval_text(case),
            "script" => self.eval_script(case),
            _ => {}
        }
    }

    fn eval_layout(&mut self, case: &Case) {
        let ctx = case.ctx();
        let widths = widths_tok(cells_chars(&case.cells).into_iter());
        let kinds = if case.cells.is_empty() { "-".into() } else { case.cells.iter().map(|c| kind_tok(&c.k)).collect::<Vec<_>>().join(",") };
        let req = format!("c09 layout {} {} {} {} {}", case.ctx_tok(), case.wraps as u8, widths, case.max_w, kinds);
        let res = real_layout(&ctx, &case.cells, case.max_w, case.wraps);
        let ans = match &res {
            Err(()) => "panic".to_string(),
            Ok((size, cur, ps)) => format!("{}x{} cur={}.{} {}", size.height, size.width, cur.row, cur.col, join_s(&ps.iter().map(|p| pos_tok(*p)).collect::<Vec<_>>())),
        };
        self.out.corr(&req, &ans);
        let nontrivial = matches!(&res, Ok((_, _, ps)) if ps.iter().filter(|p| p.is_some()).count() >= 2);
        self.out.case(&format!("{req} {ans}"), nontrivial);
        self.out.hist("layout");
        let Ok((size, _, ps)) = res else {
            self.fail("Cell::layout panics: the text cannot be laid out, all its cells are lost", case, json!("a layout"), json!("panic"));
            return;
        };
        // oracle: positions inside the reported size, increasing in reading order (no CR), and the same
        // at every width between the reported and the available one
        let has_cr = case.cells.iter().any(|c| c.k == K::Ch('\r'));
        let placed: Vec<Position> = ps.iter().flatten().cloned().collect();
        for p in &placed {
            if p.row >= size.height || (p.col >= size.width) {
                self.fail("Cell::layout places a cell outside of the size it reports", case, json!(format!("inside {}x{}", size.height, size.width)), json!(format!("({},{})", p.row, p.col)));
                return;
            }
        }
        if !has_cr {
            for pair in placed.windows(2) {
                if (pair[0].row, pair[0].col) >= (pair[1].row, pair[1].col) {
                    self.fail("Cell::layout positions are not increasing in reading order", case, json!("increasing"), json!(format!("({},{}) then ({},{})", pair[0].row, pair[0].col, pair[1].row, pair[1].col)));
                    return;
                }
            }
        }
        if case.max_w <= 64 {
            for w2 in size.width..=case.max_w {
                // (agreement at the widths in between is a lemma of the model, `C09_layout_agrees`: the
                // implementation's layout at these widths is compared with the model, not judged)
                if w2 == case.max_w {
                    continue;
                }
                let req2 = format!("c09 layout {} {} {} {} {}", case.ctx_tok(), case.wraps as u8, widths, w2, kinds);
                let ans2 = match real_layout(&ctx, &case.cells, w2, case.wraps) {
                    Err(()) => "panic".to_string(),
                    Ok((s2, c2, ps2)) => format!("{}x{} cur={}.{} {}", s2.height, s2.width, c2.row, c2.col, join_s(&ps2.iter().map(|p| pos_tok(*p)).collect::<Vec<_>>())),
                };
                self.out.corr(&req2, &ans2);
            }
            // wrapping: every printable cell gets a position; no wrapping: exactly those whose right edge fits
            let got: Vec<K> = case.cells.iter().zip(ps.iter()).filter(|(_, p)| p.is_some()).map(|(c, _)| c.k.clone()).collect();
            let items: Vec<K> = case.cells.iter().map(|c| c.k.clone()).collect();
            let want: Vec<K> = if case.wraps {
                items.iter().filter(|k| printable(k, case.glyphs, case.ppc)).cloned().collect()
            } else {
                nowrap_kept(&items, case.glyphs, case.ppc, case.max_w)
            };
            if got != want {
                self.fail("Cell::layout loses a printable cell (or keeps one beyond the right edge)", case, json!(want.iter().map(kind_tok).collect::<Vec<_>>()), json!(got.iter().map(kind_tok).collect::<Vec<_>>()));
            }
        }
    }

    fn eval_tlayout(&mut self, case: &Case) {
        let ctx = case.ctx();
        let widths = widths_tok(cells_chars(&case.cells).into_iter());
        let req = format!("c09 tlayout {} {} {} {} {}", case.ctx_tok(), case.wraps as u8, widths, case.ct_tok(), cells_tok(&case.cells));
        let res = guarded(|| {
            let text = build_text(case);
            let mut store = ViewLayoutStore::new();
            text.layout_new(&ctx, case.ct(), &mut store).map(|l| l.size()).map_err(|e| format!("{e}"))
        });
        let ans = match &res {
            Err(()) => "panic".to_string(),
            Ok(Err(e)) => format!("error {e}"),
            Ok(Ok(s)) => format!("{}x{}", s.height, s.width),
        };
        self.out.corr(&req, &ans);
        self.out.case(&format!("{req} {ans}"), case.cells.len() >= 2);
        self.out.hist("tlayout");
        if !matches!(res, Ok(Ok(_))) {
            self.fail("Text::layout fails: the text cannot be laid out, all its cells are lost", case, json!("a size"), json!(ans));
        }
    }

    fn eval_put(&mut self, case: &Case) {
        let ctx = case.ctx();
        let widths = widths_tok(cells_chars(&case.cells).into_iter());
        let req = format!(
            "c09 put {} {} {} {} {} {} {} {},{} {}",
            case.h, case.w, chain_tok(&case.steps), case.ctx_tok(), case.wraps as u8, case.wface.tok(), widths, case.cur.0, case.cur.1, cells_tok(&case.cells)
        );
        let real: Vec<Cell> = case.cells.iter().map(real_cell).collect();
        let mut trace: Vec<String> = Vec::new();
        let mut end_cur = (0, 0);
        let res = guarded(|| {
            on_view(case.h, case.w, &case.steps, &mut |mut s: DynMut<'_>| {
                // the backing slice is read between the calls while the writer holds the view
                let (ptr, len) = (s.data().as_ptr(), s.data().len());
                let snap = || unsafe { std::slice::from_raw_parts(ptr, len) }.iter().map(full_tok).collect::<Vec<String>>();
                let mut writer = TerminalWriter::new(ctx.clone(), &mut *s);
                writer.set_wraps(case.wraps);
                writer.set_face(case.wface.face());
                if case.cur != (0, 0) {
                    writer.set_cursor(Position::new(case.cur.0, case.cur.1));
                }
                let mut before = snap();
                for cell in &real {
                    let ok = writer.put_cell(cell.clone());
                    let after = snap();
                    let ch: Vec<String> = (0..len).filter(|&i| before[i] != after[i]).map(|i| i.to_string()).collect();
                    let cur = writer.cursor();
                    trace.push(format!("{}{}.{}:{}", if ok { "t" } else { "f" }, cur.row, cur.col, if ch.is_empty() { "-".into() } else { ch.join(".") }));
                    before = after;
                }
                let cur = writer.cursor();
                end_cur = (cur.row, cur.col);
            })
        });
        let ans = match &res {
            Err(()) => "panic".to_string(),
            Ok(canvas) => format!("{} cur={}.{} {}", join_s(&trace), end_cur.0, end_cur.1, canvas_tok(canvas)),
        };
        self.out.corr(&req, &ans);
        let win = window(case.h, case.w, &case.steps);
        let nontrivial = !win.is_empty() && trace.iter().filter(|t| !t.ends_with(":-")).count() >= 2;
        self.out.case(&format!("{req} {ans}"), nontrivial);
        self.out.hist(&format!("put/{}", view_class(&case.steps)));
        match res {
            Err(()) => self.fail("put_cell panics", case, json!("no panic"), json!("panic")),
            Ok(canvas) => {
                if let Some(i) = outside_changed(&canvas, &win) {
                    self.fail("put_cell modified a cell outside of the surface the writer was given", case, json!("sentinel"), json!(format!("canvas offset {i}: {}", cell_tok(&canvas[i], &sentinel()))));
                }
            }
        }
    }

    /// a sequence of calls on ONE writer: every entry point (put_cell, put_char, put_glyph, put_image, put_text,
    /// put_fmt, the writer's own `io::Write` whose decoder lives as long as the writer — also after a write
    /// that failed or ended inside a character —, fresh `utf8_writer()` / `tty_writer()` adaptors, set_face,
    /// set_wraps, set_cursor in between)
    fn eval_script(&mut self, case: &Case) {
        let ctx = case.ctx();
        // characters: those of every call by itself, and those the writer's own decoder assembles across its
        // writes (a character may be cut between two `write` calls; an invalid byte drops the rest of a call)
        let mut all_chars: Vec<char> = case.script.iter().flat_map(|o| o.chars()).collect();
        let mut pending: Vec<u8> = Vec::new();
        for op in &case.script {
            if let SO::Write(bytes) = op {
                for b in bytes {
                    pending.push(*b);
                    match std::str::from_utf8(&pending) {
                        Ok(t) => {
                            all_chars.extend(t.chars());
                            pending.clear();
                        }
                        Err(e) if e.error_len().is_none() => {}
                        Err(_) => {
                            pending.clear();
                            break;
                        }
                    }
                }
            }
        }
        let widths = widths_tok(all_chars.into_iter());
        let req = format!(
            "c09 script {} {} {} {} {} {} {} {}",
            case.h, case.w, chain_tok(&case.steps), case.ctx_tok(), case.wraps as u8, case.wface.tok(), widths, script_tok(&case.script)
        );
        let mut trace: Vec<String> = Vec::new();
        let mut end_cur = (0, 0);
        let res = guarded(|| {
            on_view(case.h, case.w, &case.steps, &mut |mut s: DynMut<'_>| {
                let mut writer = TerminalWriter::new(ctx.clone(), &mut *s);
                writer.set_wraps(case.wraps);
                writer.set_face(case.wface.face());
                for op in &case.script {
                    let r: String = match op {
                        SO::Put(c) => if writer.put_cell(real_cell(c)) { "t" } else { "f" }.into(),
                        SO::Chr(c) => if writer.put_char(*c) { "t" } else { "f" }.into(),
                        SO::Gl(h, w, fb) => if writer.put_glyph(glyph_of(*h, *w, fb)) { "t" } else { "f" }.into(),
                        SO::Img(h, w) => if writer.put_image(image_of(*h, *w)) { "t" } else { "f" }.into(),
                        SO::Text(cs) => {
                            let mut text = Text::new();
                            for c in cs {
                                text.put_cell(real_cell(c));
                            }
                            writer.put_text(&text);
                            "-".into()
                        }
                        SO::Fmt(f, t) => {
                            writer.put_fmt(t.as_str(), f.map(|f| f.face()));
                            "-".into()
                        }
                        SO::Write(b) => match writer.write(b) {
                            Ok(n) if n == b.len() => "ok".into(),
                            Ok(n) => format!("short{n}"),
                            Err(_) => "err".into(),
                        },
                        SO::Utf8(b) => match (&mut writer).utf8_writer().write(b) {
                            Ok(n) if n == b.len() => "ok".into(),
                            Ok(n) => format!("short{n}"),
                            Err(_) => "err".into(),
                        },
                        SO::Tty(b) => match (&mut writer).tty_writer().write(b) {
                            Ok(n) if n == b.len() => "ok".into(),
                            Ok(n) => format!("short{n}"),
                            Err(_) => "err".into(),
                        },
                        SO::Face(f) => {
                            writer.set_face(f.face());
                            "-".into()
                        }
                        SO::Wraps(b) => {
                            writer.set_wraps(*b);
                            "-".into()
                        }
                        SO::Cursor(r, c) => {
                            writer.set_cursor(Position { row: *r, col: *c });
                            "-".into()
                        }
                    };
                    let cur = writer.cursor();
                    trace.push(format!("{r}{}.{}", cur.row, cur.col));
                }
                let cur = writer.cursor();
                end_cur = (cur.row, cur.col);
            })
        });
        let ans = match &res {
            Err(()) => "panic".to_string(),
            Ok(canvas) => format!("{} cur={}.{} {}", join_s(&trace), end_cur.0, end_cur.1, canvas_tok(canvas)),
        };
        self.out.corr(&req, &ans);
        let win = window(case.h, case.w, &case.steps);
        self.out.case(&format!("{req} {ans}"), case.script.len() >= 3);
        self.out.hist(&format!("script/{}", view_class(&case.steps)));
        match res {
            Err(()) => self.fail("a call on the writer panics", case, json!("no panic"), json!("panic")),
            Ok(canvas) => {
                if let Some(i) = outside_changed(&canvas, &win) {
                    self.fail("a call on the writer modified a cell outside of the surface it was given", case, json!("sentinel"), json!(format!("canvas offset {i}: {}", full_tok(&canvas[i]))));
                }
            }
        }
    }

    /// one session of `write` calls on a fresh canvas: results, cursor, canvas
    fn write_session(&self, case: &Case, chunks: &[Vec<u8>]) -> Result<(Vec<bool>, (usize, usize), Vec<Cell>), ()> {
        let ctx = case.ctx();
        let mut results = Vec::new();
        let mut cur = (0, 0);
        guarded(|| {
            let canvas = on_view(case.h, case.w, &case.steps, &mut |mut s: DynMut<'_>| {
                let mut writer = TerminalWriter::new(ctx.clone(), &mut *s);
                writer.set_wraps(case.wraps);
                writer.set_face(case.wface.face());
                match case.mode.as_str() {
                    // reference route: the characters of a well-formed text put one by one
                    "p" => {
                        for ch in chunks {
                            for c in String::from_utf8_lossy(ch).chars() {
                                writer.put_char(c);
                            }
                            results.push(true);
                        }
                    }
                    "w" => {
                        for ch in chunks {
                            let r = writer.write(ch);
                            results.push(matches!(r, Ok(n) if n == ch.len()));
                            if r.is_err() {
                                break;
                            }
                        }
                    }
                    "u" => {
                        let mut uw = (&mut writer).utf8_writer();
                        for ch in chunks {
                            let r = uw.write(ch);
                            results.push(matches!(r, Ok(n) if n == ch.len()));
                            if r.is_err() {
                                break;
                            }
                        }
                    }
                    _ => {
                        let mut tw = (&mut writer).tty_writer();
                        for ch in chunks {
                            let r = tw.write(ch);
                            results.push(matches!(r, Ok(n) if n == ch.len()));
                            if r.is_err() {
                                break;
                            }
                        }
                    }
                }
                let c = writer.cursor();
                cur = (c.row, c.col);
            });
            canvas
        })
        .map(|canvas| (results.clone(), cur, canvas))
    }

    fn eval_write(&mut self, case: &Case) {
        let widths = {
            let s = String::from_utf8_lossy(&case.bytes).to_string();
            widths_tok(s.chars())
        };
        let win = window(case.h, case.w, &case.steps);
        let mut first: Option<(Vec<usize>, String)> = None;
        for (i, part) in case.parts.iter().enumerate() {
            let chunks = split(&case.bytes, part);
            let res = self.write_session(case, &chunks);
            let (cells, ans) = match &res {
                Err(()) => ("panic".to_string(), "panic".to_string()),
                Ok((rs, cur, canvas)) => {
                    let ct = canvas_tok(canvas);
                    (ct.clone(), format!("{} cur={}.{} {}", rs.iter().map(|r| if *r { "ok" } else { "err" }).collect::<Vec<_>>().join(","), cur.0, cur.1, ct))
                }
            };
            // correspondence for a few of the partitions
            if i < 2 || i + 1 == case.parts.len() || i % 61 == 7 {
                let req = format!(
                    "c09 write {} {} {} {} {} {} {} {}",
                    case.h, case.w, chain_tok(&case.steps), case.ctx_tok(), case.wraps as u8, case.wface.tok(), widths, chunks_tok(&chunks)
                );
                self.out.corr(&req, &ans);
            }
            self.out.case(&format!("{} {:?} {}", hex(&case.bytes), part, ans), part.len() >= 2 && case.bytes.len() >= 2);
            // (a refused write is not judged by itself: after a `put_char` that returned false the rest of a
            // write is dropped undecoded, so the next write may legitimately start inside a character)
            match &res {
                Err(()) => {
                    let mut c1 = case.clone();
                    c1.parts = vec![part.clone()];
                    self.fail("write panics", &c1, json!("no panic"), json!("panic"));
                    return;
                }
                Ok((_, _, canvas)) => {
                    if let Some(o) = outside_changed(canvas, &win) {
                        let mut c1 = case.clone();
                        c1.parts = vec![part.clone()];
                        self.fail("write modified a cell outside of the surface the writer was given", &c1, json!("sentinel"), json!(format!("canvas offset {o}")));
                        return;
                    }
                }
            }
            match &first {
                None => first = Some((part.clone(), cells)),
                Some((p0, c0)) => {
                    if *c0 != cells {
                        let mut c1 = case.clone();
                        c1.parts = vec![p0.clone(), part.clone()];
                        self.fail("cells produced depend on how the written bytes were split across write calls", &c1, json!({"partition": p0, "canvas": c0}), json!({"partition": part, "canvas": cells}));
                        return;
                    }
                }
            }
        }
        // a well-formed text (no escape sequences) written as bytes must give the cells of its characters put
        // one by one, and no write may be refused: no character is lost on the way through the decoder
        if let (Some((p0, c0)), Ok(_)) = (&first, std::str::from_utf8(&case.bytes)) {
            if !case.bytes.contains(&0x1b) && c0 != "panic" {
                let mut c2 = case.clone();
                c2.mode = "p".into();
                if let Ok((_, _, canvas)) = self.write_session(&c2, std::slice::from_ref(&case.bytes)) {
                    let want = canvas_tok(&canvas);
                    if want != *c0 {
                        let mut c1 = case.clone();
                        c1.parts = vec![p0.clone()];
                        self.fail("writing a well-formed text as bytes does not give the cells of its characters (a character was lost or altered by the decoder)", &c1, json!(want), json!(c0));
                    }
                }
            }
        }
        self.out.hist(&format!("write-{}/{}", case.mode, view_class(&case.steps)));
    }

    fn eval_tty(&mut self, case: &Case) {
        let win = window(case.h, case.w, &case.steps);
        // (the model reads the bytes itself: `c09 ttys`; nothing of the request comes from the crate's decoder)
        let chars: Vec<char> = String::from_utf8_lossy(&case.bytes).chars().collect();
        let mut first: Option<(Vec<usize>, String)> = None;
        for (i, part) in case.parts.iter().enumerate() {
            let chunks = split(&case.bytes, part);
            let res = self.write_session(case, &chunks);
            let (cells, ans) = match &res {
                Err(()) => ("panic".to_string(), "panic".to_string()),
                Ok((_, cur, canvas)) => {
                    let ct = canvas_tok(canvas);
                    (ct.clone(), format!("cur={}.{} {}", cur.0, cur.1, ct))
                }
            };
            // the whole byte path of `tty_writer()` in the model: tokenizer over the dumped command automaton,
            // payload decoding, the writer — fed the same chunks
            if i < 2 || i + 1 == case.parts.len() || i % 61 == 7 {
                let req = format!(
                    "c09 ttys {} {} {} {} {} {} {} {}",
                    case.h, case.w, chain_tok(&case.steps), case.ctx_tok(), case.wraps as u8, case.wface.tok(), widths_tok(chars.iter().cloned()), chunks_tok(&chunks)
                );
                let full = match &res {
                    Err(()) => "panic".to_string(),
                    Ok((rs, _, _)) => format!("{} {}", rs.iter().map(|r| if *r { "ok" } else { "err" }).collect::<Vec<_>>().join(","), ans),
                };
                self.out.corr(&req, &full);
            }
            self.out.case(&format!("{} {:?} {}", hex(&case.bytes), part, ans), part.len() >= 2 && case.bytes.len() >= 2);
            match &res {
                Err(()) => {
                    let mut c1 = case.clone();
                    c1.parts = vec![part.clone()];
                    self.fail("write panics", &c1, json!("no panic"), json!("panic"));
                    return;
                }
                Ok((_, _, canvas)) => {
                    if let Some(o) = outside_changed(canvas, &win) {
                        let mut c1 = case.clone();
                        c1.parts = vec![part.clone()];
                        self.fail("write modified a cell outside of the surface the writer was given", &c1, json!("sentinel"), json!(format!("canvas offset {o}")));
                        return;
                    }
                }
            }
            match &first {
                None => first = Some((part.clone(), cells)),
                Some((p0, c0)) => {
                    if *c0 != cells {
                        let mut c1 = case.clone();
                        c1.parts = vec![p0.clone(), part.clone()];
                        self.fail("cells produced depend on how the written bytes were split across write calls", &c1, json!({"partition": p0, "canvas": c0}), json!({"partition": part, "canvas": cells}));
                        return;
                    }
                }
            }
        }
        // a well-formed text (no escape sequences) written as bytes must give the cells of its characters put
        // one by one, and no write may be refused: no character is lost on the way through the decoder
        if let (Some((p0, c0)), Ok(_)) = (&first, std::str::from_utf8(&case.bytes)) {
            if !case.bytes.contains(&0x1b) && c0 != "panic" {
                let mut c2 = case.clone();
                c2.mode = "p".into();
                if let Ok((_, _, canvas)) = self.write_session(&c2, std::slice::from_ref(&case.bytes)) {
                    let want = canvas_tok(&canvas);
                    if want != *c0 {
                        let mut c1 = case.clone();
                        c1.parts = vec![p0.clone()];
                        self.fail("writing a well-formed text as bytes does not give the cells of its characters (a character was lost or altered by the decoder)", &c1, json!(want), json!(c0));
                    }
                }
            }
        }
        self.out.hist(&format!("tty/{}", view_class(&case.steps)));
    }

    /// `Text` (or `str`) laid out under `max_w`, rendered into the view of the case
    fn eval_text(&mut self, case: &Case) {
        let ctx = case.ctx();
        let is_str = case.op == "str";
        let string: String = case.cells.iter().filter_map(|c| if let K::Ch(ch) = c.k { Some(ch) } else { None }).collect();
        let ct = case.ct();
        let mut size = (0, 0);
        let tracked_h = ref_height(&expand(&case.cells, case.glyphs), case.glyphs, case.ppc, case.max_w, case.wraps || is_str);
        let res = guarded(|| {
            let text = build_text(case);
            let view: &dyn View = if is_str { &string } else { &text };
            let mut store = ViewLayoutStore::new();
            let mut layout = view.layout_new(&ctx, ct, &mut store).map_err(|e| format!("layout: {e}"))?;
            size = (layout.size().height, layout.size().width);
            layout.set_position(Position::new(case.pos.0, case.pos.1));
            let mut err = None;
            let canvas = on_view(case.h, case.w, &case.steps, &mut |mut s: DynMut<'_>| {
                if let Err(e) = view.render(&ctx, SurfaceMut::as_mut(&mut s), layout.view()) {
                    err = Some(format!("render: {e}"));
                }
            });
            match err {
                Some(e) => Err(e),
                None => Ok(canvas),
            }
        });
        let widths = widths_tok(cells_chars(&case.cells).into_iter());
        let req = if is_str {
            let codes = if string.is_empty() { "-".into() } else { string.chars().map(|c| (c as u32).to_string()).collect::<Vec<_>>().join(",") };
            format!("c09 str {} {} {} {} {} {} {},{} {}", case.h, case.w, chain_tok(&case.steps), case.ctx_tok(), widths, case.ct_tok(), case.pos.0, case.pos.1, codes)
        } else {
            format!(
                "c09 text {} {} {} {} {} {} {} {},{} {}",
                case.h, case.w, chain_tok(&case.steps), case.ctx_tok(), case.wraps as u8, widths, case.ct_tok(), case.pos.0, case.pos.1, cells_tok(&case.cells)
            )
        };
        let ans = match &res {
            Err(()) => "panic".to_string(),
            Ok(Err(e)) => format!("error {e}"),
            Ok(Ok(canvas)) => format!("{}x{} {}", size.0, size.1, canvas_tok(canvas)),
        };
        self.out.corr(&req, &ans);
        let win = window(case.h, case.w, &case.steps);
        let items = expand(&case.cells, case.glyphs);
        let want: Vec<K> = if case.wraps || is_str {
            items.iter().filter(|k| printable(k, case.glyphs, case.ppc)).cloned().collect()
        } else {
            nowrap_kept(&items, case.glyphs, case.ppc, case.max_w)
        };
        self.out.case(&format!("{req} {ans}"), want.len() >= 2);
        self.out.hist(&format!("{}/{}{}", case.op, view_class(&case.steps), if case.glyphs { "" } else { "/fallback" }));
        let canvas = match res {
            Ok(Ok(c)) => c,
            _ => {
                self.fail("laying out and rendering a text fails: its cells are lost", case, json!("rendered"), json!(ans));
                return;
            }
        };
        if let Some(i) = outside_changed(&canvas, &win) {
            self.fail("rendering a text modified a cell outside of the surface it was given", case, json!("sentinel"), json!(format!("canvas offset {i}")));
            return;
        }
        // completeness: the view has (at least) the reported size, so every printable cell must be there,
        // once, in reading order (a carriage return makes later cells overwrite earlier ones: not judged)
        // (judged when the constraint's height does not cut the text and the view has room for the
        // reported size at the layout position)
        let win_h = win.len();
        let win_w = win.first().map(|r| r.len()).unwrap_or(0);
        let has_cr = items.iter().any(|k| *k == K::Ch('\r'));
        if has_cr || tracked_h > case.max_h || win_h < case.pos.0 + size.0 || win_w < case.pos.1 + size.1 {
            return;
        }
        // nothing of the view outside of the layout rectangle may change either
        for (r, row) in win.iter().enumerate() {
            for (c, &i) in row.iter().enumerate() {
                let inside = r >= case.pos.0 && r < case.pos.0 + size.0 && c >= case.pos.1 && c < case.pos.1 + size.1;
                if !inside && !is_sentinel(&canvas[i]) {
                    self.fail("rendering a text modified a cell outside of the rectangle of its layout", case, json!("sentinel"), json!(format!("view position ({r},{c})")));
                    return;
                }
            }
        }
        let mut got: Vec<K> = Vec::new();
        for row in &win {
            for &i in row {
                let k = kind_of(&canvas[i]);
                if k != K::Ch('#') {
                    got.push(k);
                }
            }
        }
        if got != want {
            let what = if case.wraps || is_str {
                "a text rendered into a surface of the size its own layout reported does not show every printable cell exactly once in reading order"
            } else {
                "a text rendered without wrapping does not show exactly the cells that fit before the right edge"
            };
            self.fail(what, case, json!({"size": format!("{}x{}", size.0, size.1), "cells": want.iter().map(kind_tok).collect::<Vec<_>>()}), json!(got.iter().map(kind_tok).collect::<Vec<_>>()));
        }
    }
}

fn view_class(steps: &[Step]) -> &'static str {
    let t = steps.iter().filter(|s| s.op == VOp::T).count();
    let v = steps.iter().filter(|s| s.op != VOp::T).count();
    match (v, t) {
        (0, 0) => "plain",
        (1, 0) => "offset",
        (_, 0) => "nested",
        (0, _) => "transposed",
        _ => "offset+transposed",
    }
}

// ---------------------------------------------------------------------------------------------
// generators
// ---------------------------------------------------------------------------------------------
struct Gen {
    rng: Rng,
    pal: Vec<u32>,
}
impl Gen {
    fn color(&mut self) -> Option<u32> {
        if self.rng.chance(1, 2) { None } else { Some(*self.rng.pick(&self.pal)) }
    }
    fn face(&mut self) -> F {
        if self.rng.chance(1, 3) {
            return F0;
        }
        let fg = self.color();
        let bg = self.color();
        F { fg, bg, attrs: *self.rng.pick(&[0u16, 0, 8, 16, 1, 24]) }
    }
    fn plain_char(&mut self) -> char {
        match self.rng.below(12) {
            0..=5 => *self.rng.pick(&NARROW),
            6..=7 => *self.rng.pick(&WIDE),
            8..=9 => *self.rng.pick(&ZERO),
            // first and last scalar value of every row of the UTF-8 table (Unicode Table 3-7) and of
            // every encoded length: a decoder that rejects or mis-assembles one of them loses the cell
            _ => *self.rng.pick(&BOUNDARY),
        }
    }
    /// fallback string of a glyph: narrow, wide and zero width characters and, now and then, `\n`, `\t`, `\r`
    /// (without glyph support they are written, and have to be measured, like characters of the text)
    fn fallback(&mut self, max_len: u64) -> String {
        let n = self.rng.below(max_len + 1);
        let ctl = self.rng.chance(1, 3);
        (0..n)
            .map(|_| {
                if ctl && self.rng.chance(1, 5) {
                    *self.rng.pick(&['\n', '\n', '\t', '\t', '\r'])
                } else {
                    self.plain_char()
                }
            })
            .collect()
    }
    /// `cr`: carriage returns allowed (as cells of their own and inside fallback strings)
    fn cell(&mut self, cr: bool, ppc: (usize, usize)) -> C {
        let f = self.face();
        let k = match self.rng.below(24) {
            0..=11 => K::Ch(self.plain_char()),
            12..=13 => K::Ch('\n'),
            14..=15 => K::Ch('\t'),
            16 => K::Ch(if cr { '\r' } else { '\n' }),
            17..=20 => {
                let h = *self.rng.pick(&[1usize, 1, 1, 2, 3, 0]);
                let w = *self.rng.pick(&[1usize, 2, 2, 3, 5, 0]);
                let fb = self.fallback(14);
                K::Gl(h, w, if cr { fb } else { fb.replace('\r', "\n") })
            }
            _ => {
                let ch = *self.rng.pick(&[1usize, 1, 2, 3, 0]);
                let cw = *self.rng.pick(&[1usize, 2, 3, 4, 0]);
                // pixel size giving `ch × cw` cells, not always a multiple of the cell size
                let ph = if ch == 0 { 0 } else { ch * ppc.0 - self.rng.below(ppc.0 as u64) as usize };
                let pw = if cw == 0 { 0 } else { cw * ppc.1 - self.rng.below(ppc.1 as u64) as usize };
                K::Img(ph, pw)
            }
        };
        C { k, f }
    }
    fn cells(&mut self, n: usize, cr: bool, ppc: (usize, usize)) -> Vec<C> {
        (0..n).map(|_| self.cell(cr, ppc)).collect()
    }
    fn ppc(&mut self) -> (usize, usize) {
        *self.rng.pick(&[(1, 1), (2, 3), (37, 15)])
    }
    /// a view with exactly `vh × vw` cells inside a canvas: (h, w, steps)
    fn view_of(&mut self, vh: usize, vw: usize) -> (usize, usize, Vec<Step>) {
        let k = |g: &mut Gen| g.rng.below(250) as u8;
        if vh == 0 || vw == 0 {
            return (1.max(vh), 1.max(vw), vec![]);
        }
        match self.rng.below(6) {
            0 => (vh, vw, vec![]),
            1 | 2 => {
                let (t, b, l, r) = (self.rng.below(3) as usize, self.rng.below(3) as usize, self.rng.below(3) as usize, self.rng.below(3) as usize);
                (vh + t + b, vw + l + r, vec![Step { op: VOp::V(t, t + vh, l, l + vw), kind: k(self) }])
            }
            3 => {
                // transposed: the canvas region is vw × vh
                let (t, b, l, r) = (self.rng.below(2) as usize, self.rng.below(2) as usize, self.rng.below(3) as usize, self.rng.below(2) as usize);
                let mut steps = vec![];
                if t + b + l + r > 0 || self.rng.chance(1, 2) {
                    steps.push(Step { op: VOp::V(t, t + vw, l, l + vh), kind: k(self) });
                }
                steps.push(Step { op: VOp::T, kind: k(self) });
                (vw + t + b, vh + l + r, steps)
            }
            4 => {
                // nested: two views, the second relative to the first
                let (t, l) = (1 + self.rng.below(2) as usize, self.rng.below(2) as usize);
                let (t2, l2) = (self.rng.below(2) as usize, 1 + self.rng.below(2) as usize);
                let (b, r) = (self.rng.below(2) as usize, self.rng.below(2) as usize);
                let h = t + t2 + vh + b + 1;
                let w = l + l2 + vw + r + 1;
                (h, w, vec![
                    Step { op: VOp::V(t, h - b, l, w - r), kind: k(self) },
                    Step { op: VOp::V(t2, t2 + vh, l2, l2 + vw), kind: k(self) },
                ])
            }
            _ => {
                // transpose, view, transpose back and view again: strided both ways on the way
                let (t, l) = (self.rng.below(2) as usize, self.rng.below(3) as usize);
                let h = vh + t + 1;
                let w = vw + l + 1;
                (h, w, vec![
                    Step { op: VOp::T, kind: k(self) },
                    Step { op: VOp::V(l, l + vw + 1, t, t + vh), kind: k(self) },
                    Step { op: VOp::T, kind: k(self) },
                    Step { op: VOp::V(0, vh, 0, vw), kind: k(self) },
                ])
            }
        }
    }
    fn partitions(&mut self, n: usize, exhaustive_upto: usize, random: usize) -> Vec<Vec<usize>> {
        let mut out = vec![vec![n]];
        if n == 0 {
            out.push(vec![0, 0]);
            return out;
        }
        out.push(vec![1; n]);
        if n <= exhaustive_upto {
            for mask in 0u32..(1 << (n - 1)) {
                let mut part = Vec::new();
                let mut len = 1;
                for i in 0..n - 1 {
                    if mask >> i & 1 == 1 {
                        part.push(len);
                        len = 1;
                    } else {
                        len += 1;
                    }
                }
                part.push(len);
                out.push(part);
            }
        } else {
            for _ in 0..random {
                let mut part = Vec::new();
                let mut left = n;
                while left > 0 {
                    let k = if self.rng.chance(1, 8) { 0 } else { 1 + self.rng.below(left.min(5) as u64) as usize };
                    part.push(k);
                    left -= k;
                }
                out.push(part);
            }
        }
        // an empty write in the middle
        out.push(vec![n / 2, 0, n - n / 2]);
        out
    }
    /// a stream of characters; `malformed`: damaged somewhere
    fn utf8_stream(&mut self, n: usize, malformed: bool) -> Vec<u8> {
        let mut s = Vec::new();
        for _ in 0..n {
            let c = match self.rng.below(12) {
                0 => '\n',
                1 => '\t',
                2 => '\r',
                _ => self.plain_char(),
            };
            let mut b = [0u8; 4];
            s.extend_from_slice(c.encode_utf8(&mut b).as_bytes());
        }
        if malformed && !s.is_empty() {
            let at = self.rng.below(s.len() as u64) as usize;
            match self.rng.below(4) {
                0 => s.insert(at, *self.rng.pick(&[0x80u8, 0xbf, 0xc0, 0xc1, 0xf5, 0xff, 0xed])),
                1 => {
                    s.truncate(at + 1);
                }
                2 => s[at] = self.rng.next() as u8,
                _ => {
                    let opts: [&[u8]; 4] = [&[0xe4u8, 0xb8], &[0xf0, 0x9f, 0x98], &[0xed, 0xa0, 0x80], &[0xc3]];
                    s.extend_from_slice(*self.rng.pick(&opts));
                }
            }
        }
        s
    }
    fn tty_stream(&mut self, n: usize) -> Vec<u8> {
        let mut s = Vec::new();
        for _ in 0..n {
            match self.rng.below(14) {
                0 => s.extend_from_slice(b"\x1b[1m"),
                1 => s.extend_from_slice(b"\x1b[3m"),
                2 => s.extend_from_slice(b"\x1b[4m"),
                3 => s.extend_from_slice(b"\x1b[0m"),
                4 => s.extend_from_slice(b"\x1b[m"),
                5 => {
                    let c = *self.rng.pick(&self.pal);
                    let which = if self.rng.chance(1, 2) { 38 } else { 48 };
                    s.extend_from_slice(format!("\x1b[{which};2;{};{};{}m", c >> 24, (c >> 16) & 255, (c >> 8) & 255).as_bytes());
                }
                6 => {
                    let opts: [&[u8]; 6] = [b"\x1b[2J", b"\x1b", b"\x1b[", b"\x1b[1;", b"\x1b[22;23m", b"\x1bX"];
                    s.extend_from_slice(*self.rng.pick(&opts));
                }
                7 => s.push(*self.rng.pick(&[b'\n', b'\t', b'\r'])),
                _ => {
                    let c = self.plain_char();
                    let mut b = [0u8; 4];
                    s.extend_from_slice(c.encode_utf8(&mut b).as_bytes());
                }
            }
        }
        s
    }
}

fn ch(c: char) -> C {
    C { k: K::Ch(c), f: F0 }
}
fn gl(h: usize, w: usize, fb: &str) -> C {
    C { k: K::Gl(h, w, fb.into()), f: F0 }
}
fn text_of(s: &str) -> Vec<C> {
    s.chars().map(ch).collect()
}

/// white-box corner cases, run first whatever the seed
fn corners(g: &mut Gen) -> Vec<Case> {
    let mut v = Vec::new();
    let big = usize::MAX;
    // Cell::layout under extreme sizes and widths
    for (cells, max_w, glyphs) in [
        (vec![ch('a'), gl(1, big, "x")], big, true),
        (vec![ch('a'), gl(1, big, "x")], 5, true),
        (vec![gl(big, 2, "x"), ch('a')], 5, true),
        (vec![ch('\n'), gl(big, 2, "x"), ch('a')], 3, true),
        (vec![ch('a'), gl(big, big, "x"), ch('\n'), ch('b')], big, true),
        (vec![ch('a'), gl(2, big - 1, "x"), ch('b')], big, true),
        (vec![ch('a'), ch('\t'), ch('b')], big, true),
        (vec![ch('世'), ch('a')], 1, true),
        (vec![gl(1, 2, "abcdefg")], 3, false),
        (text_of("abcdefgh\tx"), 8, true),
        (text_of("abcdefg\tx"), 8, true),
        (text_of("ab\tc\td"), 12, true),
        (text_of("ab世界c"), 4, true),
        (text_of("abc世"), 4, true),
    ] {
        for wraps in [true, false] {
            let mut c = Case::blank("layout");
            c.cells = cells.clone();
            c.max_w = max_w;
            c.glyphs = glyphs;
            c.wraps = wraps;
            v.push(c.clone());
            c.op = "tlayout".into();
            c.max_h = big;
            v.push(c);
        }
    }
    // the repaired case: glyph fallback longer than the width, no glyph support
    for (cells, max_w) in [
        (vec![gl(1, 2, "abcdefg")], 3usize),
        (vec![ch('x'), gl(1, 1, "ab世cd"), ch('y')], 3),
        (vec![gl(2, 2, "世界世"), ch('\n'), gl(1, 1, "")], 2),
        (text_of("ab\tcd\nefghij世k"), 4),
        (text_of("a世"), 2),
        (text_of("世a世"), 3),
        (text_of("abc\n\n世"), 3),
        (vec![ch('a'), C { k: K::Img(2, 2), f: F0 }, ch('b'), ch('c'), ch('d')], 3),
    ] {
        for glyphs in [false, true] {
            for wraps in [true, false] {
                let mut c = Case::blank("text");
                c.cells = cells.clone();
                c.max_w = max_w;
                c.glyphs = glyphs;
                c.wraps = wraps;
                if let Some(c) = place_text(g, c) {
                    v.push(c);
                }
            }
        }
    }
    // writer: tab and newline face fill in offset and transposed views, wide character at the last column
    for cells in [text_of("a\tb"), text_of("ab\ncd"), text_of("abc世d"), text_of("a\u{0301}b\rc"), vec![ch('a'), C { k: K::Img(2, 3), f: F0 }, ch('b')], vec![ch('a'), gl(1, 2, "xyz"), ch('\t'), ch('b')]] {
        for glyphs in [true, false] {
            for (h, w, steps) in [
                (3usize, 12usize, vec![]),
                (5, 14, vec![Step { op: VOp::V(1, 4, 3, 13), kind: 1 }]),
                (12, 4, vec![Step { op: VOp::T, kind: 0 }]),
                (13, 5, vec![Step { op: VOp::V(2, 12, 1, 4), kind: 2 }, Step { op: VOp::T, kind: 1 }]),
            ] {
                let mut c = Case::blank("put");
                c.cells = cells.clone();
                c.glyphs = glyphs;
                c.h = h;
                c.w = w;
                c.steps = steps;
                c.wface = F { fg: None, bg: Some(g.pal[0]), attrs: 8 };
                v.push(c);
            }
        }
    }
    // views without cells (a selector beyond the canvas collapses the view), a single column, a single row
    for (h, w, steps) in [
        (2usize, 2usize, vec![Step { op: VOp::V(5, 6, 0, 1), kind: 0 }]),
        (2, 3, vec![Step { op: VOp::V(0, 2, 3, 9), kind: 1 }, Step { op: VOp::T, kind: 0 }]),
        (4, 3, vec![Step { op: VOp::V(0, 4, 1, 2), kind: 3 }]),
        (3, 6, vec![Step { op: VOp::V(1, 2, 0, 6), kind: 4 }]),
    ] {
        for cells in [text_of("ab\tc\n世d"), vec![ch('\t'), gl(2, 2, "xy"), ch('\n'), ch('a')]] {
            for wraps in [true, false] {
                let mut c = Case::blank("put");
                c.cells = cells.clone();
                c.wraps = wraps;
                c.h = h;
                c.w = w;
                c.steps = steps.clone();
                c.wface = F { fg: Some(g.pal[1]), bg: None, attrs: 0 };
                v.push(c);
            }
        }
    }
    // every partition of short streams: split inside a character, inside an escape sequence
    for (bytes, mode) in [
        ("a世b".as_bytes().to_vec(), "w"),
        ("é😀".as_bytes().to_vec(), "u"),
        ("a\u{0301}\n世".as_bytes().to_vec(), "u"),
        (b"a\x1b[1mb".to_vec(), "t"),
        (b"\x1b[38;2;255;0;0mx".to_vec(), "t"),
        (vec![b'a', 0xe4, 0xb8, b'b'], "w"),
        (vec![0xf0, 0x9f, 0x98, 0x80, 0xff, b'a'], "u"),
        ("abcdefgh".as_bytes().to_vec(), "w"),
    ] {
        let mut c = Case::blank(if mode == "t" { "tty" } else { "write" });
        c.mode = mode.into();
        c.h = 3;
        c.w = 5;
        c.steps = vec![Step { op: VOp::V(0, 2, 1, 4), kind: 1 }];
        c.parts = g.partitions(bytes.len(), 16, 0);
        c.bytes = bytes;
        v.push(c);
    }
    v
}

/// choose canvas and view for a text case from the size the text's own layout reports
fn place_text(g: &mut Gen, mut c: Case) -> Option<Case> {
    let ctx = c.ctx();
    let ct = c.ct();
    let is_str = c.op == "str";
    let size = guarded(|| {
        let mut store = ViewLayoutStore::new();
        if is_str {
            let s: String = c.cells.iter().filter_map(|x| if let K::Ch(ch) = x.k { Some(ch) } else { None }).collect();
            s.layout_new(&ctx, ct, &mut store).map(|l| l.size()).ok()
        } else {
            build_text(&c).layout_new(&ctx, ct, &mut store).map(|l| l.size()).ok()
        }
    })
    .ok()
    .flatten()?;
    if size.height > 60 || size.width > 60 {
        return None;
    }
    c.loose_view = g.rng.chance(1, 5);
    let (vh, vw) = (c.pos.0 + size.height, c.pos.1 + size.width);
    let (vh, vw) = if c.loose_view { (vh + g.rng.below(3) as usize, vw + g.rng.below(3) as usize) } else { (vh, vw) };
    let (h, w, steps) = g.view_of(vh, vw);
    c.h = h;
    c.w = w;
    c.steps = steps;
    Some(c)
}

fn main() {
    let cfg = Cfg::from_env();
    let out = cfg.out();
    if std::env::var("C09_LOUD").is_err() {
        verif_harness::silence_panics();
    }
    let mut ctx = Ctx { out, pending: vec![], out_dir: cfg.outdir.clone() };
    let mut scratch: Option<Box<Ctx>> = None;
    // the command automaton of `TTYCommandDecoder`, dumped from the implementation, for the `ttys` requests
    {
        let cmd_tag = |c: &TerminalCommand| format!("item:{c:?}").replace(' ', "_");
        let cd = surf_n_term::decoder::verif_c04::command_dfa();
        ctx.out.corr(&format!("c09 table command {}", dumps::show_table(&cd, cmd_tag)), &format!("ok {}", cd.len()));
    }
    if let Some(replay) = &cfg.replay {
        if let Some(case) = Case::from_json(&replay["failure"]["input"]) {
            ctx.run(&case, &mut scratch);
            ctx.out.finish("replay of one recorded case");
            return;
        }
    }
    let pal = palette();
    if pal.len() < 3 {
        eprintln!("c09: fewer than 3 colours survive Face::overlay exactly");
        std::process::exit(2);
    }
    let mut g = Gen { rng: Rng::new(cfg.seed), pal };
    for c in corners(&mut g) {
        ctx.run(&c, &mut scratch);
    }
    let scale: usize = if cfg.thorough { 200 } else { 5 };

    // Cell::layout directly
    for i in 0..400 * scale {
        let mut c = Case::blank("layout");
        c.ppc = g.ppc();
        c.glyphs = g.rng.chance(3, 4);
        c.wraps = g.rng.chance(1, 2);
        c.max_w = if g.rng.chance(1, 12) { *g.rng.pick(&[usize::MAX, usize::MAX - 1, 1 << 32, 100]) } else { 1 + g.rng.below(12) as usize };
        let n = 1 + g.rng.below(24) as usize;
        c.cells = g.cells(n, true, c.ppc);
        if g.rng.chance(1, 10) {
            let at = g.rng.below(c.cells.len() as u64) as usize;
            let h = *g.rng.pick(&[usize::MAX, usize::MAX - 1, 1, 2]);
            let w = *g.rng.pick(&[usize::MAX, usize::MAX - 1, 1usize << 63, 3]);
            c.cells[at] = gl(h, w, "ab");
        }
        // without glyph support a glyph cell handed to Cell::layout is measured by its fallback string
        if i % 2 == 0 {
            c.op = "tlayout".into();
            c.max_h = *g.rng.pick(&[usize::MAX, 1000, 3]);
            if g.rng.chance(1, 3) {
                c.min_h = g.rng.below(c.max_h.min(6) as u64 + 1) as usize;
                c.min_w = g.rng.below(c.max_w.min(14) as u64 + 1) as usize;
            }
        }
        ctx.run(&c, &mut scratch);
    }

    // writer over views
    for i in 0..900 * scale {
        let mut c = Case::blank("put");
        c.ppc = g.ppc();
        c.glyphs = g.rng.chance(1, 2);
        c.wraps = g.rng.chance(2, 3);
        c.wface = g.face();
        let vw = 1 + g.rng.below(12) as usize;
        let vh = 1 + g.rng.below(5) as usize;
        let (h, w, steps) = g.view_of(vh, vw);
        c.h = h;
        c.w = w;
        c.steps = steps;
        if g.rng.chance(1, 10) {
            c.cur = (g.rng.below(vh as u64 + 2) as usize, g.rng.below(vw as u64 + 2) as usize);
        }
        let n = 1 + g.rng.below(30) as usize;
        c.cells = g.cells(n, true, c.ppc);
        if i % 300 == 0 {
            ctx.out.sample(c.to_json());
        }
        ctx.run(&c, &mut scratch);
    }

    // byte streams through the three writers, under partitions
    for i in 0..260 * scale {
        let mode = *g.rng.pick(&["w", "u", "t"]);
        let mut c = Case::blank(if mode == "t" { "tty" } else { "write" });
        c.mode = mode.into();
        c.glyphs = g.rng.chance(1, 2);
        c.wraps = g.rng.chance(3, 4);
        c.wface = g.face();
        let vw = 1 + g.rng.below(12) as usize;
        let vh = 1 + g.rng.below(4) as usize;
        let (h, w, steps) = g.view_of(vh, vw);
        c.h = h;
        c.w = w;
        c.steps = steps;
        let short = g.rng.chance(1, 2);
        let n = if short { 1 + g.rng.below(4) as usize } else { 5 + g.rng.below(20) as usize };
        c.bytes = if mode == "t" && i % 4 != 1 { g.tty_stream(n) } else { g.utf8_stream(n, i % 5 == 4) };
        c.parts = g.partitions(c.bytes.len(), if cfg.thorough { 12 } else { 8 }, if cfg.thorough { 40 } else { 12 });
        if i % 100 == 0 {
            ctx.out.sample(c.to_json());
        }
        ctx.run(&c, &mut scratch);
    }

    // texts laid out under widths 1..12 and rendered into exactly the reported size
    for i in 0..1500 * scale {
        let mut c = Case::blank(if i % 9 == 8 { "str" } else { "text" });
        c.ppc = g.ppc();
        c.glyphs = g.rng.chance(1, 2);
        c.wraps = c.op == "str" || g.rng.chance(2, 3);
        c.max_w = 1 + g.rng.below(12) as usize;
        match g.rng.below(10) {
            // tight constraint
            0 | 1 => {
                c.max_h = 1 + g.rng.below(8) as usize;
                c.min_h = c.max_h;
                c.min_w = c.max_w;
            }
            // non-zero minimum below the maximum
            2 | 3 => {
                c.min_h = g.rng.below(5) as usize;
                c.min_w = g.rng.below(c.max_w as u64 + 1) as usize;
                if g.rng.chance(1, 3) {
                    c.max_h = c.min_h + g.rng.below(4) as usize;
                }
            }
            _ => {}
        }
        if g.rng.chance(1, 4) {
            c.pos = (g.rng.below(3) as usize, g.rng.below(4) as usize);
        }
        let n = 1 + g.rng.below(20) as usize;
        c.cells = if c.op == "str" { g.cells(n, i % 7 == 0, c.ppc).into_iter().filter(|x| matches!(x.k, K::Ch(_))).map(|x| C { k: x.k, f: F0 }).collect() } else { g.cells(n, i % 7 == 0, c.ppc) };
        // long fallback strings (longer than the width)
        if c.op == "text" && g.rng.chance(1, 4) {
            let at = g.rng.below(c.cells.len() as u64) as usize;
            c.cells[at] = C { k: K::Gl(1, 1 + g.rng.below(3) as usize, g.fallback(20)), f: g.face() };
        }
        if let Some(c) = place_text(&mut g, c) {
            if i % 500 == 0 {
                ctx.out.sample(c.to_json());
            }
            ctx.run(&c, &mut scratch);
        }
    }

    // sequences of calls on one writer
    for i in 0..500 * scale {
        let mut c = Case::blank("script");
        c.ppc = g.ppc();
        c.glyphs = g.rng.chance(1, 2);
        c.wraps = g.rng.chance(2, 3);
        c.wface = g.face();
        let vw = 1 + g.rng.below(12) as usize;
        let vh = 1 + g.rng.below(5) as usize;
        let (h, w, steps) = g.view_of(vh, vw);
        c.h = h;
        c.w = w;
        c.steps = steps;
        // a byte stream cut into the writes of the writer's own `io::Write`, other calls in between
        let sn = 2 + g.rng.below(10) as usize;
        let stream = g.utf8_stream(sn, i % 3 == 0);
        let part = g.partitions(stream.len(), 0, 1).get(2).cloned().unwrap_or(vec![stream.len()]);
        let mut pieces: Vec<Vec<u8>> = split(&stream, &part);
        pieces.reverse();
        let n = 3 + g.rng.below(10) as usize;
        for _ in 0..n {
            let k = g.rng.below(16);
            let len = 1 + g.rng.below(4) as usize;
            let bad = g.rng.chance(1, 4);
            let op = match k {
                0..=3 => match pieces.pop() {
                    Some(p) => SO::Write(p),
                    None => SO::Write(g.utf8_stream(len, bad)),
                },
                4 | 5 => SO::Put(g.cell(true, c.ppc)),
                6 => SO::Chr(g.plain_char()),
                7 => match g.cell(true, c.ppc).k {
                    K::Gl(h, w, fb) => SO::Gl(h, w, fb),
                    K::Img(h, w) => SO::Img(h, w),
                    K::Ch(ch) => SO::Chr(ch),
                },
                8 => SO::Text(g.cells(len, true, c.ppc)),
                9 => {
                    let f = if bad { Some(g.face()) } else { None };
                    SO::Fmt(f, String::from_utf8_lossy(&g.utf8_stream(len, false)).to_string())
                }
                10 | 11 => SO::Utf8(g.utf8_stream(len, bad)),
                12 => SO::Tty(g.tty_stream(len)),
                13 => SO::Face(g.face()),
                14 => SO::Wraps(bad),
                _ => SO::Cursor(g.rng.below(vh as u64 + 2) as usize, g.rng.below(vw as u64 + 2) as usize),
            };
            c.script.push(op);
        }
        if i % 250 == 0 {
            ctx.out.sample(c.to_json());
        }
        ctx.run(&c, &mut scratch);
    }

    // a `Text` as the sink of `tty_writer()`: the cells collected (faces included) do not depend on the partition
    for _ in 0..40 * scale {
        let tl = 1 + g.rng.below(6) as usize;
        let bytes = g.tty_stream(tl);
        let parts = g.partitions(bytes.len(), 8, 10);
        let mut first: Option<Vec<String>> = None;
        for part in &parts {
            let mut text = Text::new();
            {
                let mut tw = (&mut text).tty_writer();
                for chunk in split(&bytes, part) {
                    let _ = tw.write(&chunk);
                }
            }
            let cells: Vec<String> = text.cells().iter().map(full_tok).collect();
            ctx.out.case(&format!("ttytextsink {} {:?}", hex(&bytes), part), part.len() >= 2);
            match &first {
                None => first = Some(cells),
                Some(f) => {
                    if *f != cells {
                        let mut c = Case::blank("tty");
                        c.mode = "y".into();
                        c.bytes = bytes.clone();
                        c.parts = vec![parts[0].clone(), part.clone()];
                        ctx.out.fail("cells collected by a Text depend on how the written bytes were split across write calls", c.to_json(), json!(f), json!(cells));
                        break;
                    }
                }
            }
        }
        ctx.out.hist("ttytextsink");
    }

    // a `Text` as the sink of `utf8_writer()`: the cells collected do not depend on the partition
    for n_case in 0..60 * scale {
        let n = 1 + g.rng.below(8) as usize;
        let bytes = g.utf8_stream(n, n_case % 6 == 5);
        let parts = g.partitions(bytes.len(), 8, 10);
        let tface = g.face();
        let wraps = g.rng.chance(1, 2);
        let widths = {
            let s = String::from_utf8_lossy(&bytes).to_string();
            widths_tok(s.chars())
        };
        let mut first: Option<Vec<String>> = None;
        for (i, part) in parts.iter().enumerate() {
            let chunks = split(&bytes, part);
            let mut text = Text::new();
            text.set_wraps(wraps);
            text.set_face(tface.face());
            let mut results = Vec::new();
            {
                let mut uw = (&mut text).utf8_writer();
                for chunk in &chunks {
                    let r = uw.write(chunk);
                    results.push(matches!(r, Ok(n) if n == chunk.len()));
                    if r.is_err() {
                        break;
                    }
                }
            }
            let cells: Vec<String> = text.cells().iter().map(full_tok).collect();
            if i < 2 || i + 1 == parts.len() {
                let shown = if cells.is_empty() { "-".to_string() } else { cells.join(",") };
                ctx.out.corr(
                    &format!("c09 tsink {} {} {} {}", widths, wraps as u8, tface.tok(), chunks_tok(&chunks)),
                    &format!("{} {}", results.iter().map(|r| if *r { "ok" } else { "err" }).collect::<Vec<_>>().join(","), shown),
                );
            }
            ctx.out.case(&format!("textsink {} {:?}", hex(&bytes), part), part.len() >= 2);
            if let Ok(t) = std::str::from_utf8(&bytes) {
                let want: Vec<K> = t.chars().map(K::Ch).collect();
                let got: Vec<K> = text.cells().iter().map(kind_of).collect();
                if want != got {
                    let mut c = Case::blank("write");
                    c.mode = "x".into();
                    c.bytes = bytes.clone();
                    c.parts = vec![part.clone()];
                    ctx.out.fail("a Text fed a well-formed text through utf8_writer does not hold its characters", c.to_json(), json!(want.iter().map(kind_tok).collect::<Vec<_>>()), json!(got.iter().map(kind_tok).collect::<Vec<_>>()));
                    break;
                }
            }
            match &first {
                None => first = Some(cells),
                Some(f) => {
                    if *f != cells {
                        let mut c = Case::blank("write");
                        c.mode = "x".into();
                        c.bytes = bytes.clone();
                        c.parts = vec![parts[0].clone(), part.clone()];
                        ctx.out.fail("cells collected by a Text depend on how the written bytes were split across write calls", c.to_json(), json!(f.len()), json!(cells.len()));
                        break;
                    }
                }
            }
        }
        ctx.out.hist("textsink");
    }

    ctx.out.finish("white-box corner cases, then random cases: Cell::layout / Text::layout on cell streams (narrow, wide, zero-width characters, \\n \\r \\t, glyphs with fallback strings of 0..20 characters, images of 0..4 cells, extreme glyph sizes and maximum widths up to usize::MAX), put_cell streams through a TerminalWriter over plain / offset / transposed / nested / doubly transposed views of a sentinel filled canvas with a random mix of carriers, byte streams (valid, malformed, SGR and other escape sequences) through TerminalWriter::write, utf8_writer and tty_writer under every partition (streams up to 8 bytes; 12 bytes thorough) or random partitions incl. empty writes, Text and str views laid out under widths 1..12 and rendered into a view of exactly the reported size (or a larger one), with and without glyph support, both wrap modes; non-trivial = at least two cells placed / written or at least two chunks; distinct by (request, answer)");
}
