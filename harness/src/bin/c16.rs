//! C16: output is delivered in order, exactly once; frames are never torn.
//!
//! Stage 1 (`queue`): random operation sequences on the public `IOQueue` API.
//!   * correspondence: the Lean model `SurfModel.IOQueue` must print the same observation after every call
//!     (bytes returned by `read`, `len()`, `chunks_count()`, `is_empty()`, `as_slice()`);
//!   * oracle: an independent byte deque with flush marks (the textbook FIFO the theorems refine to).
//! Stage 2 (`pty`): the real `UnixTerminal` on the slave side of a pseudo-terminal, see `pty` below.
use serde_json::{Value, json};
use std::collections::VecDeque;
use std::io::{Read, Write};
use surf_n_term::common::IOQueue;
use verif_harness::{Cfg, r#gen::Rng, guarded, out::Out, out::hex};

/// Stage 2: the real `UnixTerminal` on the slave side of a pseudo-terminal.
///
/// A peer thread owns the master side: it answers the DA1 query (`ESC [ c`) with `ESC [ ? 62 ; 4 c` (without
/// the answer the constructor and `drop` wait), and drains the master at a random, changing rate, so that the
/// kernel hands short writes and EAGAIN to `poll`.  The session thread drives write / execute / flush / poll /
/// frames_drop.  Oracle: what the master received must be the concatenation of the written payloads in order,
/// each exactly once, except payloads removed by `frames_drop`, and every such removal must start at a
/// position at which the program flushed (flush or poll) and which had not been reached by the transmission
/// (`stats().send`) when `frames_drop` was called.  Correspondence: the results of the tty writes recorded by
/// the hook `verif_c16` are replayed through the Lean model of `poll` (trace refinement).
///
/// Timing never produces a failure: a session whose output did not arrive completely within generous bounds
/// is counted as inconclusive (histogram `pty:inconclusive:*`), not as a violation.
mod pty {
    use super::*;
    use std::os::fd::{FromRawFd, OwnedFd, RawFd};
    use std::sync::atomic::{AtomicBool, AtomicUsize, Ordering};
    use std::sync::{Arc, Mutex};
    use std::time::{Duration, Instant};
    use surf_n_term::encoder::{Encoder, TTYEncoder};
    use surf_n_term::{Position, SystemTerminal, Terminal, TerminalCommand, verif_c16};

    #[derive(Clone, Debug)]
    pub enum TOp {
        /// `Write::write_all` of a synthetic printable payload: byte i = 32 + (tag + i) % 95
        Write(usize, usize),
        /// `execute` of command number n of `command(n)`
        Exec(usize),
        Flush,
        /// `poll(Some(ms))`
        Poll(u64),
        Drop,
    }

    impl TOp {
        fn token(&self) -> String {
            match self {
                TOp::Write(l, t) => format!("W:{l}:{t}"),
                TOp::Exec(n) => format!("x:{n}"),
                TOp::Flush => "f".into(),
                TOp::Poll(ms) => format!("p:{ms}"),
                TOp::Drop => "d".into(),
            }
        }
        fn parse(t: &str) -> Option<TOp> {
            let parts: Vec<&str> = t.split(':').collect();
            Some(match parts.as_slice() {
                ["f"] => TOp::Flush,
                ["d"] => TOp::Drop,
                ["W", l, g] => TOp::Write(l.parse().ok()?, g.parse().ok()?),
                ["x", n] => TOp::Exec(n.parse().ok()?),
                ["p", ms] => TOp::Poll(ms.parse().ok()?),
                _ => return None,
            })
        }
    }

    pub fn synth(len: usize, tag: usize) -> Vec<u8> {
        (0..len).map(|i| (32 + (tag + i) % 95) as u8).collect()
    }

    /// commands with stateless encodings that never contain the DA1 query
    fn command(n: usize) -> TerminalCommand {
        match n % 8 {
            0 => TerminalCommand::CursorTo(Position { row: n / 8 % 50, col: n % 131 }),
            1 => TerminalCommand::Char(char::from_u32(0x41 + (n as u32 / 8) % 26).unwrap()),
            2 => TerminalCommand::EraseLine,
            3 => TerminalCommand::CursorSave,
            4 => TerminalCommand::CursorRestore,
            5 => TerminalCommand::EraseChars(n / 8 % 9 + 1),
            6 => TerminalCommand::Raw(format!("<raw {n}>").into_bytes()),
            _ => TerminalCommand::Title(format!("t{n}")),
        }
    }

    struct Shared {
        received: Mutex<Vec<u8>>,
        count: AtomicUsize,
        /// consecutive empty 50 ms polls observed by the peer (reset by every byte received)
        idle: AtomicUsize,
        stop: AtomicBool,
    }

    fn open_pty() -> Result<(RawFd, RawFd), String> {
        unsafe {
            let master = libc::posix_openpt(libc::O_RDWR | libc::O_NOCTTY);
            if master < 0 {
                return Err("posix_openpt failed".into());
            }
            if libc::grantpt(master) != 0 || libc::unlockpt(master) != 0 {
                libc::close(master);
                return Err("grantpt/unlockpt failed".into());
            }
            let mut name = [0 as libc::c_char; 128];
            if libc::ptsname_r(master, name.as_mut_ptr(), name.len()) != 0 {
                libc::close(master);
                return Err("ptsname_r failed".into());
            }
            let slave = libc::open(name.as_ptr(), libc::O_RDWR | libc::O_NOCTTY);
            if slave < 0 {
                libc::close(master);
                return Err("open slave failed".into());
            }
            let ws = libc::winsize { ws_row: 50, ws_col: 132, ws_xpixel: 0, ws_ypixel: 0 };
            libc::ioctl(master, libc::TIOCSWINSZ, &ws);
            let fl = libc::fcntl(master, libc::F_GETFL);
            libc::fcntl(master, libc::F_SETFL, fl | libc::O_NONBLOCK);
            Ok((master, slave))
        }
    }

    /// peer: drain the master at a changing rate, answer DA1
    fn peer(master: RawFd, shared: Arc<Shared>, mut rng: Rng, profile: u64) {
        let mut buf = vec![0u8; 1 << 16];
        let mut tail: Vec<u8> = Vec::new();
        let mut phase_left = 0u64;
        let mut mode = 0u64;
        loop {
            let stopping = shared.stop.load(Ordering::SeqCst);
            if stopping && shared.idle.load(Ordering::SeqCst) >= 2 {
                break;
            }
            // rate: a phase of `phase_left` reads in one mode
            if phase_left == 0 {
                mode = match profile {
                    0 => 0,
                    1 => *rng.pick(&[0, 0, 1, 3]),
                    2 => *rng.pick(&[1, 1, 2, 3]),
                    _ => *rng.pick(&[0, 1, 2, 3, 4]),
                };
                phase_left = 1 + rng.below(200);
            }
            phase_left -= 1;
            let (chunk, sleep_us) = if stopping {
                (1 << 16, 0)
            } else {
                match mode {
                    0 => (1 << 16, 0),
                    1 => (4096 + rng.below(28672) as usize, rng.below(300)),
                    2 => (256 + rng.below(3840) as usize, 200 + rng.below(1800)),
                    3 => (1 << 16, if rng.chance(1, 6) { 5000 + rng.below(35000) } else { 0 }),
                    _ => (1 + rng.below(64) as usize, rng.below(100)),
                }
            };
            if sleep_us > 0 {
                std::thread::sleep(Duration::from_micros(sleep_us));
            }
            let mut pfd = libc::pollfd { fd: master, events: libc::POLLIN, revents: 0 };
            let r = unsafe { libc::poll(&mut pfd, 1, 50) };
            if r == 0 {
                shared.idle.fetch_add(1, Ordering::SeqCst);
                continue;
            }
            if r < 0 {
                continue;
            }
            let n = unsafe { libc::read(master, buf.as_mut_ptr() as *mut libc::c_void, chunk) };
            if n <= 0 {
                // EIO: slave side closed (we keep our own descriptor, so this is transient); EAGAIN: nothing
                std::thread::sleep(Duration::from_millis(1));
                continue;
            }
            let data = &buf[..n as usize];
            // DA1 query, possibly split over reads
            tail.extend_from_slice(data);
            let mut answers = 0;
            let mut i = 0;
            while i + 3 <= tail.len() {
                if &tail[i..i + 3] == b"\x1b[c" {
                    answers += 1;
                    i += 3;
                } else {
                    i += 1;
                }
            }
            let keep = tail.len().min(2);
            let t2 = tail[tail.len() - keep..].to_vec();
            tail = if answers > 0 && t2.ends_with(b"c") { Vec::new() } else { t2 };
            {
                let mut rec = shared.received.lock().unwrap();
                rec.extend_from_slice(data);
                shared.count.store(rec.len(), Ordering::SeqCst);
            }
            shared.idle.store(0, Ordering::SeqCst);
            for _ in 0..answers {
                let reply = b"\x1b[?62;4c";
                unsafe { libc::write(master, reply.as_ptr() as *const libc::c_void, reply.len()) };
            }
        }
    }

    pub struct SessionOutcome {
        pub inconclusive: Option<String>,
        pub failure: Option<(String, String, String)>,
        /// request for the Lean model and the observations of the implementation
        pub trace: Option<(String, String)>,
        pub bytes: usize,
        pub short_writes: usize,
        pub eagain: usize,
        pub tty_writes: usize,
        pub dropped_payloads: usize,
        pub executed: Vec<String>,
    }

    enum Evt {
        Payload(usize),
        Mark,
        Drop(usize),
    }

    fn fnv(bytes: &[u8]) -> u64 {
        let mut h = 0xcbf29ce484222325u64;
        for b in bytes {
            h ^= *b as u64;
            h = h.wrapping_mul(0x100000001b3);
        }
        h
    }

    /// Is `got` the written stream minus legally dropped payloads?  Returns the number of dropped payloads.
    ///
    /// `complete = false` (the session did not finish within its time bound): "in order, exactly once" is a safety
    /// property, so what has arrived so far must still be a *prefix* of such a stream — this is independent of timing.
    fn oracle(payloads: &[Vec<u8>], events: &[Evt], got: &[u8], complete: bool) -> Result<usize, (String, String)> {
        // depth-first over the legal cut of every drop
        fn rec(
            payloads: &[Vec<u8>], events: &[Evt], at: usize, kept: &mut Vec<usize>, marks: &mut Vec<usize>,
            got: &[u8], complete: bool, best: &mut (usize, String),
        ) -> Option<usize> {
            let mut at = at;
            let kept_len0 = kept.len();
            let marks_len0 = marks.len();
            let mut result = None;
            let mut recursed = false;
            while at < events.len() {
                match &events[at] {
                    Evt::Payload(i) => kept.push(*i),
                    // a mark = "everything written so far is a complete frame": number of payloads written
                    Evt::Mark => marks.push(kept.last().map(|i| i + 1).unwrap_or(0)),
                    Evt::Drop(sent) => {
                        // candidates: no cut, or cut at a marked boundary b: remove kept payloads with index >= b
                        let mut cands: Vec<usize> = vec![usize::MAX];
                        cands.extend(marks.iter().cloned());
                        cands.sort();
                        cands.dedup();
                        let mut seen: Vec<usize> = Vec::new();
                        for b in cands {
                            let n_keep = kept.iter().take_while(|i| **i < b).count();
                            if seen.contains(&n_keep) {
                                continue;
                            }
                            seen.push(n_keep);
                            let bytes: usize = kept[..n_keep].iter().map(|i| payloads[*i].len()).sum();
                            if bytes < *sent {
                                continue; // would cut into what has started transmission
                            }
                            let mut k2 = kept[..n_keep].to_vec();
                            let mut m2 = marks.clone();
                            if let Some(r) = rec(payloads, events, at + 1, &mut k2, &mut m2, got, complete, best) {
                                result = Some(r);
                                break;
                            }
                        }
                        recursed = true;
                        break;
                    }
                }
                at += 1;
            }
            if !recursed {
                // leaf: compare the candidate stream with what the master received
                let total: usize = kept.iter().map(|i| payloads[*i].len()).sum();
                let mut ok = if complete { total == got.len() } else { got.len() <= total };
                let mut pos = 0;
                let mut common = 0;
                for i in kept.iter() {
                    if pos >= got.len() {
                        break;
                    }
                    let p = &payloads[*i];
                    let end = (pos + p.len()).min(got.len());
                    let g = &got[pos..end];
                    if g == &p[..g.len()] {
                        common += g.len();
                    } else {
                        common += g.iter().zip(p.iter()).take_while(|(a, b)| a == b).count();
                        ok = false;
                        break;
                    }
                    pos += p.len();
                }
                if ok {
                    let all = events.iter().filter(|e| matches!(e, Evt::Payload(_))).count();
                    result = Some(all - kept.len());
                } else if common >= best.0 {
                    *best = (common, format!("{} bytes, fnv {:016x}", total, {
                        let mut v = Vec::with_capacity(total);
                        for i in kept.iter() {
                            v.extend_from_slice(&payloads[*i]);
                        }
                        fnv(&v)
                    }));
                }
            }
            kept.truncate(kept_len0.min(kept.len()));
            marks.truncate(marks_len0.min(marks.len()));
            result
        }
        let mut best = (0usize, String::new());
        match rec(payloads, events, 0, &mut Vec::new(), &mut Vec::new(), got, complete, &mut best) {
            Some(d) => Ok(d),
            None => Err((
                format!("{} the written payloads in order, each once, minus whole frames legally dropped; closest legal stream: {} (agrees on the first {} bytes)",
                    if complete { "exactly" } else { "a prefix of" }, best.1, best.0),
                format!("{} bytes, fnv {:016x}, bytes around the first difference: {}", got.len(), fnv(got),
                    String::from_utf8_lossy(&got[best.0.saturating_sub(12).min(got.len())..(best.0 + 24).min(got.len())]).escape_default()),
            )),
        }
    }

    pub fn run_session(ops: &[TOp], profile: u64, peer_seed: u64, want_trace: bool) -> SessionOutcome {
        let mut outcome = SessionOutcome {
            inconclusive: None, failure: None, trace: None, bytes: 0, short_writes: 0, eagain: 0, tty_writes: 0,
            dropped_payloads: 0, executed: Vec::new(),
        };
        let (master, slave) = match open_pty() {
            Ok(x) => x,
            Err(e) => {
                outcome.inconclusive = Some(format!("no-pty:{e}"));
                return outcome;
            }
        };
        // our own descriptor of the slave for the whole session: the pty must outlive the terminal
        let keep = unsafe { libc::dup(slave) };
        let shared = Arc::new(Shared {
            received: Mutex::new(Vec::new()), count: AtomicUsize::new(0), idle: AtomicUsize::new(0), stop: AtomicBool::new(false),
        });
        let peer_thread = {
            let shared = shared.clone();
            let rng = Rng(peer_seed);
            std::thread::spawn(move || peer(master, shared, rng, profile))
        };
        let finish = |outcome: SessionOutcome| {
            shared.stop.store(true, Ordering::SeqCst);
            let _ = peer_thread.join();
            unsafe {
                libc::close(keep);
                libc::close(master);
            }
            outcome
        };
        let term = SystemTerminal::new_from_fd(unsafe { OwnedFd::from_raw_fd(slave) });
        let mut term = match term {
            Ok(t) => t,
            Err(e) => {
                outcome.inconclusive = Some(format!("constructor:{e:?}"));
                return finish(outcome);
            }
        };
        // send what the constructor left in the queue, wait until the peer has all of it
        let t0 = Instant::now();
        while term.frames_pending() > 0 && t0.elapsed() < Duration::from_secs(20) {
            if term.poll(Some(Duration::from_millis(1))).is_err() {
                break;
            }
        }
        let s0 = term.stats().send;
        while shared.count.load(Ordering::SeqCst) < s0 && t0.elapsed() < Duration::from_secs(40) {
            std::thread::sleep(Duration::from_millis(1));
        }
        if term.frames_pending() > 0 || shared.count.load(Ordering::SeqCst) != s0 {
            outcome.inconclusive = Some("setup-not-drained".into());
            drop(term);
            return finish(outcome);
        }
        let _ = verif_c16::take_trace();
        let mut enc = TTYEncoder::new(term.capabilities().clone());

        let mut payloads: Vec<Vec<u8>> = Vec::new();
        let mut events: Vec<Evt> = Vec::new();
        let mut req = String::from("c16 t");
        let mut obs: Vec<String> = Vec::new();
        let total: usize = ops.iter().map(|o| if let TOp::Write(l, _) = o { *l } else { 16 }).sum();
        let deadline = Instant::now() + Duration::from_secs(25 + (total as u64 >> 16));
        let mut queue: VecDeque<TOp> = ops.iter().cloned().collect();
        let mut draining = false;
        let mut poll_error: Option<String> = None;
        loop {
            let op = match queue.pop_front() {
                Some(op) => op,
                None => {
                    // final drain: poll until nothing is pending
                    if term.frames_pending() == 0 {
                        break;
                    }
                    if Instant::now() > deadline {
                        outcome.inconclusive = Some("drain-timeout".into());
                        break;
                    }
                    draining = true;
                    TOp::Poll(2)
                }
            };
            if !draining {
                outcome.executed.push(op.token());
            }
            let step = guarded(|| match &op {
                TOp::Write(l, t) => {
                    let p = synth(*l, *t);
                    events.push(Evt::Payload(payloads.len()));
                    payloads.push(p.clone());
                    req.push_str(&format!(" W:{l}:{t}"));
                    // `write`, not `write_all`: an empty buffer must still reach `Write::write` (it creates a chunk)
                    let n = term.write(&p).unwrap();
                    assert_eq!(n, p.len());
                }
                TOp::Exec(n) => {
                    let mut p = Vec::new();
                    enc.encode(&mut p, command(*n)).unwrap();
                    req.push_str(&format!(" w:{}", hex(&p)));
                    events.push(Evt::Payload(payloads.len()));
                    payloads.push(p);
                    term.execute(command(*n)).unwrap();
                }
                TOp::Flush => {
                    events.push(Evt::Mark);
                    req.push_str(" f");
                    term.flush().unwrap();
                }
                TOp::Poll(ms) => {
                    events.push(Evt::Mark);
                    if let Err(e) = term.poll(Some(Duration::from_millis(*ms))) {
                        poll_error = Some(format!("{e:?}"));
                    }
                    let tr = verif_c16::take_trace();
                    outcome.tty_writes += tr.len();
                    for (off, acc) in tr.iter() {
                        if *acc == 0 && *off > 0 {
                            outcome.eagain += 1;
                        } else if acc < off {
                            outcome.short_writes += 1;
                        }
                    }
                    if tr.is_empty() {
                        req.push_str(" p:-");
                    } else {
                        req.push_str(" p:");
                        req.push_str(&tr.iter().map(|(_, a)| a.to_string()).collect::<Vec<_>>().join(","));
                    }
                }
                TOp::Drop => {
                    events.push(Evt::Drop(term.stats().send - s0));
                    req.push_str(" d");
                    term.frames_drop();
                }
            });
            if step.is_err() {
                // a panic inside the terminal: report it, and do not run its destructor (it would poll again)
                outcome.failure = Some((format!("{} panicked", op.token()), "no panic".into(), "panic".into()));
                std::mem::forget(term);
                return finish(outcome);
            }
            obs.push(format!("{}/{}/{}", term.stats().send - s0, term.frames_pending(), verif_c16::queue_len(&term)));
            if poll_error.is_some() {
                break;
            }
        }
        if let Some(e) = poll_error {
            outcome.inconclusive = Some(format!("poll-error:{e}"));
        }
        if outcome.inconclusive.is_none() {
            // everything was handed to the kernel; wait until the peer has it (or has seen the line idle)
            let send = term.stats().send;
            loop {
                let c = shared.count.load(Ordering::SeqCst);
                if c == send || (c != send && shared.idle.load(Ordering::SeqCst) >= 20) {
                    break;
                }
                if Instant::now() > deadline + Duration::from_secs(20) {
                    outcome.inconclusive = Some("peer-timeout".into());
                    break;
                }
                std::thread::sleep(Duration::from_millis(1));
            }
        }
        {
            let complete = outcome.inconclusive.is_none();
            let got: Vec<u8> = shared.received.lock().unwrap()[s0..].to_vec();
            outcome.bytes = got.len();
            match oracle(&payloads, &events, &got, complete) {
                Ok(d) => outcome.dropped_payloads = d,
                Err((exp, g)) => outcome.failure = Some(("the pty master did not receive the written stream".into(), exp, g)),
            }
            if complete && outcome.failure.is_none() && term.stats().send - s0 != got.len() {
                outcome.failure = Some(("stats().send differs from the number of bytes the master received".into(),
                    format!("{}", got.len()), format!("{}", term.stats().send - s0)));
            }
            if want_trace && complete {
                obs.push(format!("end {}/{}", fnv(&got), verif_c16::queue_len(&term)));
                outcome.trace = Some((req, obs.join(" ")));
            }
        }
        drop(term); // epilogue + DA1 round trip with the peer, termios restored
        finish(outcome)
    }

    fn random_session(rng: &mut Rng, size_class: u64) -> Vec<TOp> {
        // size_class 0: small payloads, many calls; 1: up to 256 KiB; 2: MiB payloads
        let n = match size_class {
            0 => 10 + rng.below(60),
            1 => 6 + rng.below(30),
            _ => 4 + rng.below(10),
        } as usize;
        let mut ops = Vec::new();
        let mut tag = rng.below(95) as usize;
        let mut big_left = if size_class == 2 { 1 + rng.below(2) } else { 0 };
        for _ in 0..n {
            let r = rng.below(100);
            let op = if r < 38 {
                tag += 1 + rng.below(7) as usize;
                let len = match size_class {
                    0 => *rng.pick(&[0usize, 1, 7, 100, 1000, 4095, 4096, 4097, 9000]) + rng.below(3) as usize,
                    1 => match rng.below(4) {
                        0 => rng.below(200) as usize,
                        1 => 4096 + rng.below(8192) as usize,
                        2 => 20_000 + rng.below(60_000) as usize,
                        _ => 65_536 + rng.below(190_000) as usize,
                    },
                    _ => {
                        if big_left > 0 && rng.chance(1, 2) {
                            big_left -= 1;
                            (1 << 20) + rng.below(3 << 20) as usize
                        } else {
                            rng.below(100_000) as usize
                        }
                    }
                };
                TOp::Write(len, tag)
            } else if r < 50 {
                TOp::Exec(rng.below(4000) as usize)
            } else if r < 68 {
                TOp::Flush
            } else if r < 92 {
                TOp::Poll(*rng.pick(&[0u64, 0, 0, 1, 1, 2, 5]))
            } else {
                TOp::Drop
            };
            ops.push(op);
        }
        ops
    }

    fn report(out: &mut Out, ops: &[TOp], profile: u64, peer_seed: u64, label: &str, o: SessionOutcome) {
        let key = format!("{label} {}", o.executed.join(" "));
        out.case(&key, o.short_writes + o.eagain > 0 || o.dropped_payloads > 0);
        out.hist(&format!("pty:{label}"));
        if let Some(why) = &o.inconclusive {
            let why = why.split(':').next().unwrap_or("?");
            out.hist(&format!("pty:inconclusive:{why}"));
            eprintln!("c16 pty session inconclusive ({why}); only the prefix (safety) check applies");
        }
        if o.short_writes > 0 {
            out.hist("pty:sessions-with-short-writes");
        }
        if o.eagain > 0 {
            out.hist("pty:sessions-with-eagain");
        }
        if o.dropped_payloads > 0 {
            out.hist("pty:sessions-with-dropped-frames");
        }
        if let Some((req, ans)) = &o.trace {
            out.corr(req, ans);
        }
        out.sample(json!({"pty_session": o.executed.len(), "bytes": o.bytes, "tty_writes": o.tty_writes,
            "short_writes": o.short_writes, "eagain": o.eagain, "dropped_payloads": o.dropped_payloads}));
        if let Some((what, exp, got)) = o.failure {
            out.fail(
                &format!("UnixTerminal on a pty: {what}"),
                json!({"stage": "pty", "ops": ops.iter().map(|o| o.token()).collect::<Vec<_>>(), "peer_profile": profile, "peer_seed": peer_seed.to_string()}),
                json!(exp),
                json!(got),
            );
        }
    }

    pub fn pty_stage(cfg: &Cfg, out: &mut Out, rng: &mut Rng) {
        let t0 = Instant::now();
        let budget = Duration::from_secs(if cfg.thorough { 420 } else { 22 });
        // white-box sessions first
        let fixed: Vec<(Vec<TOp>, u64)> = vec![
            // one payload far beyond the pty buffer, peer slow: short writes and EAGAIN
            (vec![TOp::Write(300_000, 3), TOp::Poll(0), TOp::Poll(1), TOp::Write(10, 9), TOp::Flush, TOp::Poll(0)], 2),
            // frames queued behind a partly sent frame, then dropped
            (vec![TOp::Write(200_000, 1), TOp::Poll(0), TOp::Write(5000, 2), TOp::Flush, TOp::Write(7000, 3), TOp::Flush,
                  TOp::Write(11, 4), TOp::Drop, TOp::Write(13, 5), TOp::Flush, TOp::Poll(1)], 2),
            // drop with nothing sent yet, double flush, empty payload
            (vec![TOp::Write(100, 1), TOp::Flush, TOp::Flush, TOp::Write(0, 2), TOp::Write(50, 3), TOp::Flush, TOp::Exec(8), TOp::Drop,
                  TOp::Exec(17), TOp::Poll(0), TOp::Drop, TOp::Poll(0)], 0),
        ];
        let mut n_sessions = 0u64;
        let mut total_bytes = 0usize;
        let mut total_writes = 0usize;
        let mut total_short = 0usize;
        let mut total_eagain = 0usize;
        let mut inconclusive = 0u64;
        let mut consecutive_inconclusive = 0u64;
        let mut run = |out: &mut Out, ops: Vec<TOp>, profile: u64, peer_seed: u64, label: &str, trace: bool| {
            let o = run_session(&ops, profile, peer_seed, trace);
            n_sessions += 1;
            total_bytes += o.bytes;
            total_writes += o.tty_writes;
            total_short += o.short_writes;
            total_eagain += o.eagain;
            if o.inconclusive.is_some() {
                inconclusive += 1;
                consecutive_inconclusive += 1;
            } else {
                consecutive_inconclusive = 0;
            }
            report(out, &ops, profile, peer_seed, label, o);
            consecutive_inconclusive >= 3
        };
        let mut give_up = false;
        for (ops, profile) in fixed {
            let seed = rng.next();
            give_up = run(out, ops, profile, seed, "fixed", true);
        }
        let mut i = 0u64;
        while t0.elapsed() < budget && !give_up {
            // size classes: mostly small and medium; a MiB session now and then (always one in the quick tier)
            let class = if i == 1 { 2 } else { match rng.below(10) { 0..=4 => 0, 5..=8 => 1, _ => 2 } };
            let profile = if class == 2 { rng.below(2) } else { rng.below(4) };
            let ops = random_session(rng, class);
            let seed = rng.next();
            give_up = run(out, ops, profile, seed, &format!("random-class{class}"), class < 2);
            i += 1;
            if !cfg.thorough && i >= 30 {
                break;
            }
        }
        if give_up {
            // three sessions in a row did not complete: the environment (or the terminal) is stuck; stop sampling
            out.hist("pty:gave-up-after-3-inconclusive-sessions");
        }
        out.extra("pty", json!({
            "sessions": n_sessions, "inconclusive_sessions": inconclusive, "bytes_received_by_master": total_bytes,
            "tty_writes": total_writes, "short_writes": total_short, "eagain": total_eagain,
            "note": "sampling of kernel schedules on a real pseudo-terminal; a session that does not complete within its time bound is inconclusive, never a violation",
        }));
    }

    pub fn replay(_cfg: &Cfg, out: &mut Out, input: &Value) {
        let ops: Vec<TOp> = input["ops"].as_array().map(|a| a.iter().filter_map(|t| t.as_str().and_then(TOp::parse)).collect()).unwrap_or_default();
        let profile = input["peer_profile"].as_u64().unwrap_or(0);
        let seed: u64 = input["peer_seed"].as_str().and_then(|s| s.parse().ok()).unwrap_or(1);
        // the kernel schedule is not reproducible: try a few times
        for _ in 0..5 {
            let before = out.failure_count;
            let o = run_session(&ops, profile, seed, true);
            report(out, &ops, profile, seed, "replay", o);
            if out.failure_count > before {
                break;
            }
        }
    }
}

#[derive(Clone, Debug, PartialEq)]
pub enum Op {
    Write(Vec<u8>),
    Flush,
    Read(usize),
    Consume(usize),
    /// `consume_with` whose consumer answers `Ok(k)`
    ConsumeWith(usize),
    /// `consume_with` whose consumer answers `Err`
    ConsumeWithErr,
    Clear,
}

impl Op {
    fn token(&self) -> String {
        match self {
            Op::Write(b) => format!("w:{}", hex(b)),
            Op::Flush => "f".into(),
            Op::Read(n) => format!("r:{n}"),
            Op::Consume(n) => format!("c:{n}"),
            Op::ConsumeWith(k) => format!("k:{k}"),
            Op::ConsumeWithErr => "ke".into(),
            Op::Clear => "d".into(),
        }
    }
    fn parse(t: &str) -> Option<Op> {
        let mut it = t.splitn(2, ':');
        let head = it.next()?;
        let arg = it.next();
        Some(match (head, arg) {
            ("f", None) => Op::Flush,
            ("d", None) => Op::Clear,
            ("ke", None) => Op::ConsumeWithErr,
            ("w", Some(h)) => Op::Write(unhex(h)?),
            ("r", Some(n)) => Op::Read(n.parse().ok()?),
            ("c", Some(n)) => Op::Consume(n.parse().ok()?),
            ("k", Some(n)) => Op::ConsumeWith(n.parse().ok()?),
            _ => return None,
        })
    }
}

fn unhex(h: &str) -> Option<Vec<u8>> {
    if h == "-" {
        return Some(vec![]);
    }
    if h.len() % 2 != 0 {
        return None;
    }
    (0..h.len() / 2).map(|i| u8::from_str_radix(&h[2 * i..2 * i + 2], 16).ok()).collect()
}

/// Independent statement of the property on the byte level: FIFO of bytes with flush marks.
struct Fifo {
    buf: VecDeque<u8>,
    /// positions in `buf` (from the read position) at which flush was called
    marks: Vec<usize>,
}

impl Fifo {
    fn take(&mut self, k: usize) {
        self.buf.drain(..k);
        self.marks = self.marks.iter().filter(|m| **m >= k).map(|m| m - k).collect();
    }
    fn starts_with(&self, s: &[u8]) -> bool {
        s.len() <= self.buf.len() && s.iter().zip(self.buf.iter()).all(|(a, b)| a == b)
    }
}

pub struct SeqResult {
    /// per-call observations, in the format of the Lean driver
    pub answer: String,
    /// first violation of the property found by the byte-deque oracle: (what, expected, got)
    pub failure: Option<(String, String, String)>,
    pub max_chunks: usize,
    pub dropped: usize,
}

/// run one operation sequence on a fresh real `IOQueue`
pub fn run_seq(ops: &[Op]) -> SeqResult {
    let mut obs: Vec<String> = Vec::new();
    let mut failure: Option<(String, String, String)> = None;
    let mut max_chunks = 0;
    let mut dropped = 0;
    let fail = |failure: &mut Option<(String, String, String)>, i: usize, what: &str, exp: String, got: String| {
        if failure.is_none() {
            *failure = Some((format!("call #{i}: {what}"), exp, got));
        }
    };
    let mut q = IOQueue::new();
    let mut fifo = Fifo { buf: VecDeque::new(), marks: Vec::new() };
    let mut panicked = false;
    for (i, op) in ops.iter().enumerate() {
        let slice_before: Vec<u8> = match guarded(|| q.as_slice().to_vec()) {
            Ok(s) => s,
            Err(()) => {
                panicked = true;
                break;
            }
        };
        let len_before = q.len();
        let mut read_out: Option<Vec<u8>> = None;
        let r = guarded(|| match op {
            Op::Write(b) => {
                let n = q.write(b).unwrap();
                assert_eq!(n, b.len());
            }
            Op::Flush => q.flush().unwrap(),
            Op::Read(n) => {
                let mut buf = vec![0u8; *n];
                let k = q.read(&mut buf).unwrap();
                buf.truncate(k);
                read_out = Some(buf);
            }
            Op::Consume(n) => q.consume(*n),
            Op::ConsumeWith(k) => {
                let r: Result<usize, ()> = q.consume_with(|_| Ok(*k));
                assert_eq!(r, Ok(*k));
            }
            Op::ConsumeWithErr => {
                let r: Result<usize, ()> = q.consume_with(|_| Err(()));
                assert_eq!(r, Err(()));
            }
            Op::Clear => q.clear_but_last(),
        });
        if r.is_err() {
            panicked = true;
            fail(&mut failure, i, "public IOQueue call panicked", "no panic".into(), format!("panic in {}", op.token()));
            break;
        }
        // ---- oracle: the byte FIFO ----
        match op {
            Op::Write(b) => fifo.buf.extend(b.iter()),
            Op::Flush => {
                let p = fifo.buf.len();
                if !fifo.marks.contains(&p) {
                    fifo.marks.push(p)
                }
            }
            Op::Read(n) => {
                let out = read_out.as_ref().unwrap();
                if out.len() > *n || !fifo.starts_with(out) {
                    let exp: Vec<u8> = fifo.buf.iter().take(*n).cloned().collect();
                    fail(&mut failure, i, "read did not return a prefix of the unread bytes", format!("prefix of {}", hex(&exp)), hex(out));
                } else {
                    fifo.take(out.len());
                }
            }
            Op::Consume(n) | Op::ConsumeWith(n) => {
                // documented use: n <= |front slice|; beyond it the call may stop at the slice end
                let lo = (*n).min(slice_before.len());
                let hi = (*n).min(fifo.buf.len());
                let k = len_before.wrapping_sub(q.len());
                if k < lo || k > hi {
                    fail(&mut failure, i, "consume removed a wrong number of bytes (by len())", format!("{lo}..={hi}"), format!("{k}"));
                } else {
                    fifo.take(k);
                }
            }
            Op::ConsumeWithErr => {}
            Op::Clear => {
                let kept = q.len();
                if kept <= fifo.buf.len() && (kept == fifo.buf.len() || fifo.marks.contains(&kept)) {
                    if kept < slice_before.len() {
                        fail(&mut failure, i, "drop cut into the front chunk", format!(">= {}", slice_before.len()), format!("{kept}"));
                    }
                    dropped += fifo.buf.len() - kept;
                    fifo.buf.truncate(kept);
                    fifo.marks.retain(|m| *m <= kept);
                } else {
                    let mut m = fifo.marks.clone();
                    m.sort();
                    fail(&mut failure, i, "after clear_but_last len() is not a flush position of the pending bytes", format!("one of {m:?} or {}", fifo.buf.len()), format!("{kept}"));
                }
            }
        }
        let slice_after = match guarded(|| q.as_slice().to_vec()) {
            Ok(s) => s,
            Err(()) => {
                panicked = true;
                fail(&mut failure, i, "as_slice panicked", "no panic".into(), "panic".into());
                break;
            }
        };
        if failure.is_none() {
            if q.len() != fifo.buf.len() {
                fail(&mut failure, i, "len() differs from the number of unread bytes", format!("{}", fifo.buf.len()), format!("{}", q.len()));
            } else if !fifo.starts_with(&slice_after) {
                fail(&mut failure, i, "as_slice() is not a prefix of the unread bytes", "prefix".into(), hex(&slice_after));
            } else if q.chunks_count() <= 1 && q.len() != slice_after.len() {
                fail(&mut failure, i, "len() differs from the bytes that can still be read (single chunk: as_slice() is everything)", format!("{}", slice_after.len()), format!("{}", q.len()));
            } else if q.is_empty() && !fifo.buf.is_empty() {
                fail(&mut failure, i, "is_empty() with unread bytes", "false".into(), "true".into());
            }
        }
        max_chunks = max_chunks.max(q.chunks_count());
        obs.push(format!(
            "{}/{}/{}/{}/{}",
            read_out.as_ref().map(|o| hex(o)).unwrap_or_else(|| "-".into()),
            q.len(),
            q.chunks_count(),
            if q.is_empty() { "E" } else { "N" },
            hex(&slice_after)
        ));
    }
    if panicked {
        obs.push("panic".into());
    } else if failure.is_none() {
        // final drain: exactly the unread bytes must come out, and len() must follow
        let mut got: Vec<u8> = Vec::new();
        let mut zeros = 0usize;
        let budget = q.chunks_count() + 3;
        let r = guarded(|| {
            let mut buf = vec![0u8; 1 << 16];
            while zeros < budget {
                let k = q.read(&mut buf).unwrap();
                if k == 0 {
                    zeros += 1;
                } else {
                    zeros = 0;
                    got.extend_from_slice(&buf[..k]);
                }
            }
        });
        let exp: Vec<u8> = fifo.buf.iter().cloned().collect();
        if r.is_err() {
            fail(&mut failure, ops.len(), "read panicked while draining", "no panic".into(), "panic".into());
        } else if got != exp {
            fail(&mut failure, ops.len(), "draining the queue by read() does not give the unread bytes (len() promised them)", hex(&exp), hex(&got));
        } else if q.len() != 0 {
            fail(&mut failure, ops.len(), "len() after draining", "0".into(), format!("{}", q.len()));
        }
    }
    SeqResult { answer: obs.join(" "), failure, max_chunks, dropped }
}

fn request(ops: &[Op]) -> String {
    let mut s = String::from("c16 q");
    for op in ops {
        s.push(' ');
        s.push_str(&op.token());
    }
    s
}

/// greedy shrink: drop calls / shorten payloads while the oracle still fails
fn shrink(ops: &[Op]) -> Vec<Op> {
    let mut cur = ops.to_vec();
    let mut progress = true;
    while progress {
        progress = false;
        let mut i = 0;
        while i < cur.len() {
            let mut cand = cur.clone();
            cand.remove(i);
            if run_seq(&cand).failure.is_some() {
                cur = cand;
                progress = true;
            } else {
                i += 1;
            }
        }
        for i in 0..cur.len() {
            if let Op::Write(b) = &cur[i] {
                if b.len() > 1 {
                    let mut cand = cur.clone();
                    cand[i] = Op::Write(b[..b.len() / 2].to_vec());
                    if run_seq(&cand).failure.is_some() {
                        cur = cand;
                        progress = true;
                    }
                }
            }
        }
    }
    cur
}

fn check_seq(out: &mut Out, ops: &[Op], label: &str) {
    let res = run_seq(ops);
    let req = request(ops);
    out.corr(&req, &res.answer);
    let nontrivial = res.max_chunks >= 2 || res.dropped > 0;
    out.case(&req, nontrivial);
    out.hist(&format!("queue:{label}"));
    out.hist(&format!("queue:max_chunks={}", res.max_chunks.min(6)));
    if res.dropped > 0 {
        out.hist("queue:dropped_bytes>0");
    }
    if out.evaluations % 5273 == 1 {
        out.sample(json!({"request": req, "impl": res.answer}));
    }
    if res.failure.is_some() {
        let small = shrink(ops);
        let r2 = run_seq(&small);
        let (what, exp, got) = r2.failure.unwrap_or_else(|| res.failure.clone().unwrap());
        out.fail(
            &format!("IOQueue: {what}"),
            json!({"stage": "queue", "ops": small.iter().map(|o| o.token()).collect::<Vec<_>>(), "request": request(&small)}),
            json!(exp),
            json!(got),
        );
    }
}

fn payload(rng: &mut Rng, max: u64) -> Vec<u8> {
    let n = match rng.below(10) {
        0 => 0,
        1..=6 => rng.below(6) + 1,
        7 | 8 => rng.below(max.min(24)) + 1,
        _ => rng.below(max) + 1,
    };
    (0..n).map(|_| rng.next() as u8).collect()
}

fn random_seq(rng: &mut Rng, thorough: bool) -> Vec<Op> {
    let n = 1 + rng.below(if thorough { 60 } else { 36 }) as usize;
    // profile: producer heavy, consumer heavy, flush heavy
    let profile = rng.below(4);
    let max_payload = if rng.chance(1, 20) { 200 } else { 40 };
    let mut ops = Vec::with_capacity(n);
    // shadow of the number of pending bytes, to keep most consume arguments in range
    let mut pending: usize = 0;
    for _ in 0..n {
        let r = rng.below(100);
        let (w, f, rd, c, k, ke) = match profile {
            0 => (40, 60, 72, 82, 92, 94),
            1 => (22, 36, 58, 76, 92, 95),
            2 => (30, 62, 74, 84, 92, 94),
            _ => (34, 52, 68, 80, 90, 93),
        };
        let small = |rng: &mut Rng, pending: usize| -> usize {
            match rng.below(8) {
                0 => 0,
                1 => pending,
                2 => pending + 1 + rng.below(4) as usize,
                3 => 1 << 20,
                _ => rng.below(pending as u64 + 2) as usize,
            }
        };
        let op = if r < w {
            let b = payload(rng, max_payload);
            pending += b.len();
            Op::Write(b)
        } else if r < f {
            Op::Flush
        } else if r < rd {
            Op::Read(small(rng, pending.min(12)))
        } else if r < c {
            Op::Consume(small(rng, pending.min(12)))
        } else if r < k {
            Op::ConsumeWith(small(rng, pending.min(12)))
        } else if r < ke {
            Op::ConsumeWithErr
        } else {
            Op::Clear
        };
        ops.push(op);
    }
    ops
}

fn corner_cases() -> Vec<Vec<Op>> {
    use Op::*;
    let w = |s: &[u8]| Write(s.to_vec());
    vec![
        vec![],
        // the pinned tree's witness: len() must be 3 after the drop
        vec![w(&[1, 2, 3]), Flush, w(&[4, 5, 6]), Flush, w(&[7, 8]), Clear, Read(10), Read(10)],
        // double flush, empty chunk in the middle, flush that is a no-op on an empty front chunk
        vec![w(&[1, 2]), Flush, Flush, w(&[3]), Consume(2), Flush, w(&[4]), Clear, Read(8), Read(8), Read(8)],
        vec![w(&[1, 2]), Flush, Flush, w(&[3]), Read(9), Flush, w(&[4]), Read(0), Flush, w(&[5]), Clear, Read(9), Read(9)],
        // consume(0) on empty, on an empty chunk, inside a chunk
        vec![Consume(0), w(&[]), Consume(0), w(&[9, 8, 7]), Consume(0), Consume(1), Consume(0), Read(5)],
        // drop with one chunk and with three chunks, front chunk partly read
        vec![w(&[1, 2, 3, 4]), Read(2), Clear, Read(9)],
        vec![w(&[1, 2, 3, 4]), Flush, w(&[5, 6]), Flush, w(&[7]), Read(1), Clear, w(&[8]), Flush, w(&[9]), Clear, Read(9), Read(9)],
        // drop on empty queue and after flush only
        vec![Clear, Flush, Clear, w(&[1]), Flush, Clear, Read(1), Clear, Read(1)],
        // consume across / beyond the chunk end
        vec![w(&[1, 2, 3]), Flush, w(&[4, 5]), Consume(2), Consume(1), Consume(5), Read(3)],
        vec![w(&[1, 2, 3]), Flush, w(&[4, 5]), ConsumeWith(7), ConsumeWith(1), ConsumeWithErr, ConsumeWith(1), ConsumeWith(0)],
        // write after flush must start a new chunk, not extend the front one
        vec![w(&[1]), Flush, w(&[2]), Flush, w(&[3]), Read(1), Read(1), Read(1), Read(1)],
        // consume exactly to the chunk end then write (no flush in between)
        vec![w(&[1, 2]), Consume(2), w(&[3]), Read(4), w(&[4]), Flush, Clear, Read(4)],
        // empty writes
        vec![w(&[]), Flush, w(&[]), Clear, Read(1), w(&[5]), Read(1)],
        // long run of flushes with reads
        vec![w(&[1]), Flush, w(&[2]), Flush, w(&[3]), Flush, w(&[4]), Flush, Read(1), Clear, Read(1), Read(1), Read(1)],
    ]
}

fn queue_stage(cfg: &Cfg, out: &mut Out, rng: &mut Rng) {
    for ops in corner_cases() {
        check_seq(out, &ops, "corner");
    }
    // small-scope exhaustive: all sequences of length <= L over a 7-letter alphabet
    let alphabet = [
        Op::Write(vec![0xa1]),
        Op::Write(vec![0xb1, 0xb2]),
        Op::Flush,
        Op::Read(1),
        Op::Consume(1),
        Op::ConsumeWith(2),
        Op::Clear,
    ];
    let depth = if cfg.thorough { 6 } else { 5 };
    let mut idx = vec![0usize; 0];
    loop {
        let ops: Vec<Op> = idx.iter().map(|i| alphabet[*i].clone()).collect();
        if !ops.is_empty() {
            check_seq(out, &ops, "exhaustive");
        }
        // next word in length-lexicographic order
        let mut p = idx.len();
        loop {
            if p == 0 {
                idx = vec![0; idx.len() + 1];
                break;
            }
            p -= 1;
            if idx[p] + 1 < alphabet.len() {
                idx[p] += 1;
                for x in idx[p + 1..].iter_mut() {
                    *x = 0;
                }
                break;
            }
        }
        if idx.len() > depth {
            break;
        }
    }
    let n = if cfg.thorough { 150_000 } else { 12_000 };
    for _ in 0..n {
        let ops = random_seq(rng, cfg.thorough);
        check_seq(out, &ops, "random");
    }
    out.extra("queue_exhaustive_depth", json!(depth));
}

fn replay(cfg: &Cfg, out: &mut Out, v: &Value) {
    let input = &v["failure"]["input"];
    match input["stage"].as_str() {
        Some("queue") => {
            let ops: Vec<Op> = input["ops"]
                .as_array()
                .map(|a| a.iter().filter_map(|t| t.as_str().and_then(Op::parse)).collect())
                .unwrap_or_default();
            check_seq(out, &ops, "replay");
        }
        Some("pty") => pty::replay(cfg, out, input),
        _ => {}
    }
}

fn main() {
    let cfg = Cfg::from_env();
    let mut out = cfg.out();
    verif_harness::silence_panics();
    let mut rng = Rng::new(cfg.seed);
    if let Some(v) = cfg.replay.clone() {
        replay(&cfg, &mut out, &v);
        out.finish("replay of one recorded failing input");
        return;
    }
    queue_stage(&cfg, &mut out, &mut rng);
    if out.failure_count == 0 {
        pty::pty_stage(&cfg, &mut out, &mut rng);
    } else {
        out.extra("pty", json!({"skipped": "the queue stage already found a failing input"}));
    }
    out.finish(
        "queue stage: hand-picked corner sequences + every sequence up to the exhaustive depth over a 7-call alphabet + random \
         sequences (1..36 calls quick / 1..60 thorough, payloads 0..200 bytes, consume arguments around and beyond the slice end); \
         non-trivial = at least two chunks existed at some point or bytes were dropped; distinct by request. \
         pty stage: sessions on a real pseudo-terminal, see extra.pty",
    );
}
