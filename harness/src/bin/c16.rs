//! C16: output is delivered in order, exactly once; frames are never torn.
//!
//! Stage 1 (`queue`): random operation sequences on the public `IOQueue` API.
//!   * correspondence: the Lean model `SurfModel.IOQueue` must print the same observation after every call, in
//!     two line classes: `c16 qa` = behaviour on the byte level (bytes returned by `read`, `len()`), `c16 qr` =
//!     representation only (`chunks_count()`, `is_empty()`, `as_slice()`: a mismatch there alone is a
//!     difference in chunking, not in bytes);
//!   * oracle: an independent byte deque with flush marks (the textbook FIFO the theorems refine to).
//! Stage 2 (`pty`): the real `UnixTerminal` on the slave side of a pseudo-terminal, in both size modes (ioctl /
//! escape sequences), and the real `Terminal::run_render` loop with its frame-drop policy; see `pty` below.
use serde_json::{Value, json};
use std::collections::VecDeque;
use std::io::{Read, Write};
use surf_n_term::common::IOQueue;
use verif_harness::{Cfg, r#gen::Rng, guarded, out::Out, out::hex};

/// Stage 2: the real `UnixTerminal` on the slave side of a pseudo-terminal.
///
/// A peer thread owns the master side: it answers the DA1 query (`ESC [ c`) with `ESC [ ? 62 ; 4 c` (without
/// the answer the constructor and `drop` wait), and drains the master at a random, changing rate, so that the
/// kernel hands short writes and EAGAIN to `poll`.  The session thread drives write / execute / flush / poll /
/// frames_drop.  Oracle: what the master received must be the concatenation of the written payloads in order,
/// each exactly once, except payloads removed by `frames_drop`, and every such removal must start at a
/// position at which the program flushed (flush or poll) and which had not been reached by the transmission
/// (`stats().send`) when `frames_drop` was called.  Correspondence: the results of the tty writes recorded by
/// the hook `verif_c16` are replayed through the Lean model of `poll` (trace refinement).
///
/// Timing never produces a failure: a session whose output did not arrive completely within generous bounds
/// is counted as inconclusive (histogram `pty:inconclusive:*`), not as a violation.
mod pty {
    use super::*;
    use std::os::fd::{FromRawFd, OwnedFd, RawFd};
    use std::sync::atomic::{AtomicBool, AtomicUsize, Ordering};
    use std::sync::{Arc, Mutex};
    use std::time::{Duration, Instant};
    use surf_n_term::encoder::{Encoder, TTYEncoder};
    use surf_n_term::{Position, SystemTerminal, Terminal, TerminalCommand, verif_c16};

    #[derive(Clone, Debug)]
    pub enum TOp {
        /// `Write::write_all` of a synthetic printable payload: byte i = 32 + (tag + i) % 95
        Write(usize, usize),
        /// `execute` of command number n of `command(n)`
        Exec(usize),
        /// `execute(TerminalCommand::Raw(raw_bytes(len, tag)))`
        Raw(usize, usize),
        Flush,
        /// `poll(Some(ms))`
        Poll(u64),
        Drop,
        /// `execute(TerminalCommand::Image(image n, position))` — output of the terminal's image handler
        Image(usize),
        /// `execute(TerminalCommand::ImageErase(image n, Some(position)))`
        ImageErase(usize),
        /// the peer stops reading the master (stalled terminal emulator): what follows stays in flight
        Pause,
        /// the peer reads again
        Resume,
        /// SIGWINCH sent to the session (polling) thread: the next poll picks it up — a `Resize` event in ioctl
        /// size mode, the size query queued by the poll loop in escape-sequence size mode. Never a reason to
        /// lose output.
        Winch,
    }

    impl TOp {
        fn token(&self) -> String {
            match self {
                TOp::Write(l, t) => format!("W:{l}:{t}"),
                TOp::Exec(n) => format!("x:{n}"),
                TOp::Raw(l, t) => format!("X:{l}:{t}"),
                TOp::Flush => "f".into(),
                TOp::Poll(ms) => format!("p:{ms}"),
                TOp::Drop => "d".into(),
                TOp::Image(n) => format!("i:{n}"),
                TOp::ImageErase(n) => format!("e:{n}"),
                TOp::Pause => "P".into(),
                TOp::Resume => "R".into(),
                TOp::Winch => "S".into(),
            }
        }
        fn parse(t: &str) -> Option<TOp> {
            let parts: Vec<&str> = t.split(':').collect();
            Some(match parts.as_slice() {
                ["f"] => TOp::Flush,
                ["d"] => TOp::Drop,
                ["P"] => TOp::Pause,
                ["R"] => TOp::Resume,
                ["S"] => TOp::Winch,
                ["i", n] => TOp::Image(n.parse().ok()?),
                ["e", n] => TOp::ImageErase(n.parse().ok()?),
                ["W", l, g] => TOp::Write(l.parse().ok()?, g.parse().ok()?),
                ["x", n] => TOp::Exec(n.parse().ok()?),
                ["X", l, g] => TOp::Raw(l.parse().ok()?, g.parse().ok()?),
                ["p", ms] => TOp::Poll(ms.parse().ok()?),
                _ => return None,
            })
        }
    }

    /// small opaque test image number `n` and where it goes
    fn image(n: usize) -> (surf_n_term::Image, Position) {
        use surf_n_term::{RGBA, Size, SurfaceOwned};
        let surf = SurfaceOwned::new_with(Size { height: 6 + n % 7, width: 4 + n % 5 }, |pos| {
            RGBA::new((40 * pos.row + n) as u8, (60 * pos.col + 3 * n) as u8, (n * 17) as u8, 255)
        });
        (surf_n_term::Image::new(surf), Position { row: n % 20, col: n * 3 % 100 })
    }

    /// the bytes the terminal's image handler writes for an image command, from a second handler of the same
    /// kind that sees the same calls in the same order (the handlers keep a cache)
    struct ImageMirror {
        sixel: Option<surf_n_term::SixelImageHandler>,
    }

    impl ImageMirror {
        fn new(term: &mut SystemTerminal, with_images: bool) -> Result<ImageMirror, String> {
            use surf_n_term::image::ImageHandlerKind;
            match term.image_handler().kind() {
                ImageHandlerKind::Dummy => Ok(ImageMirror { sixel: None }),
                // sixel output is not byte-reproducible: sessions with image commands run with the dummy handler
                ImageHandlerKind::Sixel if !with_images => Ok(ImageMirror { sixel: Some(surf_n_term::SixelImageHandler::new(None)) }),
                _ => Err("unexpected-image-handler".into()),
            }
        }
        fn bytes(&mut self, n: usize, erase: bool) -> Vec<u8> {
            use surf_n_term::ImageHandler;
            let mut out = Vec::new();
            if let Some(h) = self.sixel.as_mut() {
                let (img, pos) = image(n);
                if erase {
                    h.erase(&mut out, &img, Some(pos)).unwrap();
                } else {
                    h.draw(&mut out, &img, pos).unwrap();
                }
            }
            out
        }
    }

    pub fn synth(len: usize, tag: usize) -> Vec<u8> {
        (0..len).map(|i| (32 + (tag + i) % 95) as u8).collect()
    }

    /// commands that never contain the DA1 / size query; `Face` / `FaceModify` go through the encoder's internal
    /// chunk buffer, `DecModeSet` / `Title` through `write!`
    fn command(n: usize) -> TerminalCommand {
        use surf_n_term::{DecMode, Face, FaceModify, TerminalColor};
        let m = n / 24;
        match n % 24 {
            0 => TerminalCommand::CursorTo(Position { row: m % 50, col: n % 131 }),
            1 => TerminalCommand::Char(char::from_u32(0x41 + (m as u32) % 26).unwrap()),
            2 => TerminalCommand::EraseLine,
            3 => TerminalCommand::CursorSave,
            4 => TerminalCommand::CursorRestore,
            5 => TerminalCommand::EraseChars(m % 9 + 1),
            6 => TerminalCommand::Title(format!("t{n}")),
            7 => TerminalCommand::Face(
                ["fg=#aabbcc,bg=#112233", "fg=#010203,bold", "bg=#fefefe,italic,underline", "bold,italic"][m % 4].parse::<Face>().unwrap_or_default(),
            ),
            8 => TerminalCommand::FaceModify(match m % 4 {
                0 => FaceModify { fg: Some(surf_n_term::RGBA::new(0x44, 0x55, 0x66, 255)), ..Default::default() },
                1 => FaceModify { bold: Some(true), ..Default::default() },
                2 => FaceModify { underline: Some(surf_n_term::UnderlineStyle::Curly), italic: Some(false), ..Default::default() },
                _ => FaceModify { reset: true, bg: Some(surf_n_term::RGBA::new(10, 11, 12, 255)), ..Default::default() },
            }),
            9 => TerminalCommand::DecModeSet { enable: m % 2 == 0, mode: [DecMode::AutoWrap, DecMode::VisibleCursor, DecMode::MouseSGR][m % 3] },
            10 => TerminalCommand::Char(['é', 'ж', '→', '😀', 'x'][m % 5]),
            // the rest of the enum (Image / ImageErase / Raw have ops of their own)
            11 => TerminalCommand::Reset,
            12 => TerminalCommand::FaceGet,
            13 => TerminalCommand::DecModeGet([DecMode::AutoWrap, DecMode::BracketedPaste][m % 2]),
            14 => TerminalCommand::CursorGet,
            15 => TerminalCommand::CursorMove { row: (m % 7) as i32 - 3, col: (m % 5) as i32 - 2 },
            16 => TerminalCommand::EraseLineLeft,
            17 => TerminalCommand::EraseLineRight,
            18 => TerminalCommand::EraseScreen,
            19 => TerminalCommand::Scroll((m % 9) as i32 - 4),
            20 => TerminalCommand::ScrollRegion { start: m % 5, end: 10 + m % 7 },
            21 => TerminalCommand::Termcap(vec!["TN".to_string(), "Co".to_string()]),
            22 => TerminalCommand::Color {
                name: [TerminalColor::Background, TerminalColor::Foreground, TerminalColor::Palette(m % 16)][m % 3],
                color: if m % 2 == 0 { None } else { Some(surf_n_term::RGBA::new(1, 2, 3, 255)) },
            },
            // (DeviceAttrs is the one variant left out: the peer answers it, `dispose` takes the first answer for the
            // answer to its own closing DA1, restores the tty, and the real answer is then ECHOED by the restored
            // line discipline onto the master — harness noise, not output of the terminal)
            _ => TerminalCommand::KeyboardLevel(m % 3),
        }
    }

    /// Encodings written down here, independently of the crate's encoder, for the commands whose byte form is
    /// fixed by ECMA-48 / DEC. They are the expectation of the stream oracle for these commands (so an encoder
    /// that withholds, buffers or reorders output is seen by C16); a disagreement with the crate's encoder on
    /// the *spelling* is C05's business: it is recorded in the evidence and the encoder's spelling is used.
    fn command_table(n: usize) -> Option<Vec<u8>> {
        let m = n / 24;
        match n % 24 {
            0 => Some(format!("\x1b[{};{}H", m % 50 + 1, n % 131 + 1).into_bytes()),
            1 => Some(vec![(0x41 + m % 26) as u8]),
            2 => Some(b"\x1b[2K".to_vec()),
            3 => Some(b"\x1b7".to_vec()),
            4 => Some(b"\x1b8".to_vec()),
            10 => Some(["é", "ж", "→", "😀", "x"][m % 5].as_bytes().to_vec()),
            11 => Some(b"\x1bc".to_vec()),
            _ => None,
        }
    }

    /// payload of a `TerminalCommand::Raw`: chosen by the harness, so the expectation does not pass through the
    /// crate's encoder at all; printable bytes with `ESC 7` / `ESC 8` sprinkled in
    pub fn raw_bytes(len: usize, tag: usize) -> Vec<u8> {
        let mut v = Vec::with_capacity(len);
        let mut i = 0;
        while v.len() < len {
            if i % 29 == 7 && v.len() + 2 <= len {
                v.extend_from_slice(if i % 2 == 0 { b"\x1b8" } else { b"\x1b7" });
            } else {
                v.push((33 + (tag * 7 + i) % 90) as u8);
            }
            i += 1;
        }
        v
    }

    struct Shared {
        received: Mutex<Vec<u8>>,
        count: AtomicUsize,
        /// consecutive empty 50 ms polls observed by the peer (reset by every byte received)
        idle: AtomicUsize,
        stop: AtomicBool,
        /// the peer does not read while set (stalled terminal emulator)
        pause: AtomicBool,
        /// drain as fast as possible from now on (set when the terminal is being dropped with output in flight)
        fast: AtomicBool,
        /// answer the size query `ESC[18t ESC[14t` (the ioctl reports no pixel size, so the terminal then takes
        /// its size from escape sequences: `UnixTerminal::size` is `Some`)
        esc: bool,
        /// announce sixel support in the DA1 answer (`ESC[?62;4c`), otherwise `ESC[?62c`: the terminal then uses
        /// the dummy image handler, whose output for image commands is empty (sixel output is not
        /// byte-reproducible: the palette order comes from a hash map)
        sixel: bool,
        rows: u16,
        cols: u16,
    }

    pub const SIZE_QUERY: &[u8] = b"\x1b[18t\x1b[14t";

    fn open_pty(rows: u16, cols: u16) -> Result<(RawFd, RawFd), String> {
        unsafe {
            let master = libc::posix_openpt(libc::O_RDWR | libc::O_NOCTTY);
            if master < 0 {
                return Err("posix_openpt failed".into());
            }
            if libc::grantpt(master) != 0 || libc::unlockpt(master) != 0 {
                libc::close(master);
                return Err("grantpt/unlockpt failed".into());
            }
            let mut name = [0 as libc::c_char; 128];
            if libc::ptsname_r(master, name.as_mut_ptr(), name.len()) != 0 {
                libc::close(master);
                return Err("ptsname_r failed".into());
            }
            let slave = libc::open(name.as_ptr(), libc::O_RDWR | libc::O_NOCTTY);
            if slave < 0 {
                libc::close(master);
                return Err("open slave failed".into());
            }
            let ws = libc::winsize { ws_row: rows, ws_col: cols, ws_xpixel: 0, ws_ypixel: 0 };
            libc::ioctl(master, libc::TIOCSWINSZ, &ws);
            let fl = libc::fcntl(master, libc::F_GETFL);
            libc::fcntl(master, libc::F_SETFL, fl | libc::O_NONBLOCK);
            Ok((master, slave))
        }
    }

    /// peer: drain the master at a changing rate, answer DA1
    fn peer(master: RawFd, shared: Arc<Shared>, mut rng: Rng, profile: u64) {
        let mut buf = vec![0u8; 1 << 16];
        let mut tail: Vec<u8> = Vec::new();
        let mut phase_left = 0u64;
        let mut mode = 0u64;
        loop {
            let stopping = shared.stop.load(Ordering::SeqCst);
            if stopping && shared.idle.load(Ordering::SeqCst) >= 2 {
                break;
            }
            if !stopping && shared.pause.load(Ordering::SeqCst) {
                std::thread::sleep(Duration::from_millis(1));
                continue;
            }
            // rate: a phase of `phase_left` reads in one mode
            if phase_left == 0 {
                mode = match profile {
                    0 => 0,
                    1 => *rng.pick(&[0, 0, 1, 3]),
                    2 => *rng.pick(&[1, 1, 2, 3]),
                    _ => *rng.pick(&[0, 1, 2, 3, 4]),
                };
                phase_left = 1 + rng.below(200);
            }
            phase_left -= 1;
            let (chunk, sleep_us) = if stopping || shared.fast.load(Ordering::SeqCst) {
                (1 << 16, 0)
            } else {
                match mode {
                    0 => (1 << 16, 0),
                    1 => (4096 + rng.below(28672) as usize, rng.below(300)),
                    2 => (256 + rng.below(3840) as usize, 200 + rng.below(1800)),
                    3 => (1 << 16, if rng.chance(1, 6) { 5000 + rng.below(35000) } else { 0 }),
                    _ => (1 + rng.below(64) as usize, rng.below(100)),
                }
            };
            if sleep_us > 0 {
                std::thread::sleep(Duration::from_micros(sleep_us));
            }
            let mut pfd = libc::pollfd { fd: master, events: libc::POLLIN, revents: 0 };
            let r = unsafe { libc::poll(&mut pfd, 1, 50) };
            if r == 0 {
                shared.idle.fetch_add(1, Ordering::SeqCst);
                continue;
            }
            if r < 0 {
                continue;
            }
            let n = unsafe { libc::read(master, buf.as_mut_ptr() as *mut libc::c_void, chunk) };
            if n <= 0 {
                // EIO: slave side closed (we keep our own descriptor, so this is transient); EAGAIN: nothing
                std::thread::sleep(Duration::from_millis(1));
                continue;
            }
            let data = &buf[..n as usize];
            // queries, possibly split over reads; replies in the order of the queries
            tail.extend_from_slice(data);
            let mut replies: Vec<u8> = Vec::new();
            let mut i = 0;
            while i < tail.len() {
                let rest = &tail[i..];
                if rest.starts_with(b"\x1b[c") {
                    replies.extend_from_slice(if shared.sixel { &b"\x1b[?62;4c"[..] } else { &b"\x1b[?62c"[..] });
                    i += 3;
                } else if shared.esc && rest.starts_with(SIZE_QUERY) {
                    replies.extend_from_slice(
                        format!("\x1b[8;{};{}t\x1b[4;{};{}t", shared.rows, shared.cols, shared.rows as usize * 20, shared.cols as usize * 10).as_bytes(),
                    );
                    i += SIZE_QUERY.len();
                } else if rest.len() < SIZE_QUERY.len() && (b"\x1b[c".starts_with(rest) || SIZE_QUERY.starts_with(rest)) {
                    break; // possibly the beginning of a query: keep it for the next read
                } else {
                    i += 1;
                }
            }
            tail.drain(..i);
            {
                let mut rec = shared.received.lock().unwrap();
                rec.extend_from_slice(data);
                shared.count.store(rec.len(), Ordering::SeqCst);
            }
            shared.idle.store(0, Ordering::SeqCst);
            if !replies.is_empty() {
                unsafe { libc::write(master, replies.as_ptr() as *const libc::c_void, replies.len()) };
            }
        }
    }

    /// pseudo-terminal + peer thread of one session
    struct Rig {
        master: RawFd,
        keep: RawFd,
        shared: Arc<Shared>,
        thread: Option<std::thread::JoinHandle<()>>,
    }

    impl Rig {
        fn open(profile: u64, peer_seed: u64, esc: bool, sixel: bool, rows: u16, cols: u16) -> Result<(Rig, RawFd), String> {
            let (master, slave) = open_pty(rows, cols)?;
            // our own descriptor of the slave for the whole session: the pty must outlive the terminal
            let keep = unsafe { libc::dup(slave) };
            let shared = Arc::new(Shared {
                received: Mutex::new(Vec::new()), count: AtomicUsize::new(0), idle: AtomicUsize::new(0),
                stop: AtomicBool::new(false), pause: AtomicBool::new(false), fast: AtomicBool::new(false), esc, sixel, rows, cols,
            });
            let thread = {
                let shared = shared.clone();
                let rng = Rng(peer_seed);
                std::thread::spawn(move || peer(master, shared, rng, profile))
            };
            Ok((Rig { master, keep, shared, thread: Some(thread) }, slave))
        }
        /// the real terminal on the slave; what the constructor queued is sent and has reached the peer.
        /// Returns the terminal and the number of bytes sent so far.
        fn boot(&self, slave: RawFd) -> Result<(SystemTerminal, usize), String> {
            let mut term = SystemTerminal::new_from_fd(unsafe { OwnedFd::from_raw_fd(slave) })
                .map_err(|e| format!("constructor:{e:?}"))?;
            let t0 = Instant::now();
            while term.frames_pending() > 0 && t0.elapsed() < Duration::from_secs(20) {
                if term.poll(Some(Duration::from_millis(1))).is_err() {
                    break;
                }
            }
            // the number of bytes the constructor has sent is taken from what the master RECEIVED once the line is
            // quiet, not from the crate's own accounting (`stats().send`), which is cross-checked against it
            let stats0 = term.stats().send;
            self.shared.idle.store(0, Ordering::SeqCst);
            loop {
                let c = self.shared.count.load(Ordering::SeqCst);
                if c == stats0 || self.shared.idle.load(Ordering::SeqCst) >= 8 || t0.elapsed() > Duration::from_secs(40) {
                    break;
                }
                std::thread::sleep(Duration::from_millis(1));
            }
            if term.frames_pending() > 0 {
                drop(term);
                return Err("setup-not-drained".into());
            }
            let s0 = self.shared.count.load(Ordering::SeqCst);
            if s0 != stats0 {
                drop(term);
                return Err(format!("stats-send-differs-at-setup:{s0}:{stats0}"));
            }
            let escape_mode = term.size().map(|s| s.pixels.height > 0 && s.pixels.width > 0).unwrap_or(false);
            if escape_mode != self.shared.esc {
                drop(term);
                return Err("size-mode-not-as-requested".into());
            }
            Ok((term, s0))
        }
        fn finish(mut self) {
            self.shared.stop.store(true, Ordering::SeqCst);
            if let Some(t) = self.thread.take() {
                let _ = t.join();
            }
            unsafe {
                libc::close(self.keep);
                libc::close(self.master);
            }
        }
    }

    pub struct SessionOutcome {
        pub inconclusive: Option<String>,
        pub failure: Option<(String, String, String)>,
        /// request for the Lean model and the observations of the implementation
        pub trace: Option<(String, String)>,
        pub bytes: usize,
        pub short_writes: usize,
        pub eagain: usize,
        pub tty_writes: usize,
        pub dropped_payloads: usize,
        pub executed: Vec<String>,
        /// commands whose encoder output equals / differs from the harness' own table of encodings
        pub table: (usize, usize),
    }

    enum Evt {
        Payload(usize),
        /// bytes the library queues on its own (size query re-issued by `frames_drop` in escape-size mode):
        /// the property does not demand them, so the stream oracle accepts the stream with or without them —
        /// but if present they must be whole and at this place
        LibPayload(usize),
        Mark,
        Drop(usize),
    }

    /// Sessions that raise SIGWINCH in escape-size mode: WHICH poll picks the signal up (and queues the size query
    /// behind everything queued at that moment) is not determined by the session, so for these sessions the stream
    /// is judged modulo size queries: every occurrence of the query is removed from what the master received and
    /// the optional library payloads are removed from the expectation. (Sessions without such a signal keep the
    /// exact placement rule for the query that `frames_drop` re-issues.)
    fn modulo_size_queries(apply: bool, events: &[Evt], got: Vec<u8>) -> (Vec<Evt>, Vec<u8>) {
        let copy = |e: &Evt| match e {
            Evt::Payload(i) => Evt::Payload(*i),
            Evt::LibPayload(i) => Evt::LibPayload(*i),
            Evt::Mark => Evt::Mark,
            Evt::Drop(n) => Evt::Drop(*n),
        };
        if !apply {
            return (events.iter().map(copy).collect(), got);
        }
        // positions (in the raw stream) at which a size query starts
        let mut starts: Vec<usize> = Vec::new();
        let mut out = Vec::with_capacity(got.len());
        let mut i = 0;
        while i < got.len() {
            if got[i..].starts_with(SIZE_QUERY) {
                starts.push(i);
                i += SIZE_QUERY.len();
            } else {
                out.push(got[i]);
                i += 1;
            }
        }
        // "bytes sent when the drop happened" counted the queries too: take out every query that had started by then
        // (a query cut by that moment is taken out whole, which errs on the lenient side by at most its length)
        let ev: Vec<Evt> = events.iter().filter(|e| !matches!(e, Evt::LibPayload(_))).map(|e| match e {
            Evt::Drop(sent) => {
                let q = starts.iter().filter(|p| **p < *sent).count();
                Evt::Drop(sent.saturating_sub(q * SIZE_QUERY.len()))
            }
            other => copy(other),
        }).collect();
        (ev, out)
    }

    /// marker returned by `oracle` when its search was cut off: the session is inconclusive
    const SEARCH_BUDGET: &str = "oracle search budget exhausted";

    fn fnv(bytes: &[u8]) -> u64 {
        let mut h = 0xcbf29ce484222325u64;
        for b in bytes {
            h ^= *b as u64;
            h = h.wrapping_mul(0x100000001b3);
        }
        h
    }

    /// Is `got` the written stream minus legally dropped payloads?  Returns the number of dropped payloads.
    ///
    /// `complete = false` (the session did not finish within its time bound): "in order, exactly once" is a safety
    /// property, so what has arrived so far must still be a *prefix* of such a stream — this is independent of timing.
    fn oracle(payloads: &[Vec<u8>], events: &[Evt], got: &[u8], complete: bool) -> Result<usize, (String, String)> {
        // depth-first over the legal cut of every drop
        fn rec(
            payloads: &[Vec<u8>], events: &[Evt], at: usize, kept: &mut Vec<usize>, marks: &mut Vec<usize>,
            got: &[u8], complete: bool, best: &mut (usize, String), budget: &mut u64,
        ) -> Option<usize> {
            // the search is exponential in the number of optional library payloads and drops of a session: it is
            // cut off after a fixed number of nodes and the session is then inconclusive (never a failure, never a hang)
            if *budget == 0 {
                return None;
            }
            *budget -= 1;
            let mut at = at;
            let kept_len0 = kept.len();
            let marks_len0 = marks.len();
            let mut result = None;
            let mut recursed = false;
            while at < events.len() {
                match &events[at] {
                    Evt::Payload(i) => kept.push(*i),
                    Evt::LibPayload(i) => {
                        for with in [true, false] {
                            let mut k2 = kept.clone();
                            if with {
                                k2.push(*i);
                            }
                            let mut m2 = marks.clone();
                            if let Some(r) = rec(payloads, events, at + 1, &mut k2, &mut m2, got, complete, best, budget) {
                                result = Some(r);
                                break;
                            }
                        }
                        recursed = true;
                        break;
                    }
                    // a mark = "everything written so far is a complete frame": number of payloads written
                    Evt::Mark => marks.push(kept.last().map(|i| i + 1).unwrap_or(0)),
                    Evt::Drop(sent) => {
                        // candidates: no cut, or cut at a marked boundary b: remove kept payloads with index >= b
                        let mut cands: Vec<usize> = vec![usize::MAX];
                        cands.extend(marks.iter().cloned());
                        cands.sort();
                        cands.dedup();
                        let mut seen: Vec<usize> = Vec::new();
                        for b in cands {
                            let n_keep = kept.iter().take_while(|i| **i < b).count();
                            if seen.contains(&n_keep) {
                                continue;
                            }
                            seen.push(n_keep);
                            let bytes: usize = kept[..n_keep].iter().map(|i| payloads[*i].len()).sum();
                            if bytes < *sent {
                                continue; // would cut into what has started transmission
                            }
                            let mut k2 = kept[..n_keep].to_vec();
                            let mut m2 = marks.clone();
                            if let Some(r) = rec(payloads, events, at + 1, &mut k2, &mut m2, got, complete, best, budget) {
                                result = Some(r);
                                break;
                            }
                        }
                        recursed = true;
                        break;
                    }
                }
                at += 1;
            }
            if !recursed {
                // leaf: compare the candidate stream with what the master received
                let total: usize = kept.iter().map(|i| payloads[*i].len()).sum();
                let mut ok = if complete { total == got.len() } else { got.len() <= total };
                let mut pos = 0;
                let mut common = 0;
                for i in kept.iter() {
                    if pos >= got.len() {
                        break;
                    }
                    let p = &payloads[*i];
                    let end = (pos + p.len()).min(got.len());
                    let g = &got[pos..end];
                    if g == &p[..g.len()] {
                        common += g.len();
                    } else {
                        common += g.iter().zip(p.iter()).take_while(|(a, b)| a == b).count();
                        ok = false;
                        break;
                    }
                    pos += p.len();
                }
                if ok {
                    let all = events.iter().filter(|e| matches!(e, Evt::Payload(_))).count() + kept.iter().filter(|i| payloads[**i] == SIZE_QUERY && !events.iter().any(|e| matches!(e, Evt::Payload(j) if j == *i))).count();
                    result = Some(all - kept.len());
                } else if common >= best.0 {
                    *best = (common, format!("{} bytes, fnv {:016x}", total, {
                        let mut v = Vec::with_capacity(total);
                        for i in kept.iter() {
                            v.extend_from_slice(&payloads[*i]);
                        }
                        fnv(&v)
                    }));
                }
            }
            kept.truncate(kept_len0.min(kept.len()));
            marks.truncate(marks_len0.min(marks.len()));
            result
        }
        let mut best = (0usize, String::new());
        let mut budget: u64 = 400_000;
        match rec(payloads, events, 0, &mut Vec::new(), &mut Vec::new(), got, complete, &mut best, &mut budget) {
            Some(d) => Ok(d),
            None if budget == 0 => Err((SEARCH_BUDGET.into(), String::new())),
            None => Err((
                format!("{} the written payloads in order, each once, minus whole frames legally dropped; closest legal stream: {} (agrees on the first {} bytes)",
                    if complete { "exactly" } else { "a prefix of" }, best.1, best.0),
                format!("{} bytes, fnv {:016x}, bytes around the first difference: {}", got.len(), fnv(got),
                    String::from_utf8_lossy(&got[best.0.saturating_sub(12).min(got.len())..(best.0 + 24).min(got.len())]).escape_default()),
            )),
        }
    }

    /// `end_by_drop`: the terminal is dropped right after the last call, with whatever is queued or in flight
    /// (`Drop` → `dispose`: frames_drop, closing sequence, wait for the DA1 answer); otherwise the queue is
    /// drained by polls first.
    pub fn run_session(ops: &[TOp], profile: u64, peer_seed: u64, esc: bool, end_by_drop: bool, want_trace: bool) -> SessionOutcome {
        let mut outcome = SessionOutcome {
            inconclusive: None, failure: None, trace: None, bytes: 0, short_writes: 0, eagain: 0, tty_writes: 0,
            dropped_payloads: 0, executed: Vec::new(), table: (0, 0),
        };
        let with_images = ops.iter().any(|o| matches!(o, TOp::Image(_) | TOp::ImageErase(_)));
        let (rig, slave) = match Rig::open(profile, peer_seed, esc, !with_images, 50, 132) {
            Ok(x) => x,
            Err(e) => {
                outcome.inconclusive = Some(format!("no-pty:{e}"));
                return outcome;
            }
        };
        let shared = rig.shared.clone();
        let booted = rig.boot(slave);
        let finish = |outcome: SessionOutcome| {
            rig.finish();
            outcome
        };
        let (mut term, s0) = match booted {
            Ok(x) => x,
            Err(e) if e.starts_with("stats-send-differs") => {
                outcome.failure = Some(("stats().send differs from the number of bytes the master received while the terminal was set up".into(),
                    "received:stats equal".into(), e));
                return finish(outcome);
            }
            Err(e) => {
                outcome.inconclusive = Some(e);
                return finish(outcome);
            }
        };
        let mut enc = TTYEncoder::new(term.capabilities().clone());
        let mut mirror = match ImageMirror::new(&mut term, with_images) {
            Ok(m) => m,
            Err(e) => {
                outcome.inconclusive = Some(e);
                drop(term);
                return finish(outcome);
            }
        };
        let closing = if end_by_drop { closing_sequence(esc) } else { None };
        if end_by_drop && closing.is_none() {
            outcome.inconclusive = Some("closing-sequence-not-calibrated".into());
            drop(term);
            return finish(outcome);
        }
        let _ = verif_c16::take_trace(); // (the calibration above polls another terminal)

        let mut payloads: Vec<Vec<u8>> = Vec::new();
        let mut events: Vec<Evt> = Vec::new();
        let mut req = String::from(if esc { "c16 te" } else { "c16 t" });
        let mut obs: Vec<String> = Vec::new();
        let total: usize = ops.iter().map(|o| if let TOp::Write(l, _) = o { *l } else { 16 }).sum();
        let deadline = Instant::now() + Duration::from_secs(25 + (total as u64 >> 16));
        let mut queue: VecDeque<TOp> = ops.iter().cloned().collect();
        let mut draining = false;
        let mut poll_error: Option<String> = None;
        let mut op_index = 0usize;
        let mut winch_pending = false;
        let had_winch = ops.iter().any(|o| matches!(o, TOp::Winch));
        let mut model_traceable = (true) && !(esc && ops.iter().any(|o| matches!(o, TOp::Winch)));
        let mut table_agree = 0usize;
        let mut table_differ = 0usize;
        // bytes that have certainly started transmission: the larger of the crate's own count and what the master
        // has received (the latter does not depend on the crate)
        let sent_now = |term: &SystemTerminal, shared: &Shared| {
            (term.stats().send - s0).max(shared.count.load(Ordering::SeqCst).saturating_sub(s0))
        };
        loop {
            let op = match queue.pop_front() {
                Some(op) => op,
                None if end_by_drop && winch_pending => TOp::Poll(0), // a SIGWINCH is always picked up before the drop
                None => {
                    shared.pause.store(false, Ordering::SeqCst);
                    // final drain: poll until nothing is pending
                    if end_by_drop || term.frames_pending() == 0 {
                        break;
                    }
                    if Instant::now() > deadline {
                        outcome.inconclusive = Some("drain-timeout".into());
                        break;
                    }
                    draining = true;
                    TOp::Poll(2)
                }
            };
            if !draining {
                outcome.executed.push(op.token());
            }
            let frames_before = term.frames_pending();
            op_index += 1;
            let path = (op_index + ops.len()) % 3;
            let step = guarded(|| match &op {
                TOp::Pause => shared.pause.store(true, Ordering::SeqCst),
                TOp::Resume => shared.pause.store(false, Ordering::SeqCst),
                TOp::Winch => {
                    unsafe { libc::pthread_kill(libc::pthread_self(), libc::SIGWINCH) };
                    winch_pending = true;
                }
                TOp::Image(n) | TOp::ImageErase(n) => {
                    let erase = matches!(op, TOp::ImageErase(_));
                    let p = mirror.bytes(*n, erase);
                    if !p.is_empty() {
                        req.push_str(&format!(" w:{}", hex(&p)));
                    }
                    events.push(Evt::Payload(payloads.len()));
                    payloads.push(p);
                    let (img, pos) = image(*n);
                    if erase {
                        term.execute(TerminalCommand::ImageErase(img, Some(pos))).unwrap();
                    } else {
                        term.execute(TerminalCommand::Image(img, pos)).unwrap();
                    }
                }
                TOp::Write(l, t) => {
                    let p = synth(*l, *t);
                    events.push(Evt::Payload(payloads.len()));
                    payloads.push(p.clone());
                    req.push_str(&format!(" W:{l}:{t}"));
                    // three ways to the same `Write::write`: a single `write` (an empty buffer must still reach it: it
                    // creates a chunk), `write_all`, `write!` — directly, through `&mut T` and through `dyn Terminal`
                    match (path, p.is_empty()) {
                        (0, _) | (_, true) => {
                            let n = term.write(&p).unwrap();
                            assert_eq!(n, p.len());
                        }
                        (1, _) => (&mut term).write_all(&p).unwrap(),
                        _ => write!(term.dyn_ref(), "{}", std::str::from_utf8(&p).unwrap()).unwrap(),
                    }
                }
                TOp::Raw(l, t) => {
                    // expectation: the raw bytes themselves (nothing of the crate in between)
                    let p = raw_bytes(*l, *t);
                    events.push(Evt::Payload(payloads.len()));
                    payloads.push(p.clone());
                    if !p.is_empty() {
                        req.push_str(&format!(" w:{}", hex(&p)));
                    }
                    match path {
                        0 => term.execute(TerminalCommand::Raw(p)).unwrap(),
                        1 if p.len() >= 2 => {
                            let (a, b) = p.split_at(p.len() / 2);
                            term.execute_many([TerminalCommand::Raw(a.to_vec()), TerminalCommand::Raw(b.to_vec())]).unwrap()
                        }
                        1 => Terminal::execute(&mut &mut term, TerminalCommand::Raw(p)).unwrap(),
                        _ => term.dyn_ref().execute(TerminalCommand::Raw(p)).unwrap(),
                    }
                }
                TOp::Exec(n) => {
                    let mut p = Vec::new();
                    enc.encode(&mut p, command(*n)).unwrap();
                    if let Some(t) = command_table(*n) {
                        if t == p {
                            table_agree += 1;
                        } else {
                            table_differ += 1; // spelling differs: C05's subject; keep the encoder's bytes
                        }
                    }
                    if !p.is_empty() {
                        req.push_str(&format!(" w:{}", hex(&p)));
                    }
                    events.push(Evt::Payload(payloads.len()));
                    payloads.push(p);
                    match path {
                        0 => term.execute(command(*n)).unwrap(),
                        1 => Terminal::execute(&mut &mut term, command(*n)).unwrap(),
                        _ => term.dyn_ref().execute(command(*n)).unwrap(),
                    }
                }
                TOp::Flush => {
                    events.push(Evt::Mark);
                    req.push_str(" f");
                    match path {
                        0 => term.flush().unwrap(),
                        1 => (&mut term).flush().unwrap(),
                        _ => term.dyn_ref().flush().unwrap(),
                    }
                }
                TOp::Poll(ms) => {
                    events.push(Evt::Mark);
                    if winch_pending {
                        winch_pending = false;
                        if esc {
                            // the poll loop queues the size query itself (library bytes, behind everything queued)
                            events.push(Evt::LibPayload(payloads.len()));
                            payloads.push(SIZE_QUERY.to_vec());
                            model_traceable = false; // the line protocol has no token for writes injected by poll
                        }
                    }
                    let r = match path {
                        0 => term.poll(Some(Duration::from_millis(*ms))),
                        1 => Terminal::poll(&mut &mut term, Some(Duration::from_millis(*ms))),
                        _ => term.dyn_ref().poll(Some(Duration::from_millis(*ms))),
                    };
                    if let Err(e) = r {
                        poll_error = Some(format!("{e:?}"));
                    }
                    let tr = verif_c16::take_trace();
                    outcome.tty_writes += tr.len();
                    for (off, acc) in tr.iter() {
                        if *acc == 0 && *off > 0 {
                            outcome.eagain += 1;
                        } else if acc < off {
                            outcome.short_writes += 1;
                        }
                    }
                    if tr.is_empty() {
                        req.push_str(" p:-");
                    } else {
                        req.push_str(" p:");
                        req.push_str(&tr.iter().map(|(_, a)| a.to_string()).collect::<Vec<_>>().join(","));
                    }
                }
                TOp::Drop => {
                    events.push(Evt::Drop(sent_now(&term, &shared)));
                    if esc {
                        // the library queues its size query again, behind what the cut kept
                        events.push(Evt::LibPayload(payloads.len()));
                        payloads.push(SIZE_QUERY.to_vec());
                    }
                    req.push_str(" d");
                    match path {
                        0 => term.frames_drop(),
                        1 => Terminal::frames_drop(&mut &mut term),
                        _ => term.dyn_ref().frames_drop(),
                    }
                }
            });
            if step.is_err() {
                // a panic inside the terminal: report it, and do not run its destructor (it would poll again)
                outcome.failure = Some((format!("{} panicked", op.token()), "no panic".into(), "panic".into()));
                std::mem::forget(term);
                return finish(outcome);
            }
            // frames are delimited by flush (and by poll, which flushes): no other call may add one
            let frames_after = term.frames_pending();
            let allowed = match &op {
                TOp::Flush | TOp::Poll(_) => frames_before + 1,
                TOp::Drop => 1,
                _ => frames_before.max(1),
            };
            if frames_after > allowed && outcome.failure.is_none() {
                outcome.failure = Some((
                    format!("call #{} `{}` added a frame boundary although the program did not flush (frames_pending {} -> {}): a frame is split and frames_drop can tear it",
                        outcome.executed.len(), op.token(), frames_before, frames_after),
                    format!("frames_pending <= {allowed}"), format!("{frames_after}"),
                ));
            }
            outcome.table = (table_agree, table_differ);
            if !matches!(op, TOp::Pause | TOp::Resume | TOp::Winch) && !(matches!(op, TOp::Image(_) | TOp::ImageErase(_) | TOp::Exec(_) | TOp::Raw(..)) && payloads.last().map(|p| p.is_empty()).unwrap_or(false)) {
                obs.push(format!("{}/{}/{}", term.stats().send - s0, frames_after, verif_c16::queue_len(&term)));
            }
            if poll_error.is_some() {
                break;
            }
        }
        if let Some(e) = poll_error {
            outcome.inconclusive = Some(format!("poll-error:{e}"));
        }
        if end_by_drop && outcome.inconclusive.is_none() {
            // ---- drop the terminal with whatever is queued / in flight -------------------------------------
            let sent_stats = term.stats().send - s0;
            let sent = sent_now(&term, &shared);
            let qlen = verif_c16::queue_len(&term);
            let closing = closing.unwrap();
            events.push(Evt::Drop(sent));
            if esc {
                events.push(Evt::LibPayload(payloads.len()));
                payloads.push(SIZE_QUERY.to_vec());
            }
            events.push(Evt::Payload(payloads.len()));
            payloads.push(closing.clone());
            if esc && winch_pending {
                // a SIGWINCH not yet picked up: the polls of `dispose` may queue the size query behind the closing sequence
                events.push(Evt::LibPayload(payloads.len()));
                payloads.push(SIZE_QUERY.to_vec());
            }
            // the peer drains as fast as it can so that `dispose` (1 s per poll) can finish
            shared.pause.store(false, Ordering::SeqCst);
            shared.fast.store(true, Ordering::SeqCst);
            shared.idle.store(0, Ordering::SeqCst);
            if guarded(move || drop(term)).is_err() {
                outcome.failure = Some(("drop of the terminal panicked".into(), "no panic".into(), "panic".into()));
                return finish(outcome);
            }
            // the terminal is gone: wait until the line has been idle for a while
            let t1 = Instant::now();
            while shared.idle.load(Ordering::SeqCst) < 12 && t1.elapsed() < Duration::from_secs(30) {
                std::thread::sleep(Duration::from_millis(2));
            }
            let got: Vec<u8> = shared.received.lock().unwrap()[s0..].to_vec();
            outcome.bytes = got.len();
            let (events, got) = modulo_size_queries(esc && had_winch, &events, got);
            match oracle(&payloads, &events, &got, true) {
                Ok(d) => outcome.dropped_payloads = d,
                Err((exp, _)) if exp == SEARCH_BUDGET => outcome.inconclusive = Some("oracle-search-budget".into()),
                Err((exp, g)) => {
                    // `dispose` gives up when the DA1 answer does not arrive within a second and then flushes the
                    // tty: an incomplete stream is then legitimate, but it must still be a prefix (safety)
                    match oracle(&payloads, &events, &got, false) {
                        Err((e2, _)) if e2 == SEARCH_BUDGET => outcome.inconclusive = Some("oracle-search-budget".into()),
                        Ok(_) if find(&got, &closing, 0).is_none() => outcome.inconclusive = Some("dispose-did-not-finish".into()),
                        _ => outcome.failure = Some((
                            "terminal dropped with output in flight: the master did not receive the frame in flight completely, then the closing sequence".into(), exp, g)),
                    }
                }
            }
            if want_trace && model_traceable && outcome.inconclusive.is_none() && outcome.failure.is_none() && got.len() >= sent_stats {
                obs.push(format!("end {}/{}", fnv(&got[..sent_stats]), qlen));
                outcome.trace = Some((req, obs.join(" ")));
            }
            return finish(outcome);
        }
        if outcome.inconclusive.is_none() {
            // everything was handed to the kernel; wait until the peer has it (or has seen the line idle)
            let send = term.stats().send;
            loop {
                let c = shared.count.load(Ordering::SeqCst);
                if c == send || (c != send && shared.idle.load(Ordering::SeqCst) >= 20) {
                    break;
                }
                if Instant::now() > deadline + Duration::from_secs(20) {
                    outcome.inconclusive = Some("peer-timeout".into());
                    break;
                }
                std::thread::sleep(Duration::from_millis(1));
            }
        }
        {
            let complete = outcome.inconclusive.is_none();
            let got: Vec<u8> = shared.received.lock().unwrap()[s0..].to_vec();
            outcome.bytes = got.len();
            let raw_len = got.len();
            let (events, got) = modulo_size_queries(esc && had_winch, &events, got);
            match oracle(&payloads, &events, &got, complete) {
                Ok(d) => outcome.dropped_payloads = d,
                Err((exp, _)) if exp == SEARCH_BUDGET => {
                    if outcome.failure.is_none() {
                        outcome.inconclusive = Some("oracle-search-budget".into());
                    }
                }
                Err((exp, g)) => match outcome.failure.take() {
                    None => outcome.failure = Some(("the pty master did not receive the written stream".into(), exp, g)),
                    // a frame was split earlier in this session; here is what it did to the stream
                    Some((what, e0, g0)) => outcome.failure = Some((
                        format!("{what}; and on the wire a frame arrived torn"), format!("{e0}; stream: {exp}"), format!("{g0}; stream: {g}"))),
                },
            }
            if complete && outcome.failure.is_none() && term.stats().send - s0 != raw_len {
                outcome.failure = Some(("stats().send differs from the number of bytes the master received".into(),
                    format!("{}", raw_len), format!("{}", term.stats().send - s0)));
            }
            if want_trace && complete && model_traceable {
                obs.push(format!("end {}/{}", fnv(&got), verif_c16::queue_len(&term)));
                outcome.trace = Some((req, obs.join(" ")));
            }
        }
        drop(term); // epilogue + DA1 round trip with the peer, termios restored
        finish(outcome)
    }

    /// The closing sequence `dispose` sends (face reset, cursor on, mouse off, …, DA1), measured once per size
    /// mode on a terminal that is dropped with an empty queue (the size query `frames_drop` may put in front of
    /// it is not part of it).
    fn closing_sequence(esc: bool) -> Option<Vec<u8>> {
        static CACHE: Mutex<[Option<Option<Vec<u8>>>; 2]> = Mutex::new([None, None]);
        if let Some(c) = CACHE.lock().unwrap()[esc as usize].clone() {
            return c;
        }
        let measured = (|| {
            let (rig, slave) = Rig::open(0, 1, esc, true, 50, 132).ok()?;
            let r = match rig.boot(slave) {
                Ok((term, s0)) => {
                    let shared = rig.shared.clone();
                    shared.idle.store(0, Ordering::SeqCst);
                    drop(term);
                    let t = Instant::now();
                    while shared.idle.load(Ordering::SeqCst) < 12 && t.elapsed() < Duration::from_secs(20) {
                        std::thread::sleep(Duration::from_millis(2));
                    }
                    let mut e = shared.received.lock().unwrap()[s0..].to_vec();
                    if e.starts_with(SIZE_QUERY) {
                        e.drain(..SIZE_QUERY.len());
                    }
                    if e.ends_with(b"\x1b[c") && e.len() < 200 { Some(e) } else { None }
                }
                Err(_) => None,
            };
            rig.finish();
            r
        })();
        CACHE.lock().unwrap()[esc as usize] = Some(measured.clone());
        measured
    }

    fn random_session(rng: &mut Rng, size_class: u64) -> Vec<TOp> {
        // size_class 0: small payloads, many calls; 1: up to 256 KiB; 2: MiB payloads
        let n = match size_class {
            0 => 10 + rng.below(60),
            1 => 6 + rng.below(30),
            _ => 4 + rng.below(10),
        } as usize;
        let mut ops = Vec::new();
        let mut tag = rng.below(95) as usize;
        let mut big_left = if size_class == 2 { 1 + rng.below(2) } else { 0 };
        for _ in 0..n {
            let r = rng.below(100);
            let op = if r < 38 {
                tag += 1 + rng.below(7) as usize;
                let len = match size_class {
                    0 => *rng.pick(&[0usize, 1, 7, 100, 1000, 4095, 4096, 4097, 9000]) + rng.below(3) as usize,
                    1 => match rng.below(4) {
                        0 => rng.below(200) as usize,
                        1 => 4096 + rng.below(8192) as usize,
                        2 => 20_000 + rng.below(60_000) as usize,
                        _ => 65_536 + rng.below(190_000) as usize,
                    },
                    _ => {
                        if big_left > 0 && rng.chance(1, 2) {
                            big_left -= 1;
                            (1 << 20) + rng.below(3 << 20) as usize
                        } else {
                            rng.below(100_000) as usize
                        }
                    }
                };
                TOp::Write(len, tag)
            } else if r < 43 {
                TOp::Exec(rng.below(4000) as usize)
            } else if r < 47 {
                tag += 1;
                TOp::Raw(*rng.pick(&[0usize, 1, 2, 3, 40, 700, 4096, 6000]) + rng.below(3) as usize, tag)
            } else if r < 52 {
                if rng.chance(3, 4) { TOp::Image(rng.below(12) as usize) } else { TOp::ImageErase(rng.below(12) as usize) }
            } else if r < 54 {
                match rng.below(3) { 0 => TOp::Pause, 1 => TOp::Resume, _ => TOp::Winch }
            } else if r < 68 {
                TOp::Flush
            } else if r < 92 {
                TOp::Poll(*rng.pick(&[0u64, 0, 0, 1, 1, 2, 5]))
            } else {
                TOp::Drop
            };
            ops.push(op);
        }
        ops
    }

    fn report(out: &mut Out, ops: &[TOp], profile: u64, peer_seed: u64, esc: bool, end_by_drop: bool, label: &str, o: SessionOutcome) {
        let key = format!("{label} {}", o.executed.join(" "));
        out.case(&key, o.short_writes + o.eagain > 0 || o.dropped_payloads > 0);
        out.hist(&format!("pty:{label}"));
        out.hist(if esc { "pty:size-from-escape-sequences" } else { "pty:size-from-ioctl" });
        if end_by_drop {
            out.hist("pty:ended-by-dropping-the-terminal");
        }
        if ops.iter().any(|o| matches!(o, TOp::Image(_) | TOp::ImageErase(_))) {
            out.hist("pty:sessions-with-image-commands");
        }
        if let Some(why) = &o.inconclusive {
            let why = why.split(':').next().unwrap_or("?");
            out.hist(&format!("pty:inconclusive:{why}"));
            eprintln!("c16 pty session inconclusive ({why}); only the prefix (safety) check applies");
        }
        if o.short_writes > 0 {
            out.hist("pty:sessions-with-short-writes");
        }
        if o.eagain > 0 {
            out.hist("pty:sessions-with-eagain");
        }
        if o.dropped_payloads > 0 {
            out.hist("pty:sessions-with-dropped-frames");
        }
        if let Some((req, ans)) = &o.trace {
            out.corr(req, ans);
        }
        if o.table.1 > 0 {
            out.hist("pty:encoder-spelling-differs-from-harness-table(see C05)");
        } else if o.table.0 > 0 {
            out.hist("pty:sessions-with-commands-checked-against-harness-table");
        }
        out.sample(json!({"pty_session": o.executed.len(), "bytes": o.bytes, "tty_writes": o.tty_writes,
            "short_writes": o.short_writes, "eagain": o.eagain, "dropped_payloads": o.dropped_payloads}));
        if let Some((what, exp, got)) = o.failure {
            out.fail(
                &format!("UnixTerminal on a pty: {what}"),
                json!({"stage": "pty", "ops": ops.iter().map(|o| o.token()).collect::<Vec<_>>(), "peer_profile": profile, "peer_seed": peer_seed.to_string(), "size_from_escape": esc, "end_by_drop": end_by_drop}),
                json!(exp),
                json!(got),
            );
        }
    }

    pub fn pty_stage(cfg: &Cfg, out: &mut Out, rng: &mut Rng) {
        let t0 = Instant::now();
        let budget = Duration::from_secs(if cfg.thorough { 420 } else { 22 });
        // white-box sessions first
        let fixed: Vec<(Vec<TOp>, u64, bool)> = vec![
            // one payload far beyond the pty buffer, peer slow: short writes and EAGAIN
            (vec![TOp::Write(300_000, 3), TOp::Poll(0), TOp::Poll(1), TOp::Write(10, 9), TOp::Flush, TOp::Poll(0)], 2, false),
            // a frame `text, image, text` whose first part is in flight (stalled peer) when frames are dropped:
            // the whole frame is one chunk whatever commands it contains, so nothing of it may be dropped
            (vec![TOp::Pause, TOp::Write(100_000, 7), TOp::Image(1), TOp::Write(500, 8), TOp::ImageErase(2), TOp::Exec(9), TOp::Poll(0),
                  TOp::Drop, TOp::Resume, TOp::Write(20, 9), TOp::Flush, TOp::Poll(1)], 0, false),
            // the terminal is dropped while a frame far beyond the pty buffer is partly transmitted and another
            // one is queued behind it: the frame in flight must arrive completely, then the closing sequence
            (vec![TOp::Pause, TOp::Write(600_000, 11), TOp::Flush, TOp::Write(5_000, 12), TOp::Flush, TOp::Poll(0)], 0, true),
            // the same with the frame in flight still open (no flush after it) and an image command inside
            (vec![TOp::Write(50, 1), TOp::Flush, TOp::Poll(2), TOp::Pause, TOp::Write(300_000, 13), TOp::Image(3), TOp::Write(100, 14), TOp::Poll(0),
                  TOp::Write(70, 15)], 0, true),
            // a backlog of frames behind a frame in flight, then Reset in the middle of the next frame, and a
            // SIGWINCH picked up by a poll: nothing of this may cost a byte (only the session's own frames_drop may)
            (vec![TOp::Pause, TOp::Write(100_000, 21), TOp::Flush, TOp::Poll(0), TOp::Write(3_000, 22), TOp::Flush, TOp::Write(2_000, 23), TOp::Flush,
                  TOp::Write(200, 24), TOp::Exec(11), TOp::Write(50, 25), TOp::Exec(11 + 24), TOp::Flush, TOp::Winch, TOp::Poll(0), TOp::Write(60, 26),
                  TOp::Winch, TOp::Resume, TOp::Poll(2), TOp::Exec(23), TOp::Exec(23 + 24), TOp::Poll(1)], 0, false),
            (vec![TOp::Pause, TOp::Write(50_000, 31), TOp::Flush, TOp::Poll(0), TOp::Write(700, 32), TOp::Flush, TOp::Write(800, 33), TOp::Winch,
                  TOp::Poll(0), TOp::Write(90, 34)], 0, true),
            // dropped with an empty queue, and with frames that have not started
            (vec![TOp::Write(10, 1), TOp::Flush, TOp::Poll(5), TOp::Poll(5)], 0, true),
            (vec![TOp::Pause, TOp::Write(10, 1), TOp::Flush, TOp::Write(20, 2), TOp::Flush, TOp::Write(30, 3)], 0, true),
            // frames queued behind a partly sent frame, then dropped
            (vec![TOp::Write(200_000, 1), TOp::Poll(0), TOp::Write(5000, 2), TOp::Flush, TOp::Write(7000, 3), TOp::Flush,
                  TOp::Write(11, 4), TOp::Drop, TOp::Write(13, 5), TOp::Flush, TOp::Poll(1)], 2, false),
            // drop with nothing sent yet, double flush, empty payload
            (vec![TOp::Write(100, 1), TOp::Flush, TOp::Flush, TOp::Write(0, 2), TOp::Write(50, 3), TOp::Flush, TOp::Exec(8), TOp::Drop,
                  TOp::Exec(17), TOp::Poll(0), TOp::Drop, TOp::Poll(0)], 0, false),
        ];
        let mut n_sessions = 0u64;
        let mut total_bytes = 0usize;
        let mut total_writes = 0usize;
        let mut total_short = 0usize;
        let mut total_eagain = 0usize;
        let mut inconclusive = 0u64;
        let mut consecutive_inconclusive = 0u64;
        let mut run = |out: &mut Out, ops: Vec<TOp>, profile: u64, peer_seed: u64, esc: bool, end_by_drop: bool, label: &str, trace: bool| {
            let o = run_session(&ops, profile, peer_seed, esc, end_by_drop, trace);
            n_sessions += 1;
            total_bytes += o.bytes;
            total_writes += o.tty_writes;
            total_short += o.short_writes;
            total_eagain += o.eagain;
            if o.inconclusive.is_some() {
                inconclusive += 1;
                consecutive_inconclusive += 1;
            } else {
                consecutive_inconclusive = 0;
            }
            report(out, &ops, profile, peer_seed, esc, end_by_drop, label, o);
            consecutive_inconclusive >= 3
        };
        let mut give_up = false;
        for (ops, profile, end_by_drop) in fixed {
            // every white-box session in both size modes
            for esc in [false, true] {
                let seed = rng.next();
                give_up = run(out, ops.clone(), profile, seed, esc, end_by_drop, "fixed", true);
            }
        }
        // the render loop's frame-drop policy (`Terminal::run_render`) against a stalled peer, both size modes
        for (esc, stall) in [(false, true), (true, true), (false, false)] {
            let o = run_render_session(esc, 140, 30, 100, stall, rng.next());
            report_render(out, esc, stall, o);
        }
        let mut i = 0u64;
        while t0.elapsed() < budget && !give_up {
            // size classes: mostly small and medium; a MiB session now and then (always one in the quick tier)
            let class = if i == 1 { 2 } else { match rng.below(10) { 0..=4 => 0, 5..=8 => 1, _ => 2 } };
            let profile = if class == 2 { rng.below(2) } else { rng.below(4) };
            let ops = random_session(rng, class);
            let seed = rng.next();
            let esc = rng.chance(1, 3);
            // a quarter of the sessions end with the terminal being dropped with whatever is queued or in flight
            let end_by_drop = class < 2 && rng.chance(1, 4);
            give_up = run(out, ops, profile, seed, esc, end_by_drop, &format!("random-class{class}"), class < 2);
            if cfg.thorough && i % 40 == 7 {
                let esc = rng.chance(1, 2);
                let stall = rng.chance(3, 4);
                let o = run_render_session(esc, 60 + rng.below(200) as usize, 10 + rng.below(40) as u16, 40 + rng.below(90) as u16, stall, rng.next());
                report_render(out, esc, stall, o);
            }
            i += 1;
            if !cfg.thorough && i >= 30 {
                break;
            }
        }
        if give_up {
            // three sessions in a row did not complete: the environment (or the terminal) is stuck; stop sampling
            out.hist("pty:gave-up-after-3-inconclusive-sessions");
        }
        out.extra("pty", json!({
            "sessions": n_sessions, "inconclusive_sessions": inconclusive, "bytes_received_by_master": total_bytes,
            "tty_writes": total_writes, "short_writes": total_short, "eagain": total_eagain,
            "note": "sampling of kernel schedules on a real pseudo-terminal; a session that does not complete within its time bound is inconclusive, never a violation",
        }));
    }

    pub fn replay(_cfg: &Cfg, out: &mut Out, input: &Value) {
        let esc = input["size_from_escape"].as_bool().unwrap_or(false);
        let seed: u64 = input["peer_seed"].as_str().and_then(|s| s.parse().ok()).unwrap_or(1);
        if input["stage"].as_str() == Some("render") {
            let o = run_render_session(
                esc, input["frames"].as_u64().unwrap_or(140) as usize, input["rows"].as_u64().unwrap_or(30) as u16,
                input["cols"].as_u64().unwrap_or(100) as u16, input["stalled_peer"].as_bool().unwrap_or(true), seed,
            );
            report_render(out, esc, input["stalled_peer"].as_bool().unwrap_or(true), o);
            return;
        }
        let ops: Vec<TOp> = input["ops"].as_array().map(|a| a.iter().filter_map(|t| t.as_str().and_then(TOp::parse)).collect()).unwrap_or_default();
        let profile = input["peer_profile"].as_u64().unwrap_or(0);
        // the kernel schedule is not reproducible: try a few times
        for _ in 0..5 {
            let before = out.failure_count;
            let end_by_drop = input["end_by_drop"].as_bool().unwrap_or(false);
            let o = run_session(&ops, profile, seed, esc, end_by_drop, true);
            report(out, &ops, profile, seed, esc, end_by_drop, "replay", o);
            if out.failure_count > before {
                break;
            }
        }
    }

    // ------------------------------------------------------------------------------------------------
    // `Terminal::run_render`: frames_drop after the handler has drawn, when frames_pending() > 32
    // ------------------------------------------------------------------------------------------------

    pub struct RenderOutcome {
        pub inconclusive: Option<String>,
        pub failure: Option<(String, String, String)>,
        pub frames_drawn: usize,
        pub frames_received: usize,
        pub drops: usize,
        pub max_pending: usize,
        pub bytes: usize,
        pub brackets_as_known: bool,
        pub params: Value,
    }

    fn find(hay: &[u8], needle: &[u8], from: usize) -> Option<usize> {
        if needle.is_empty() || hay.len() < needle.len() {
            return None;
        }
        (from..=hay.len() - needle.len()).find(|i| &hay[*i..*i + needle.len()] == needle)
    }

    /// frame `k` paints every cell: row 1 with `'A' + (k/26 + k) % 26`, every other row with `'A' + k % 26`
    /// (every cell differs from frame `k - 1`, so each frame is a full repaint whatever the renderer diffed against)
    fn frame_letters(k: usize) -> (u8, u8) {
        (b'A' + (k % 26) as u8, b'A' + ((k / 26 + k) % 26) as u8)
    }

    /// Frame integrity on the master side: the stream must be a sequence of complete frames
    /// `SYNC_ON body SYNC_OFF` (body = one full repaint of a single frame number), frame numbers increasing and
    /// ending with the last frame drawn; between frames only the library's size query may appear (escape mode).
    fn check_render_stream(got: &[u8], on: &[u8], off: &[u8], esc: bool, rows: usize, cols: usize, n_frames: usize) -> Result<Vec<usize>, (String, String)> {
        let show = |at: usize| String::from_utf8_lossy(&got[at.saturating_sub(16)..(at + 40).min(got.len())]).escape_default().to_string();
        let mut pos = 0;
        let mut ks: Vec<usize> = Vec::new();
        let mut last = 0usize;
        while pos < got.len() {
            if esc && got[pos..].starts_with(SIZE_QUERY) {
                pos += SIZE_QUERY.len();
                continue;
            }
            if !got[pos..].starts_with(on) {
                return Err(("a frame start (synchronized output on) or the size query between frames".into(), format!("offset {pos}: {}", show(pos))));
            }
            let body_at = pos + on.len();
            let Some(end) = find(got, off, body_at) else {
                return Err(("every frame that reaches the master is complete".into(), format!("frame starting at offset {pos} is never terminated: {}", show(pos))));
            };
            let body = &got[body_at..end];
            if let Some(i) = find(body, on, 0) {
                return Err(("frames are not interleaved or cut".into(), format!("frame start inside the frame at offset {}: {}", body_at + i, show(body_at + i))));
            }
            // strip CSI sequences, keep the painted characters
            let mut letters: Vec<u8> = Vec::with_capacity(rows * cols);
            let mut i = 0;
            while i < body.len() {
                if body[i] == 0x1b {
                    if body.get(i + 1) != Some(&b'[') {
                        return Err(("only CSI sequences inside a frame".into(), format!("offset {}: {}", body_at + i, show(body_at + i))));
                    }
                    i += 2;
                    while i < body.len() && !(0x40..=0x7e).contains(&body[i]) {
                        i += 1;
                    }
                    i += 1;
                } else {
                    letters.push(body[i]);
                    i += 1;
                }
            }
            if letters.len() != rows * cols {
                return Err((format!("a complete frame paints {} cells", rows * cols), format!("frame at offset {pos} paints {} cells", letters.len())));
            }
            let (a, b) = (letters[0], letters[cols]);
            let uniform = letters.iter().enumerate().all(|(i, c)| *c == if i / cols == 1 { b } else { a });
            if !uniform || !a.is_ascii_uppercase() || !b.is_ascii_uppercase() {
                return Err(("all cells of a frame belong to one frame number".into(), format!("frame at offset {pos} mixes contents: {}", show(body_at))));
            }
            // frame number modulo 676, then the smallest number after the previous frame
            let k0 = (a - b'A') as usize;
            let hi = ((b as usize + 26 * 26) - a as usize) % 26;
            let kmod = hi * 26 + k0;
            let mut k = kmod;
            while k <= last {
                k += 676;
            }
            debug_assert_eq!(frame_letters(k), (a, b));
            if k > n_frames {
                return Err(("frame numbers increase and were drawn by the handler".into(), format!("frame at offset {pos} has number {kmod} (mod 676) after frame {last}, {n_frames} drawn")));
            }
            last = k;
            ks.push(k);
            pos = end + off.len();
        }
        if last != n_frames {
            return Err((format!("the last frame drawn ({n_frames}) reaches the master"), format!("last frame received: {last}")));
        }
        Ok(ks)
    }

    pub fn run_render_session(esc: bool, n_frames: usize, rows: u16, cols: u16, stall: bool, peer_seed: u64) -> RenderOutcome {
        use surf_n_term::{Cell, Face, SurfaceMut, TerminalAction, DecMode};
        let mut o = RenderOutcome {
            inconclusive: None, failure: None, frames_drawn: 0, frames_received: 0, drops: 0, max_pending: 0, bytes: 0,
            brackets_as_known: true,
            params: json!({"stage": "render", "frames": n_frames, "rows": rows, "cols": cols, "stalled_peer": stall,
                "size_from_escape": esc, "peer_seed": peer_seed.to_string()}),
        };
        let (rig, slave) = match Rig::open(if stall { 0 } else { 2 }, peer_seed, esc, true, rows, cols) {
            Ok(x) => x,
            Err(e) => {
                o.inconclusive = Some(format!("no-pty:{e}"));
                return o;
            }
        };
        let shared = rig.shared.clone();
        let (mut term, s0) = match rig.boot(slave) {
            Ok(x) => x,
            Err(e) => {
                o.inconclusive = Some(e);
                rig.finish();
                return o;
            }
        };
        let mut enc = TTYEncoder::new(term.capabilities().clone());
        let mut on = Vec::new();
        let mut off = Vec::new();
        enc.encode(&mut on, TerminalCommand::DecModeSet { enable: true, mode: DecMode::SynchronizedOutput }).unwrap();
        enc.encode(&mut off, TerminalCommand::DecModeSet { enable: false, mode: DecMode::SynchronizedOutput }).unwrap();
        // the frame brackets are taken from the crate's encoder (their spelling is C05's subject); recorded when
        // they are not the DEC private mode 2026 sequences the harness knows
        let literal_brackets = on == b"\x1b[?2026h" && off == b"\x1b[?2026l";
        if stall {
            shared.pause.store(true, Ordering::SeqCst);
        }
        let mut k = 0usize;
        let mut drops = 0usize;
        let mut max_pending = 0usize;
        let run = guarded(|| {
            term.run_render(|term, _event, mut surf| {
                let pending = term.frames_pending();
                max_pending = max_pending.max(pending);
                if pending > 32 {
                    drops += 1; // TERMINAL_FRAMES_DROP: the loop drops after this handler returns
                }
                k += 1;
                let (a, b) = frame_letters(k);
                surf.fill_with(|pos, _| Cell::new_char(Face::default(), (if pos.row == 1 { b } else { a }) as char));
                Ok::<_, surf_n_term::Error>(if k == n_frames { TerminalAction::Quit(()) } else { TerminalAction::Sleep(Duration::ZERO) })
            })
        });
        shared.pause.store(false, Ordering::SeqCst);
        o.brackets_as_known = literal_brackets;
        o.frames_drawn = k;
        o.drops = drops;
        o.max_pending = max_pending;
        match run {
            Err(()) => {
                o.failure = Some(("run_render panicked".into(), "no panic".into(), "panic".into()));
                std::mem::forget(term);
                rig.finish();
                return o;
            }
            Ok(Err(e)) => {
                o.inconclusive = Some(format!("run-render-error:{e:?}"));
            }
            Ok(Ok(())) => {}
        }
        // send what is still queued, wait for the peer
        let deadline = Instant::now() + Duration::from_secs(40);
        while o.inconclusive.is_none() && term.frames_pending() > 0 {
            if Instant::now() > deadline {
                o.inconclusive = Some("drain-timeout".into());
                break;
            }
            if let Err(e) = term.poll(Some(Duration::from_millis(2))) {
                o.inconclusive = Some(format!("poll-error:{e:?}"));
            }
        }
        if o.inconclusive.is_none() {
            let send = term.stats().send;
            loop {
                let c = shared.count.load(Ordering::SeqCst);
                if c == send || shared.idle.load(Ordering::SeqCst) >= 20 {
                    break;
                }
                if Instant::now() > deadline + Duration::from_secs(20) {
                    o.inconclusive = Some("peer-timeout".into());
                    break;
                }
                std::thread::sleep(Duration::from_millis(1));
            }
        }
        if o.inconclusive.is_none() {
            let got: Vec<u8> = shared.received.lock().unwrap()[s0..].to_vec();
            o.bytes = got.len();
            match check_render_stream(&got, &on, &off, esc, rows as usize, cols as usize, k) {
                Ok(ks) => o.frames_received = ks.len(),
                Err((exp, g)) => o.failure = Some(("render loop: frame integrity on the pty master".into(), exp, g)),
            }
        }
        drop(term);
        rig.finish();
        o
    }

    fn report_render(out: &mut Out, esc: bool, stall: bool, o: RenderOutcome) {
        let key = format!("render {}", o.params);
        out.case(&key, o.drops > 0);
        out.hist("render:sessions");
        if !o.brackets_as_known {
            out.hist("render:synchronized-output-brackets-differ-from-ESC[?2026h/l(see C05)");
        }
        out.hist(if esc { "render:size-from-escape-sequences" } else { "render:size-from-ioctl" });
        if let Some(why) = &o.inconclusive {
            let why = why.split(':').next().unwrap_or("?");
            out.hist(&format!("render:inconclusive:{why}"));
            eprintln!("c16 render session inconclusive ({why}); not counted as a violation");
        } else if o.drops > 0 {
            out.hist("render:sessions-with-frames_drop");
        } else if stall {
            out.hist("render:stalled-but-no-drop-triggered");
        }
        out.extra(&format!("render_session_{}", out.evaluations), json!({"params": o.params, "frames_drawn": o.frames_drawn,
            "frames_received_complete": o.frames_received, "times_over_threshold": o.drops, "max_frames_pending": o.max_pending,
            "bytes": o.bytes, "inconclusive": o.inconclusive}));
        if let Some((what, exp, got)) = o.failure {
            out.fail(&format!("UnixTerminal::run_render on a pty: {what}"), o.params, json!(exp), json!(got));
        }
    }
}

#[derive(Clone, Debug, PartialEq)]
pub enum Op {
    Write(Vec<u8>),
    Flush,
    Read(usize),
    Consume(usize),
    /// `consume_with` whose consumer answers `Ok(k)`
    ConsumeWith(usize),
    /// `consume_with` whose consumer answers `Err`
    ConsumeWithErr,
    Clear,
}

impl Op {
    fn token(&self) -> String {
        match self {
            Op::Write(b) => format!("w:{}", hex(b)),
            Op::Flush => "f".into(),
            Op::Read(n) => format!("r:{n}"),
            Op::Consume(n) => format!("c:{n}"),
            Op::ConsumeWith(k) => format!("k:{k}"),
            Op::ConsumeWithErr => "ke".into(),
            Op::Clear => "d".into(),
        }
    }
    fn parse(t: &str) -> Option<Op> {
        let mut it = t.splitn(2, ':');
        let head = it.next()?;
        let arg = it.next();
        Some(match (head, arg) {
            ("f", None) => Op::Flush,
            ("d", None) => Op::Clear,
            ("ke", None) => Op::ConsumeWithErr,
            ("w", Some(h)) => Op::Write(unhex(h)?),
            ("r", Some(n)) => Op::Read(n.parse().ok()?),
            ("c", Some(n)) => Op::Consume(n.parse().ok()?),
            ("k", Some(n)) => Op::ConsumeWith(n.parse().ok()?),
            _ => return None,
        })
    }
}

fn unhex(h: &str) -> Option<Vec<u8>> {
    if h == "-" {
        return Some(vec![]);
    }
    if h.len() % 2 != 0 {
        return None;
    }
    (0..h.len() / 2).map(|i| u8::from_str_radix(&h[2 * i..2 * i + 2], 16).ok()).collect()
}

/// Independent statement of the property on the byte level: FIFO of bytes with flush marks.
struct Fifo {
    buf: VecDeque<u8>,
    /// positions in `buf` (from the read position) at which flush was called
    marks: Vec<usize>,
}

impl Fifo {
    fn take(&mut self, k: usize) {
        self.buf.drain(..k);
        self.marks = self.marks.iter().filter(|m| **m >= k).map(|m| m - k).collect();
    }
    fn starts_with(&self, s: &[u8]) -> bool {
        s.len() <= self.buf.len() && s.iter().zip(self.buf.iter()).all(|(a, b)| a == b)
    }
}

pub struct SeqResult {
    /// per-call observations on the byte level (`<read result>/<len>`), in the format of the Lean driver
    pub answer: String,
    /// per-call observations of the representation (`<chunks_count>/<E|N>/<as_slice>`): chunking only
    pub answer_repr: String,
    /// first violation of the property found by the byte-deque oracle: (what, expected, got)
    pub failure: Option<(String, String, String)>,
    pub max_chunks: usize,
    pub dropped: usize,
}

/// run one operation sequence on a fresh real `IOQueue`
pub fn run_seq(ops: &[Op]) -> SeqResult {
    let mut obs: Vec<String> = Vec::new();
    let mut obs_repr: Vec<String> = Vec::new();
    let mut failure: Option<(String, String, String)> = None;
    let mut max_chunks = 0;
    let mut dropped = 0;
    let fail = |failure: &mut Option<(String, String, String)>, i: usize, what: &str, exp: String, got: String| {
        if failure.is_none() {
            *failure = Some((format!("call #{i}: {what}"), exp, got));
        }
    };
    // every entry point of the type is driven: `new` / `Default`, the inherent methods and the `Write`, `Read`,
    // `BufRead` impls (trait-object calls included), `write` / `write_all` / `write!`; which one is a function of
    // the position in the sequence, so that a sequence always replays the same way
    let mut q = if ops.len() % 2 == 0 { IOQueue::new() } else { IOQueue::default() };
    let mut fifo = Fifo { buf: VecDeque::new(), marks: Vec::new() };
    let mut panicked = false;
    for (i, op) in ops.iter().enumerate() {
        let slice_before: Vec<u8> = match guarded(|| q.as_slice().to_vec()) {
            Ok(s) => s,
            Err(()) => {
                panicked = true;
                break;
            }
        };
        let len_before = q.len();
        let chunks_before = q.chunks_count();
        let mut read_out: Option<Vec<u8>> = None;
        let way = (i + ops.len()) % 3;
        let mut seen_by_consumer: Option<Vec<u8>> = None;
        let mut fill_buf_view: Option<Vec<u8>> = None;
        let r = guarded(|| match op {
            Op::Write(b) => match (way, b.is_empty()) {
                (0, _) | (_, true) => {
                    let n = q.write(b).unwrap();
                    assert_eq!(n, b.len());
                }
                (1, _) => q.write_all(b).unwrap(),
                _ => {
                    // through `dyn Write`, in two pieces (the same frame: no flush in between)
                    let w: &mut dyn Write = &mut q;
                    let (x, y) = b.split_at(b.len() / 2);
                    if !x.is_empty() {
                        w.write_all(x).unwrap();
                    }
                    w.write_all(y).unwrap();
                }
            },
            Op::Flush => {
                if way == 2 {
                    let w: &mut dyn Write = &mut q;
                    w.flush().unwrap()
                } else {
                    q.flush().unwrap()
                }
            }
            Op::Read(n) => {
                let mut buf = vec![0u8; *n];
                let k = if way == 2 {
                    let r: &mut dyn Read = &mut q;
                    r.read(&mut buf).unwrap()
                } else {
                    q.read(&mut buf).unwrap()
                };
                buf.truncate(k);
                read_out = Some(buf);
            }
            Op::Consume(n) => {
                if way == 0 {
                    q.consume(*n)
                } else {
                    // the `BufRead` way: look at the buffer, then consume
                    let b: &mut dyn std::io::BufRead = &mut q;
                    fill_buf_view = Some(b.fill_buf().unwrap().to_vec());
                    b.consume(*n)
                }
            }
            Op::ConsumeWith(k) => {
                let r: Result<usize, ()> = q.consume_with(|slice| {
                    seen_by_consumer = Some(slice.to_vec());
                    Ok(*k)
                });
                assert_eq!(r, Ok(*k));
            }
            Op::ConsumeWithErr => {
                let r: Result<usize, ()> = q.consume_with(|_| Err(()));
                assert_eq!(r, Err(()));
            }
            Op::Clear => q.clear_but_last(),
        });
        if r.is_err() {
            panicked = true;
            fail(&mut failure, i, "public IOQueue call panicked", "no panic".into(), format!("panic in {}", op.token()));
            break;
        }
        // what a consumer / a `BufRead` user is shown must be unread bytes, in order (prefix of the FIFO)
        for (what, view) in [("consume_with showed its consumer", &seen_by_consumer), ("fill_buf returned", &fill_buf_view)] {
            if let Some(v) = view {
                if !(v.len() <= fifo.buf.len() && v.iter().zip(fifo.buf.iter()).all(|(a, b)| a == b)) {
                    fail(&mut failure, i, &format!("{what} bytes that are not the next unread bytes"), "prefix of the unread bytes".into(), hex(v));
                }
            }
        }
        // ---- oracle: the byte FIFO ----
        match op {
            Op::Write(b) => fifo.buf.extend(b.iter()),
            Op::Flush => {
                let p = fifo.buf.len();
                if !fifo.marks.contains(&p) {
                    fifo.marks.push(p)
                }
            }
            Op::Read(n) => {
                let out = read_out.as_ref().unwrap();
                if out.len() > *n || !fifo.starts_with(out) {
                    let exp: Vec<u8> = fifo.buf.iter().take(*n).cloned().collect();
                    fail(&mut failure, i, "read did not return a prefix of the unread bytes", format!("prefix of {}", hex(&exp)), hex(out));
                } else {
                    fifo.take(out.len());
                }
            }
            Op::Consume(n) | Op::ConsumeWith(n) => {
                // documented use: n <= |front slice|; beyond it the call may stop at the slice end
                let lo = (*n).min(slice_before.len());
                let hi = (*n).min(fifo.buf.len());
                let k = len_before.wrapping_sub(q.len());
                if k < lo || k > hi {
                    fail(&mut failure, i, "consume removed a wrong number of bytes (by len())", format!("{lo}..={hi}"), format!("{k}"));
                } else {
                    fifo.take(k);
                }
            }
            Op::ConsumeWithErr => {}
            Op::Clear => {
                let kept = q.len();
                if kept <= fifo.buf.len() && (kept == fifo.buf.len() || fifo.marks.contains(&kept)) {
                    if kept < slice_before.len() {
                        fail(&mut failure, i, "drop cut into the front chunk", format!(">= {}", slice_before.len()), format!("{kept}"));
                    }
                    dropped += fifo.buf.len() - kept;
                    fifo.buf.truncate(kept);
                    fifo.marks.retain(|m| *m <= kept);
                } else {
                    let mut m = fifo.marks.clone();
                    m.sort();
                    fail(&mut failure, i, "after clear_but_last len() is not a flush position of the pending bytes", format!("one of {m:?} or {}", fifo.buf.len()), format!("{kept}"));
                }
            }
        }
        let slice_after = match guarded(|| q.as_slice().to_vec()) {
            Ok(s) => s,
            Err(()) => {
                panicked = true;
                fail(&mut failure, i, "as_slice panicked", "no panic".into(), "panic".into());
                break;
            }
        };
        // chunks are delimited by flush only: a write may start the first chunk, nothing else adds one
        let allowed_chunks = match op {
            Op::Write(_) => chunks_before.max(1),
            Op::Flush => chunks_before + 1,
            _ => chunks_before,
        };
        if failure.is_none() && q.chunks_count() > allowed_chunks {
            fail(&mut failure, i, "the call added a chunk boundary that no flush asked for (a frame is split, clear_but_last can tear it)",
                format!("chunks_count <= {allowed_chunks}"), format!("{}", q.chunks_count()));
        }
        if failure.is_none() {
            if q.len() != fifo.buf.len() {
                fail(&mut failure, i, "len() differs from the number of unread bytes", format!("{}", fifo.buf.len()), format!("{}", q.len()));
            } else if !fifo.starts_with(&slice_after) {
                fail(&mut failure, i, "as_slice() is not a prefix of the unread bytes", "prefix".into(), hex(&slice_after));
            } else if q.chunks_count() <= 1 && q.len() != slice_after.len() {
                fail(&mut failure, i, "len() differs from the bytes that can still be read (single chunk: as_slice() is everything)", format!("{}", slice_after.len()), format!("{}", q.len()));
            } else if q.is_empty() && !fifo.buf.is_empty() {
                fail(&mut failure, i, "is_empty() with unread bytes", "false".into(), "true".into());
            }
        }
        max_chunks = max_chunks.max(q.chunks_count());
        obs.push(format!("{}/{}", read_out.as_ref().map(|o| hex(o)).unwrap_or_else(|| "-".into()), q.len()));
        obs_repr.push(format!("{}/{}/{}", q.chunks_count(), if q.is_empty() { "E" } else { "N" }, hex(&slice_after)));
    }
    if panicked {
        obs.push("panic".into());
        obs_repr.push("panic".into());
    } else if failure.is_none() {
        // final drain: exactly the unread bytes must come out, and len() must follow
        let mut got: Vec<u8> = Vec::new();
        let mut zeros = 0usize;
        let budget = q.chunks_count() + 3;
        let via_bufread = ops.len() % 3 == 1;
        let expected_len = fifo.buf.len();
        let r = guarded(|| {
            let mut buf = vec![0u8; 1 << 16];
            // (more bytes than were unread: duplicates — stop, the comparison below reports it)
            while zeros < budget && got.len() <= expected_len {
                let k = if via_bufread {
                    use std::io::BufRead;
                    let chunk = q.fill_buf().unwrap().to_vec();
                    got.extend_from_slice(&chunk);
                    BufRead::consume(&mut q, chunk.len());
                    chunk.len()
                } else {
                    let k = q.read(&mut buf).unwrap();
                    got.extend_from_slice(&buf[..k]);
                    k
                };
                if k == 0 {
                    zeros += 1;
                } else {
                    zeros = 0;
                }
            }
        });
        let exp: Vec<u8> = fifo.buf.iter().cloned().collect();
        if r.is_err() {
            fail(&mut failure, ops.len(), "read panicked while draining", "no panic".into(), "panic".into());
        } else if got != exp {
            fail(&mut failure, ops.len(), "draining the queue by read() does not give the unread bytes (len() promised them)", hex(&exp), hex(&got));
        } else if q.len() != 0 {
            fail(&mut failure, ops.len(), "len() after draining", "0".into(), format!("{}", q.len()));
        }
    }
    SeqResult { answer: obs.join(" "), answer_repr: obs_repr.join(" "), failure, max_chunks, dropped }
}

/// `kind`: `qa` = behaviour on the byte level (read results, len), `qr` = representation only (chunking:
/// chunks_count, is_empty, as_slice). A replay whose mismatching requests are all `c16 qr …` shows a
/// difference in chunking only — same bytes, same len, same read results.
fn request(kind: &str, ops: &[Op]) -> String {
    let mut s = format!("c16 {kind}");
    for op in ops {
        s.push(' ');
        s.push_str(&op.token());
    }
    s
}

/// greedy shrink: drop calls / shorten payloads while the oracle still fails
fn shrink(ops: &[Op]) -> Vec<Op> {
    let mut cur = ops.to_vec();
    let mut progress = true;
    while progress {
        progress = false;
        let mut i = 0;
        while i < cur.len() {
            let mut cand = cur.clone();
            cand.remove(i);
            if run_seq(&cand).failure.is_some() {
                cur = cand;
                progress = true;
            } else {
                i += 1;
            }
        }
        for i in 0..cur.len() {
            if let Op::Write(b) = &cur[i] {
                if b.len() > 1 {
                    let mut cand = cur.clone();
                    cand[i] = Op::Write(b[..b.len() / 2].to_vec());
                    if run_seq(&cand).failure.is_some() {
                        cur = cand;
                        progress = true;
                    }
                }
            }
        }
    }
    cur
}

fn check_seq(out: &mut Out, ops: &[Op], label: &str) {
    let res = run_seq(ops);
    let req = request("qa", ops);
    out.corr(&req, &res.answer);
    out.corr(&request("qr", ops), &res.answer_repr);
    let nontrivial = res.max_chunks >= 2 || res.dropped > 0;
    out.case(&req, nontrivial);
    out.hist(&format!("queue:{label}"));
    out.hist(&format!("queue:max_chunks={}", res.max_chunks.min(6)));
    if res.dropped > 0 {
        out.hist("queue:dropped_bytes>0");
    }
    if out.evaluations % 5273 == 1 {
        out.sample(json!({"request": req, "impl": res.answer, "impl_representation": res.answer_repr}));
    }
    if res.failure.is_some() {
        let small = shrink(ops);
        let r2 = run_seq(&small);
        let (what, exp, got) = r2.failure.unwrap_or_else(|| res.failure.clone().unwrap());
        out.fail(
            &format!("IOQueue: {what}"),
            json!({"stage": "queue", "ops": small.iter().map(|o| o.token()).collect::<Vec<_>>(), "request": request("qa", &small)}),
            json!(exp),
            json!(got),
        );
    }
}

fn payload(rng: &mut Rng, max: u64) -> Vec<u8> {
    let n = match rng.below(10) {
        0 => 0,
        1..=6 => rng.below(6) + 1,
        7 | 8 => rng.below(max.min(24)) + 1,
        _ => rng.below(max) + 1,
    };
    (0..n).map(|_| rng.next() as u8).collect()
}

fn random_seq(rng: &mut Rng, thorough: bool) -> Vec<Op> {
    let n = 1 + rng.below(if thorough { 60 } else { 36 }) as usize;
    // profile: producer heavy, consumer heavy, flush heavy
    let profile = rng.below(4);
    let max_payload = if rng.chance(1, 20) { 200 } else { 40 };
    let mut ops = Vec::with_capacity(n);
    // shadow of the number of pending bytes, to keep most consume arguments in range
    let mut pending: usize = 0;
    for _ in 0..n {
        let r = rng.below(100);
        let (w, f, rd, c, k, ke) = match profile {
            0 => (40, 60, 72, 82, 92, 94),
            1 => (22, 36, 58, 76, 92, 95),
            2 => (30, 62, 74, 84, 92, 94),
            _ => (34, 52, 68, 80, 90, 93),
        };
        let small = |rng: &mut Rng, pending: usize| -> usize {
            match rng.below(8) {
                0 => 0,
                1 => pending,
                2 => pending + 1 + rng.below(4) as usize,
                3 => *rng.pick(&[1usize << 20, usize::MAX, usize::MAX - 1, usize::MAX - pending, (usize::MAX >> 1) + 1]),
                _ => rng.below(pending as u64 + 2) as usize,
            }
        };
        let op = if r < w {
            let b = payload(rng, max_payload);
            pending += b.len();
            Op::Write(b)
        } else if r < f {
            Op::Flush
        } else if r < rd {
            Op::Read(small(rng, pending.min(12)).min(1 << 20)) // the harness allocates the read buffer
        } else if r < c {
            Op::Consume(small(rng, pending.min(12)))
        } else if r < k {
            Op::ConsumeWith(small(rng, pending.min(12)))
        } else if r < ke {
            Op::ConsumeWithErr
        } else {
            Op::Clear
        };
        ops.push(op);
    }
    ops
}

fn corner_cases() -> Vec<Vec<Op>> {
    use Op::*;
    let w = |s: &[u8]| Write(s.to_vec());
    vec![
        vec![],
        // the pinned tree's witness: len() must be 3 after the drop
        vec![w(&[1, 2, 3]), Flush, w(&[4, 5, 6]), Flush, w(&[7, 8]), Clear, Read(10), Read(10)],
        // double flush, empty chunk in the middle, flush that is a no-op on an empty front chunk
        vec![w(&[1, 2]), Flush, Flush, w(&[3]), Consume(2), Flush, w(&[4]), Clear, Read(8), Read(8), Read(8)],
        vec![w(&[1, 2]), Flush, Flush, w(&[3]), Read(9), Flush, w(&[4]), Read(0), Flush, w(&[5]), Clear, Read(9), Read(9)],
        // consume(0) on empty, on an empty chunk, inside a chunk
        vec![Consume(0), w(&[]), Consume(0), w(&[9, 8, 7]), Consume(0), Consume(1), Consume(0), Read(5)],
        // drop with one chunk and with three chunks, front chunk partly read
        vec![w(&[1, 2, 3, 4]), Read(2), Clear, Read(9)],
        vec![w(&[1, 2, 3, 4]), Flush, w(&[5, 6]), Flush, w(&[7]), Read(1), Clear, w(&[8]), Flush, w(&[9]), Clear, Read(9), Read(9)],
        // drop on empty queue and after flush only
        vec![Clear, Flush, Clear, w(&[1]), Flush, Clear, Read(1), Clear, Read(1)],
        // consume across / beyond the chunk end
        vec![w(&[1, 2, 3]), Flush, w(&[4, 5]), Consume(2), Consume(1), Consume(5), Read(3)],
        vec![w(&[1, 2, 3]), Flush, w(&[4, 5]), ConsumeWith(7), ConsumeWith(1), ConsumeWithErr, ConsumeWith(1), ConsumeWith(0)],
        // amounts near usize::MAX after a partial read (`offset + amt` used to overflow)
        vec![w(&[1, 2, 3]), Read(1), Consume(usize::MAX), w(&[4]), Read(9)],
        vec![w(&[1, 2, 3]), Consume(1), ConsumeWith(usize::MAX), w(&[4]), Flush, w(&[5]), Read(9), Read(9)],
        vec![w(&[1, 2, 3]), Flush, w(&[4, 5]), Read(2), Consume(usize::MAX - 1), Consume(usize::MAX - 2), Read(usize::MAX.min(16))],
        vec![w(&[1, 2, 3]), ConsumeWith(2), Consume(usize::MAX - 2), Consume(usize::MAX)],
        // write after flush must start a new chunk, not extend the front one
        vec![w(&[1]), Flush, w(&[2]), Flush, w(&[3]), Read(1), Read(1), Read(1), Read(1)],
        // consume exactly to the chunk end then write (no flush in between)
        vec![w(&[1, 2]), Consume(2), w(&[3]), Read(4), w(&[4]), Flush, Clear, Read(4)],
        // empty writes
        vec![w(&[]), Flush, w(&[]), Clear, Read(1), w(&[5]), Read(1)],
        // long run of flushes with reads
        vec![w(&[1]), Flush, w(&[2]), Flush, w(&[3]), Flush, w(&[4]), Flush, Read(1), Clear, Read(1), Read(1), Read(1)],
    ]
}

fn queue_stage(cfg: &Cfg, out: &mut Out, rng: &mut Rng) {
    for ops in corner_cases() {
        check_seq(out, &ops, "corner");
    }
    // small-scope exhaustive: all sequences of length <= L over a 7-letter alphabet
    let alphabet = [
        Op::Write(vec![0xa1]),
        Op::Write(vec![0xb1, 0xb2]),
        Op::Flush,
        Op::Read(1),
        Op::Consume(1),
        Op::ConsumeWith(2),
        Op::Clear,
    ];
    let depth = if cfg.thorough { 6 } else { 5 };
    let mut idx = vec![0usize; 0];
    loop {
        let ops: Vec<Op> = idx.iter().map(|i| alphabet[*i].clone()).collect();
        if !ops.is_empty() {
            check_seq(out, &ops, "exhaustive");
        }
        // next word in length-lexicographic order
        let mut p = idx.len();
        loop {
            if p == 0 {
                idx = vec![0; idx.len() + 1];
                break;
            }
            p -= 1;
            if idx[p] + 1 < alphabet.len() {
                idx[p] += 1;
                for x in idx[p + 1..].iter_mut() {
                    *x = 0;
                }
                break;
            }
        }
        if idx.len() > depth {
            break;
        }
    }
    let n = if cfg.thorough { 150_000 } else { 12_000 };
    for _ in 0..n {
        let ops = random_seq(rng, cfg.thorough);
        check_seq(out, &ops, "random");
    }
    out.extra("queue_exhaustive_depth", json!(depth));
}

fn replay(cfg: &Cfg, out: &mut Out, v: &Value) {
    let input = &v["failure"]["input"];
    match input["stage"].as_str() {
        Some("queue") => {
            let ops: Vec<Op> = input["ops"]
                .as_array()
                .map(|a| a.iter().filter_map(|t| t.as_str().and_then(Op::parse)).collect())
                .unwrap_or_default();
            check_seq(out, &ops, "replay");
        }
        Some("pty") | Some("render") => pty::replay(cfg, out, input),
        _ => {}
    }
}

fn main() {
    let cfg = Cfg::from_env();
    let mut out = cfg.out();
    verif_harness::silence_panics();
    let mut rng = Rng::new(cfg.seed);
    if let Some(v) = cfg.replay.clone() {
        replay(&cfg, &mut out, &v);
        out.finish("replay of one recorded failing input");
        return;
    }
    queue_stage(&cfg, &mut out, &mut rng);
    if out.failure_count == 0 {
        pty::pty_stage(&cfg, &mut out, &mut rng);
    } else {
        out.extra("pty", json!({"skipped": "the queue stage already found a failing input"}));
    }
    out.finish(
        "queue stage: hand-picked corner sequences + every sequence up to the exhaustive depth over a 7-call alphabet + random \
         sequences (1..36 calls quick / 1..60 thorough, payloads 0..200 bytes, consume arguments around and beyond the slice end); \
         non-trivial = at least two chunks existed at some point or bytes were dropped; distinct by request. \
         pty stage: sessions on a real pseudo-terminal in both size modes (extra.pty) and run_render sessions against a stalled \
         peer (extra.render_session_*); non-trivial = short writes / EAGAIN occurred or frames were dropped",
    );
}
