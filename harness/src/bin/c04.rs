//! C04: every well-formed terminal report or key sequence decodes to what it encodes.
//!
//! Ties (every run):
//!  * grammar: `NFA::verif_dump()` of every production matcher (hook `verif_c04::matcher_nfas`, before
//!    merging) must EQUAL the dump of `toNFA` of the Lean transcription (`gram nfa k`), numbering included;
//!    the compiled production automata must be bisimilar to `compile` of the model's combined automaton
//!    (`gram bisim`, exhaustive over all reachable state pairs and all 256 bytes);
//!  * key table: regenerated into `SurfModel/Generated/KeyTable.lean` (`tables`), and all literal-key
//!    accepting paths of the dumped DFA are enumerated and compared with it in both directions;
//!  * payload: the Lean models of the `Matcher::decode` bodies on the token bytes (`pay decode k <hex>`);
//!  * `SelfDelimiting` evaluated by the verified Lean checker on the dumped DFA (oracle line).
//! Oracle (Rust, independent): streams printed by a protocol printer written from the protocol documents,
//! decoded by the real `TTYEventDecoder` under three partitions, must give back the events.
#[path = "c04/dumps.rs"]
mod dumps;
#[path = "c04/events.rs"]
mod events;
#[path = "c04/proto.rs"]
mod proto;

use dumps::{dump_nfa, event_item_tag, show_table};
use events::*;
use serde_json::json;
use surf_n_term::{
    decoder::{verif_c03, verif_c04},
    terminal::{TerminalCommand, TerminalEvent},
};
use verif_harness::{Cfg, r#gen::Rng, out::Out};

/* ---------- generated table ---------- */

/// `(bytes, variant, payload, mode)` rows of the literal key table
fn key_rows() -> Vec<(Vec<u8>, u64, u64, u64)> {
    verif_c04::key_table()
        .into_iter()
        .map(|(bytes, event)| match event {
            TerminalEvent::Key(k) => {
                let (v, p) = key_name_variant(k.name);
                (bytes, v, p, mod_bits(k.mode))
            }
            // anything but a key in the literal table has no counterpart in the model: variant 99
            _ => (bytes, 99, 0, 0),
        })
        .collect()
}

fn key_table_lean() -> String {
    let rows = key_rows();
    let mut s = String::new();
    s.push_str("/-! Literal key table of `basic_events_nfa()` (src/decoder.rs), rewritten from the implementation on every\nrun (`c04 tables`, hook `verif_c04::key_table`): bytes, `KeyName` variant, its payload, modifier bits,\nin registration order. -/\n");
    s.push_str("namespace SurfModel.Generated\n\n");
    s.push_str("def keyTable : List (List Nat × Nat × Nat × Nat) := [\n");
    for (i, (bytes, v, p, m)) in rows.iter().enumerate() {
        let bs: Vec<String> = bytes.iter().map(|b| b.to_string()).collect();
        s.push_str(&format!("  ([{}], {v}, {p}, {m}){}\n", bs.join(", "), if i + 1 == rows.len() { "" } else { "," }));
    }
    s.push_str("]\n\nend SurfModel.Generated\n");
    s
}

fn tables(cfg: &Cfg) {
    for name in cfg.tables.as_ref().unwrap() {
        match name.as_str() {
            "KeyTable" => std::fs::write(cfg.outdir.join("KeyTable.lean"), key_table_lean()).unwrap(),
            other => {
                eprintln!("c04: unknown table {other}");
                std::process::exit(2);
            }
        }
    }
}

/* ---------- grammar tie ---------- */

const FAMILIES: [&str; 14] = [
    "keys", "cursorPosition", "decMode", "deviceAttrs", "sgr", "kittyImage", "kittyKeyboard", "mouse", "osc",
    "reportSetting", "termcap", "termSize", "utf8", "paste",
];

fn grammar_tie(out: &mut Out) {
    let ms = verif_c04::matcher_nfas();
    out.extra("event_matchers", json!(ms.iter().map(|m| m.name.clone()).collect::<Vec<_>>()));
    if ms.len() != FAMILIES.len() {
        out.corr("gram nfa 99", &format!("the event automaton has {} matchers, the model {}", ms.len(), FAMILIES.len()));
    }
    for (i, m) in ms.iter().enumerate() {
        out.corr(&format!("gram nfa {i}"), &dump_nfa(&m.nfa, event_item_tag));
        out.case(&format!("nfa{i}"), true);
        out.hist("tie:matcher-nfa");
    }
    let cs = verif_c04::command_matcher_nfas();
    for (i, m) in cs.iter().enumerate() {
        out.corr(&format!("gram cnfa {i}"), &dump_nfa(&m.nfa, |c: &TerminalCommand| format!("item:{c:?}").replace(' ', "_")));
        out.case(&format!("cnfa{i}"), true);
        out.hist("tie:matcher-nfa");
    }
    let ev = verif_c04::event_dfa();
    out.corr(&format!("gram bisim event | {}", show_table(&ev, event_item_tag)), &format!("ok {}", ev.len()));
    let cd = verif_c04::command_dfa();
    out.corr(
        &format!("gram bisim command | {}", show_table(&cd, |c: &TerminalCommand| format!("item:{c:?}").replace(' ', "_"))),
        &format!("ok {}", cd.len()),
    );
    out.hist("tie:dfa-bisim");
    out.hist("tie:dfa-bisim");
    out.extra("event_dfa", json!({"states": ev.len(), "edges": ev.iter().map(|s| s.edges.len()).sum::<usize>(),
        "accepting": ev.iter().filter(|s| s.accepting).count(),
        "accepting_terminal": ev.iter().filter(|s| s.accepting && s.terminal).count()}));
    // the structured dump must be the dump C03 uses (same BFS through the same accessors)
    let c3 = verif_c03::event_dfa();
    let same = c3.len() == ev.len()
        && c3.iter().zip(ev.iter()).all(|(a, b)| a.accepting == b.accepting && a.terminal == b.terminal && a.edges == b.edges && a.tags.len() == b.tags.len());
    if !same {
        out.corr("gram nfa 98", "verif_c04::event_dfa differs from verif_c03::event_dfa");
    }
}

fn main() {
    let cfg = Cfg::from_env();
    if cfg.tables.is_some() {
        return tables(&cfg);
    }
    let mut out = cfg.out();
    verif_harness::silence_panics();
    let mut rng = Rng::new(cfg.seed);
    grammar_tie(&mut out);
    proto::run(&cfg, &mut out, &mut rng);
    out.extra(
        "exhaustive_parts",
        json!([
            "dump equality of all 14 + 2 production matcher NFAs with the model's automata",
            "bisimulation of both compiled production DFAs with the model DFA: all reachable state pairs x 256 bytes",
            "self-delimiting condition and terminal-state condition on every row of the dumped event DFA (verified checker)",
            "all literal-key accepting paths of the dumped event DFA against the regenerated key table and the naming table, both directions",
            "DecMode::from_usize on 0..=2100, DecModeStatus::from_usize on 0..=12"
        ]),
    );
    out.finish("printed streams of 1-12 events uniform over the 14 families with boundary parameters over-weighted, 3 partitions each; non-trivial = stream with at least one parsed (non literal, non text) event; distinct by stream bytes");
}
