//! C02: input decoding is total — no byte stream crashes `TTYEventDecoder`, `TTYCommandDecoder` or
//! `Utf8Decoder`, and every event is well formed.
//!
//! Parent process: generates the inputs (one `Rng`), cuts them into batches and runs every batch in a
//! child process (`c02 child <batch> <results>`, the same binary) under a watchdog, because a failed debug
//! assertion inside `char::from_u32_unchecked` aborts instead of unwinding. The child writes one result
//! line per input as soon as it is done; when a child dies or hangs the culprit is the first input without
//! a result line — it is confirmed by running it alone in a fresh child, reported through `out.fail` with
//! its bytes, and the rest of the batch goes on in a new child.
//!
//! Correspondence (C lines): the three `utf8_nfa` dumps against `Re.toNFA` of the Lean grammar, bisimulation
//! of the compiled `UTF8DFA` with the model automaton, `utf8_decode` on accepted strings (exhaustive for one
//! and two bytes, boundaries + samples for three and four), acceptance of all strings up to two bytes and
//! sampled longer ones, `Utf8Decoder` on streams under every partition.
//! Oracle: `c02/oracle.rs` (independent re-parse of the parameters with exact arithmetic, std's UTF-8
//! decoder, reference reading of SGR colours) and O lines (`SurfModel.Vt.utf8` of every character produced
//! must be the bytes it was decoded from).
#[path = "c04/dumps.rs"]
mod dumps;
#[path = "c04/events.rs"]
mod events;
#[path = "c02/geninp.rs"]
mod geninp;
#[path = "c02/oracle.rs"]
mod oracle;
#[path = "c02/run.rs"]
mod run;

use geninp::{Input, Kind};
use serde_json::{Value, json};
use std::io::Write;
use std::path::{Path, PathBuf};
use std::sync::Mutex;
use std::time::{Duration, Instant};
use surf_n_term::decoder::{verif_c02, verif_c03, verif_c04};
use surf_n_term::terminal::{TerminalCommand, TerminalEvent};
use verif_harness::{Cfg, r#gen::Rng, out::Out, out::hex};

// ---------------------------------------------------------------- batch files

fn unhex(s: &str) -> Vec<u8> {
    if s == "-" {
        return vec![];
    }
    (0..s.len() / 2).map(|i| u8::from_str_radix(&s[2 * i..2 * i + 2], 16).unwrap_or(0)).collect()
}

fn write_batch(path: &Path, inputs: &[Input]) {
    let mut f = std::io::BufWriter::new(std::fs::File::create(path).unwrap());
    for i in inputs {
        let parts: Vec<String> = i
            .parts
            .iter()
            .map(|p| if p.is_empty() { "-".to_string() } else { p.iter().map(|n| n.to_string()).collect::<Vec<_>>().join(",") })
            .collect();
        writeln!(f, "{} {} {} {} {}", i.id, i.kind.name(), i.class, hex(&i.stream), parts.join("|")).unwrap();
    }
}

fn read_batch(path: &Path) -> Vec<Input> {
    let text = std::fs::read_to_string(path).unwrap();
    text.lines()
        .filter_map(|l| {
            let t: Vec<&str> = l.split(' ').collect();
            if t.len() != 5 {
                return None;
            }
            Some(Input {
                id: t[0].parse().ok()?,
                kind: Kind::parse(t[1])?,
                class: t[2].to_string(),
                stream: unhex(t[3]),
                parts: t[4]
                    .split('|')
                    .map(|p| if p == "-" { vec![] } else { p.split(',').filter_map(|n| n.parse().ok()).collect() })
                    .collect(),
            })
        })
        .collect()
}

// ---------------------------------------------------------------- child

fn child_main(batch: &str, results: &str) {
    verif_harness::silence_panics();
    let inputs = read_batch(Path::new(batch));
    let mut f = std::fs::File::create(results).unwrap();
    for inp in &inputs {
        let o = run::run_input(inp);
        let line = json!({
            "id": inp.id, "obs": o.obs, "fails": o.fails, "corr": o.corr, "oracle": o.oracle, "hist": o.hist,
            "events": o.events, "nontrivial": o.nontrivial, "sample": o.sample,
        });
        // unbuffered: the line is on disk before the next input starts
        writeln!(f, "{}", line).unwrap();
    }
}

// ---------------------------------------------------------------- parent: running batches

enum Exit {
    Done,
    Died(String),
    Timeout,
}

fn run_child(exe: &Path, batch: &Path, results: &Path, timeout: Duration) -> Exit {
    let _ = std::fs::remove_file(results);
    let mut child = match std::process::Command::new(exe)
        .arg("child")
        .arg(batch)
        .arg(results)
        .stdout(std::process::Stdio::null())
        .stderr(std::process::Stdio::null())
        .spawn()
    {
        Ok(c) => c,
        Err(e) => return Exit::Died(format!("spawn failed: {e}")),
    };
    let t0 = Instant::now();
    loop {
        match child.try_wait() {
            Ok(Some(st)) => return if st.success() { Exit::Done } else { Exit::Died(format!("{st}")) },
            Ok(None) => {
                if t0.elapsed() > timeout {
                    let _ = child.kill();
                    let _ = child.wait();
                    return Exit::Timeout;
                }
                std::thread::sleep(Duration::from_millis(3));
            }
            Err(e) => return Exit::Died(format!("wait failed: {e}")),
        }
    }
}

fn read_results(path: &Path) -> Vec<Value> {
    match std::fs::read_to_string(path) {
        Ok(t) => t.lines().filter_map(|l| serde_json::from_str(l).ok()).collect(),
        Err(_) => vec![],
    }
}

fn input_value(inp: &Input) -> Value {
    json!({"decoder": inp.kind.name(), "class": inp.class, "stream": hex(&inp.stream),
        "reads": inp.parts.iter().map(|p| run::chunks_str(&inp.stream, p)).collect::<Vec<_>>()})
}

/// results of one batch in input order; abnormal ends are turned into failure records
fn run_batch(exe: &Path, dir: &Path, tag: &str, inputs: &[Input], timeout: Duration) -> Vec<Value> {
    let mut done: Vec<Value> = Vec::new();
    let mut rest: Vec<Input> = inputs.to_vec();
    let mut crashes = 0;
    let mut round = 0;
    while !rest.is_empty() {
        round += 1;
        let b = dir.join(format!("batch-{tag}-{round}.txt"));
        let r = dir.join(format!("result-{tag}-{round}.jsonl"));
        write_batch(&b, &rest);
        let exit = run_child(exe, &b, &r, timeout);
        let got = read_results(&r);
        let n = got.len().min(rest.len());
        done.extend(got.into_iter().take(n));
        let _ = std::fs::remove_file(&b);
        let _ = std::fs::remove_file(&r);
        match exit {
            Exit::Done if n == rest.len() => break,
            exit => {
                if n >= rest.len() {
                    break;
                }
                // the culprit is the first input without a result line; confirm it alone
                let culprit = rest[n].clone();
                let b1 = dir.join(format!("single-{tag}-{round}.txt"));
                let r1 = dir.join(format!("single-{tag}-{round}.jsonl"));
                write_batch(&b1, std::slice::from_ref(&culprit));
                let alone = run_child(exe, &b1, &r1, Duration::from_secs(10));
                let _ = std::fs::remove_file(&b1);
                let _ = std::fs::remove_file(&r1);
                // a batch that hit the watchdog is a non-termination only if the input alone hits it too;
                // otherwise the machine was slow: the input is not judged and the batch goes on
                if matches!(exit, Exit::Timeout) && matches!(alone, Exit::Done) {
                    done.push(json!({"id": culprit.id, "obs": ["batch exceeded the watchdog, input completes alone: not judged"], "fails": [],
                        "corr": [], "oracle": [], "hist": ["watchdog-not-reproduced"], "events": 0, "nontrivial": false, "sample": null}));
                    rest = rest[n + 1..].to_vec();
                    continue;
                }
                let (what, got) = match (&exit, &alone) {
                    (_, Exit::Timeout) => ("decoder does not terminate (watchdog, reproduced alone)", "killed after timeout".to_string()),
                    (Exit::Died(s), _) => ("decoder aborted the process (non-unwinding panic)", s.clone()),
                    (_, Exit::Died(s)) => ("decoder aborted the process (non-unwinding panic)", s.clone()),
                    (_, Exit::Done) => ("child process ended without a result for this input", "no result".to_string()),
                };
                done.push(json!({"id": culprit.id, "obs": [], "fails": [{"what": what, "input": input_value(&culprit),
                    "expected": "decoding completes", "got": format!("{got}; alone in a fresh process: {}", match alone {
                        Exit::Done => "completes".to_string(), Exit::Died(s) => format!("dies ({s})"), Exit::Timeout => "hangs".to_string() })}],
                    "corr": [], "oracle": [], "hist": ["abnormal-exit"], "events": 0, "nontrivial": true, "sample": null}));
                rest = rest[n + 1..].to_vec();
                crashes += 1;
                if crashes >= 12 {
                    // enough witnesses; the remaining inputs of this batch are not run
                    break;
                }
            }
        }
    }
    done
}

// ---------------------------------------------------------------- static correspondence: grammar, utf8_decode

fn runs(edges: &[(u8, usize)]) -> String {
    if edges.is_empty() {
        return "-".into();
    }
    let mut parts = vec![];
    let mut i = 0;
    while i < edges.len() {
        let (lo, t) = edges[i];
        let mut hi = lo;
        let mut j = i + 1;
        while j < edges.len() && edges[j].1 == t && edges[j].0 as usize == hi as usize + 1 {
            hi = edges[j].0;
            j += 1;
        }
        parts.push(format!("{lo:02x}-{hi:02x}>{t}"));
        i = j;
    }
    parts.join(",")
}

fn list(xs: impl Iterator<Item = String>) -> String {
    let v: Vec<String> = xs.collect();
    if v.is_empty() { "-".into() } else { v.join(",") }
}

fn dump_utf8_nfa(mode: u8) -> String {
    let d = verif_c02::utf8_nfa_dump(mode);
    let mut sts = vec![];
    for (i, st) in d.states.iter().enumerate() {
        let id = if st.id == i { String::new() } else { format!("id{}!", st.id) };
        sts.push(format!("{id}{}/{}/{}", runs(&st.edges), list(st.epsilons.iter().map(|e| e.to_string())), if st.tag.is_some() { "0" } else { "-" }));
    }
    format!("{} {} {} {}", d.start, d.stop, d.states.len(), sts.join(";"))
}

fn utf8_dfa_table(dfa: &[verif_c03::DfaStateDump]) -> String {
    let rows: Vec<String> = dfa
        .iter()
        .map(|s| {
            let mut f = String::new();
            if s.accepting {
                f.push('a');
            }
            if s.terminal {
                f.push('t');
            }
            if f.is_empty() {
                f.push('-');
            }
            format!("{f}/{}/{}", if s.tags.is_empty() { "-".to_string() } else { "0".to_string() }, runs(&s.edges))
        })
        .collect();
    format!("{} {}", dfa.len(), rows.join(";"))
}

/// walk the dumped `UTF8DFA`: is `w` accepted
fn dfa_accepts(dfa: &[verif_c03::DfaStateDump], w: &[u8]) -> bool {
    let mut s = 0usize;
    for b in w {
        match dfa[s].edges.iter().find(|(x, _)| x == b) {
            Some((_, t)) => s = *t,
            None => return false,
        }
    }
    dfa[s].accepting
}

fn static_correspondence(out: &mut Out, rng: &mut Rng, thorough: bool) {
    // grammar: dump equality for the three modes
    for mode in 0..3u8 {
        out.corr(&format!("c02 nfa {mode}"), &dump_utf8_nfa(mode));
        out.case(&format!("nfa{mode}"), true);
        out.hist("static:nfa-dump");
    }
    // compiled automaton of `Utf8Decoder` against the model automaton (all reachable pairs x 256 bytes)
    let dfa = verif_c03::utf8_dfa();
    out.corr(&format!("c15 bisim {} | {}", dump_utf8_nfa(0), utf8_dfa_table(&dfa)), &format!("ok {}", dfa.len()));
    out.case("bisim", true);
    out.hist("static:bisim");
    out.extra("utf8_dfa_states", json!(dfa.len()));

    // acceptance: every string of one and two bytes, and sampled longer ones
    let mut words: Vec<Vec<u8>> = Vec::new();
    for a in 0..=255u8 {
        words.push(vec![a]);
    }
    for a in 0..=255u8 {
        for b in 0..=255u8 {
            words.push(vec![a, b]);
        }
    }
    let leads3: &[u8] = &[0xdf, 0xe0, 0xe1, 0xec, 0xed, 0xee, 0xef, 0xf0];
    let seconds: &[u8] = &[0x7f, 0x80, 0x8f, 0x90, 0x9f, 0xa0, 0xbf, 0xc0];
    let tails: &[u8] = &[0x7f, 0x80, 0xbf, 0xc0];
    for a in leads3 {
        for b in seconds {
            for c in tails {
                words.push(vec![*a, *b, *c]);
            }
        }
    }
    for a in [0xefu8, 0xf0, 0xf1, 0xf3, 0xf4, 0xf5, 0xf7, 0xf8] {
        for b in seconds {
            for c in tails {
                for d in tails {
                    words.push(vec![a, *b, *c, *d]);
                }
            }
        }
    }
    let n_random = if thorough { 60_000 } else { 6_000 };
    for _ in 0..n_random {
        let n = 3 + rng.below(3) as usize;
        let mut w: Vec<u8> = vec![*rng.pick(&[0xe0u8, 0xe1, 0xe8, 0xec, 0xed, 0xee, 0xef, 0xf0, 0xf1, 0xf2, 0xf3, 0xf4, 0xf5, 0xc2])];
        for _ in 1..n {
            w.push(if rng.chance(5, 6) { rng.range(0x80, 0xbf) as u8 } else { rng.below(256) as u8 });
        }
        words.push(w);
    }
    let mut accepted: Vec<Vec<u8>> = Vec::new();
    for group in words.chunks(256) {
        let req = format!("c02 match 0 {}", group.iter().map(|w| hex(w)).collect::<Vec<_>>().join(" "));
        let ans: Vec<&str> = group.iter().map(|w| if dfa_accepts(&dfa, w) { "1" } else { "0" }).collect();
        out.corr(&req, &ans.join(" "));
        for w in group {
            let acc = dfa_accepts(&dfa, w);
            // independent oracle: std's validator (one character, the whole string)
            let std_ok = std::str::from_utf8(w).map(|s| s.chars().count() == 1).unwrap_or(false);
            if acc != std_ok {
                out.fail("UTF-8 automaton and the definition of well formed UTF-8 disagree", json!({"decoder": "utf8", "stream": hex(w)}),
                    json!(if std_ok { "accepted" } else { "rejected" }), json!(if acc { "accepted" } else { "rejected" }));
            }
            out.case(&format!("acc {}", hex(w)), acc);
            // `utf8_decode` is only ever handed well formed sequences here: on anything else the debug assertion
            // of `from_u32_unchecked` would abort this (parent) process; the disagreement is already reported
            if acc && std_ok {
                accepted.push(w.clone());
            }
        }
        out.hist("static:acceptance-line");
    }
    out.extra("exhaustive", json!(true));
    out.extra("exhaustive_what", json!("acceptance by UTF8DFA and utf8_decode: all byte strings of length 1 and 2"));
    // utf8_decode on accepted strings only (as the decoders use it); all one and two byte ones are in `accepted`
    let mut boundary: Vec<u32> = vec![0x800, 0xfff, 0x1000, 0xcfff, 0xd000, 0xd7ff, 0xe000, 0xffff, 0x10000, 0x3ffff, 0x40000, 0xfffff, 0x100000, 0x10ffff];
    for _ in 0..(if thorough { 40_000 } else { 4_000 }) {
        boundary.push(match rng.below(3) {
            0 => rng.range(0x800, 0xffff) as u32,
            1 => rng.range(0x10000, 0x10ffff) as u32,
            _ => ((1i64 << rng.range(11, 20)) + rng.range(-2, 2)) as u32,
        });
    }
    for c in boundary {
        if let Some(ch) = char::from_u32(c) {
            let mut b = [0u8; 4];
            accepted.push(ch.encode_utf8(&mut b).as_bytes().to_vec());
        }
    }
    for w in &accepted {
        if !dfa_accepts(&dfa, w) {
            // never hand `utf8_decode` something the automaton rejects; report instead
            out.fail("well formed UTF-8 sequence rejected by the automaton", json!({"decoder": "utf8", "stream": hex(w)}), json!("accepted"), json!("rejected"));
            continue;
        }
        let got = verif_c02::utf8_decode(w);
        out.corr(&format!("c02 dec {}", hex(w)), &format!("ok {got}"));
        out.oracle(&format!("c02 enc {got}"), &hex(w));
        let want = std::str::from_utf8(w).ok().and_then(|s| s.chars().next()).map(|c| c as u32);
        if Some(got) != want {
            out.fail("utf8_decode differs from the character encoded", json!({"decoder": "utf8", "stream": hex(w)}), json!(format!("{want:?}")), json!(got));
        }
        out.case(&format!("dec {}", hex(w)), true);
        out.hist(&format!("static:decode-{}-bytes", w.len()));
    }
}

// ---------------------------------------------------------------- generated table and grammar tie (as in c04.rs)

/// `SurfModel/Generated/KeyTable.lean`, byte for byte what `c04 tables` writes
fn key_table_lean() -> String {
    let rows: Vec<(Vec<u8>, u64, u64, u64)> = verif_c04::key_table()
        .into_iter()
        .map(|(bytes, event)| match event {
            TerminalEvent::Key(k) => {
                let (v, p) = events::key_name_variant(k.name);
                (bytes, v, p, events::mod_bits(k.mode))
            }
            _ => (bytes, 99, 0, 0),
        })
        .collect();
    let mut s = String::new();
    s.push_str("/-! Literal key table of `basic_events_nfa()` (src/decoder.rs), rewritten from the implementation on every\nrun (`c04 tables`, hook `verif_c04::key_table`): bytes, `KeyName` variant, its payload, modifier bits,\nin registration order. -/\n");
    s.push_str("namespace SurfModel.Generated\n\n");
    s.push_str("def keyTable : List (List Nat × Nat × Nat × Nat) := [\n");
    for (i, (bytes, v, p, m)) in rows.iter().enumerate() {
        let bs: Vec<String> = bytes.iter().map(|b| b.to_string()).collect();
        s.push_str(&format!("  ([{}], {v}, {p}, {m}){}\n", bs.join(", "), if i + 1 == rows.len() { "" } else { "," }));
    }
    s.push_str("]\n\nend SurfModel.Generated\n");
    s
}

/// `SurfModel/Generated/SgrTables.lean`, byte for byte what `c06 tables` writes
fn sgr_tables_lean() -> String {
    use surf_n_term::Color as _;
    let (colors, cube, greys) = surf_n_term::decoder::verif_c06::palette_tables();
    let mut s = String::from(
        "/-! GENERATED by `harness c06 tables` from the current build of /repo (decoder COLORS, CUBE, GREYS). -/\nnamespace SurfModel.Generated\n",
    );
    let cs: Vec<String> = colors
        .iter()
        .map(|c| {
            let [r, g, b, a] = c.to_rgba();
            format!("({r},{g},{b},{a})")
        })
        .collect();
    s.push_str(&format!("def colors16 : List (Nat × Nat × Nat × Nat) := [{}]\n", cs.join(",")));
    s.push_str(&format!("def cube6 : List Nat := [{}]\n", cube.iter().map(|v| v.to_string()).collect::<Vec<_>>().join(",")));
    s.push_str(&format!("def greys24 : List Nat := [{}]\n", greys.iter().map(|v| v.to_string()).collect::<Vec<_>>().join(",")));
    s.push_str("end SurfModel.Generated\n");
    s
}

/// the grammars of `SurfModel.Grammar` are the implementation's: dump equality of all matcher automata,
/// bisimulation of the two compiled production automata with the model's; then the dumped tables are installed
/// in the driver for the whole-decoder correspondence
fn grammar_tie(out: &mut Out) {
    let cmd_tag = |c: &TerminalCommand| format!("item:{c:?}").replace(' ', "_");
    let ms = verif_c04::matcher_nfas();
    if ms.len() != 14 {
        out.corr("gram nfa 99", &format!("the event automaton has {} matchers, the model 14", ms.len()));
    }
    for (i, m) in ms.iter().enumerate() {
        out.corr(&format!("gram nfa {i}"), &dumps::dump_nfa(&m.nfa, dumps::event_item_tag));
        out.case(&format!("gram-nfa{i}"), true);
        out.hist("static:matcher-nfa");
    }
    for (i, m) in verif_c04::command_matcher_nfas().iter().enumerate() {
        out.corr(&format!("gram cnfa {i}"), &dumps::dump_nfa(&m.nfa, cmd_tag));
        out.case(&format!("gram-cnfa{i}"), true);
        out.hist("static:matcher-nfa");
    }
    let ev = verif_c04::event_dfa();
    let ev_table = dumps::show_table(&ev, dumps::event_item_tag);
    out.corr(&format!("gram bisim event | {ev_table}"), &format!("ok {}", ev.len()));
    let cd = verif_c04::command_dfa();
    let cd_table = dumps::show_table(&cd, cmd_tag);
    out.corr(&format!("gram bisim command | {cd_table}"), &format!("ok {}", cd.len()));
    out.corr(&format!("c02 table event {ev_table}"), &format!("ok {} termok=1", ev.len()));
    out.corr(&format!("c02 table command {cd_table}"), &format!("ok {} termok=1", cd.len()));
    out.hist("static:dfa-bisim");
    out.hist("static:dfa-bisim");
    out.extra("event_dfa_states", json!(ev.len()));
    out.extra("command_dfa_states", json!(cd.len()));
}

// ---------------------------------------------------------------- main

fn generate(rng: &mut Rng, thorough: bool) -> Vec<Input> {
    let mut inputs: Vec<Input> = Vec::new();
    let mut add = |rng: &mut Rng, kind: Kind, class: String, stream: Vec<u8>, extra: usize| {
        let parts = geninp::partitions(rng, stream.len(), extra);
        let id = inputs.len();
        inputs.push(Input { id, kind, class, stream, parts });
    };
    for (kind, class, stream) in geninp::corners() {
        add(rng, kind, class.to_string(), stream, 2);
    }
    for (kind, class, stream) in geninp::text_corners() {
        add(rng, kind, class.to_string(), stream, 0);
    }
    let scale: u64 = if thorough { 60 } else { 1 };
    let n_event = 7_000 * scale;
    let n_command = 2_500 * scale;
    let n_utf8 = 2_500 * scale;
    for i in 0..n_event {
        let (class, stream) = match i % 10 {
            0..=4 => ("structured".to_string(), geninp::structured(rng, Kind::Event)),
            5..=7 => geninp::mutate(rng, Kind::Event),
            _ => ("random".to_string(), geninp::random_bytes(rng)),
        };
        add(rng, Kind::Event, class, stream, 1 + (i % 2) as usize);
    }
    for i in 0..n_command {
        let (class, stream) = match i % 10 {
            0..=4 => ("structured".to_string(), geninp::structured(rng, Kind::Command)),
            5..=7 => geninp::mutate(rng, Kind::Command),
            _ => ("random".to_string(), geninp::random_bytes(rng)),
        };
        add(rng, Kind::Command, class, stream, 1 + (i % 2) as usize);
    }
    // beyond every fixed-size assumption: 10^3..10^5-digit parameters, multi-KB strings, > 1000 items
    let max_pow = if thorough { 5 } else { 4 };
    for i in 0..(if thorough { 400 } else { 36 }) {
        let kind = if i % 4 == 3 { Kind::Command } else { Kind::Event };
        let (class, stream) = geninp::long_stream(rng, kind, max_pow);
        add(rng, kind, class, stream, 1);
    }
    // beyond 2^16 bytes in one token (a length kept in a u16 would wrap): one parameter and one string
    // (quick tier: implementation and oracle only - the list based Lean tokenizer is quadratic in the token length)
    let tag = if thorough { "model" } else { "nomodel" };
    add(rng, Kind::Event, format!("{tag}:mouse-7e4"), format!("\x1b[<0;{};5M", "7".repeat(70_000)).into_bytes(), 0);
    add(rng, Kind::Event, format!("{tag}:paste-7e4"), format!("\x1b[200~{}\x1b[201~x", "p".repeat(70_000)).into_bytes(), 0);
    add(rng, Kind::Command, format!("{tag}:sgr-7e4"), format!("\x1b[38;5;{}mz", "0".repeat(69_999) + "7").into_bytes(), 0);
    if thorough {
        // one parameter of 10^5 digits in each of the main families
        for (class, s) in [("long:cursor-1e5", format!("\x1b[{};7R", "8".repeat(100_000))), ("long:sgr-1e5", format!("\x1b[38;2;{};0;0m", "1".repeat(100_000))),
            ("long:mouse-1e5", format!("\x1b[<0;{};0M", "0".repeat(100_000)))] {
            add(rng, Kind::Event, class.to_string(), s.into_bytes(), 0);
        }
    }
    for i in 0..n_utf8 {
        let (class, stream) = geninp::utf8_stream(rng);
        add(rng, Kind::Utf8, class, stream, 1 + (i % 2) as usize);
    }
    inputs
}

fn main() {
    let args: Vec<String> = std::env::args().collect();
    if args.len() == 4 && args[1] == "child" {
        child_main(&args[2], &args[3]);
        return;
    }
    let cfg = Cfg::from_env();
    let mut out = cfg.out();
    if let Some(names) = &cfg.tables {
        for name in names {
            match name.as_str() {
                "KeyTable" => std::fs::write(cfg.outdir.join("KeyTable.lean"), key_table_lean()).unwrap(),
                "SgrTables" => std::fs::write(cfg.outdir.join("SgrTables.lean"), sgr_tables_lean()).unwrap(),
                other => {
                    eprintln!("c02: unknown table {other}");
                    std::process::exit(2);
                }
            }
        }
        return;
    }
    let exe: PathBuf = std::env::current_exe().unwrap();
    let dir = cfg.outdir.join("c02-batches");
    let _ = std::fs::remove_dir_all(&dir);
    std::fs::create_dir_all(&dir).unwrap();
    let mut rng = Rng::new(cfg.seed);

    let inputs: Vec<Input> = if let Some(rep) = &cfg.replay {
        grammar_tie(&mut out);
        let i = &rep["failure"]["input"];
        let kind = Kind::parse(i["decoder"].as_str().unwrap_or("event")).unwrap_or(Kind::Event);
        let stream = unhex(i["stream"].as_str().unwrap_or("-"));
        let mut parts = geninp::partitions(&mut rng, stream.len(), 3);
        // the partition of the failure, if it names one
        if let Some(reads) = i["reads"].as_str() {
            parts.push(reads.split('/').map(|c| unhex(c).len()).collect());
        }
        vec![Input { id: 0, kind, class: "replay".into(), stream, parts }]
    } else {
        grammar_tie(&mut out);
        static_correspondence(&mut out, &mut rng, cfg.thorough);
        generate(&mut rng, cfg.thorough)
    };

    // batches over a small pool of workers; results are merged in input order
    let batch_size = 400;
    let batches: Vec<&[Input]> = inputs.chunks(batch_size).collect();
    let results: Mutex<Vec<Option<Vec<Value>>>> = Mutex::new(vec![None; batches.len()]);
    let next = Mutex::new(0usize);
    let timeout = Duration::from_secs(60);
    let workers = 6.min(batches.len().max(1));
    std::thread::scope(|sc| {
        for _ in 0..workers {
            sc.spawn(|| {
                loop {
                    let k = {
                        let mut n = next.lock().unwrap();
                        let k = *n;
                        *n += 1;
                        k
                    };
                    if k >= batches.len() {
                        break;
                    }
                    let r = run_batch(&exe, &dir, &k.to_string(), batches[k], timeout);
                    results.lock().unwrap()[k] = Some(r);
                }
            });
        }
    });
    let _ = std::fs::remove_dir_all(&dir);

    let results = results.into_inner().unwrap();
    let mut abnormal = 0u64;
    let mut observations: std::collections::BTreeMap<String, u64> = Default::default();
    for (k, batch) in batches.iter().enumerate() {
        let by_id: std::collections::HashMap<u64, &Value> =
            results[k].as_ref().map(|v| v.iter().filter_map(|r| r["id"].as_u64().map(|i| (i, r))).collect()).unwrap_or_default();
        for inp in batch.iter() {
            out.hist(&format!("{}:{}", inp.kind.name(), inp.class));
            let Some(r) = by_id.get(&(inp.id as u64)) else {
                out.hist("not-run-after-repeated-crashes");
                continue;
            };
            out.case(&format!("{} {}", inp.kind.name(), hex(&inp.stream)), r["nontrivial"].as_bool().unwrap_or(false));
            for h in r["hist"].as_array().into_iter().flatten() {
                if let Some(h) = h.as_str() {
                    if h == "abnormal-exit" {
                        abnormal += 1;
                    }
                    out.hist(h);
                }
            }
            for ob in r["obs"].as_array().into_iter().flatten() {
                if let Some(ob) = ob.as_str() {
                    *observations.entry(ob.to_string()).or_insert(0u64) += 1;
                }
            }
            for c in r["corr"].as_array().into_iter().flatten() {
                out.corr(c[0].as_str().unwrap_or(""), c[1].as_str().unwrap_or(""));
            }
            for c in r["oracle"].as_array().into_iter().flatten() {
                out.oracle(c[0].as_str().unwrap_or(""), c[1].as_str().unwrap_or(""));
            }
            for f in r["fails"].as_array().into_iter().flatten() {
                out.fail(f["what"].as_str().unwrap_or("?"), f["input"].clone(), f["expected"].clone(), f["got"].clone());
            }
            if out.evaluations % 997 == 1 && !r["sample"].is_null() {
                out.sample(r["sample"].clone());
            }
        }
    }
    out.extra("abnormal_child_exits", json!(abnormal));
    out.extra("observations_not_judged_by_c02", json!(observations));
    out.extra("inputs", json!(inputs.len()));
    out.extra("partitions_per_input", json!("whole, byte-wise and 1-2 random cuts with empty reads (corners: 2, replay: 3)"));
    out.finish("streams for TTYEventDecoder / TTYCommandDecoder / Utf8Decoder: white-box corner cases, then structured protocol sequences with extreme parameters (50%), mutations of them (30%), biased random bytes (20%), each decoded under 3-4 partitions in a child process; plus the static part: acceptance of every byte string of length 1-2 and sampled 3-5 byte strings, utf8_decode on every accepted 1-2 byte string and on boundary/sampled 3-4 byte ones; non-trivial = the stream produced at least one item (streams) / the string is accepted (static); distinct by (decoder, stream)");
}
