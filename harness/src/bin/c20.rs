//! C20: colours reduced for 256-colour / grey terminals are the closest available ones.
//!
//! Implementation under test: the real `TTYEncoder` (`TerminalCommand::FaceModify` with one role set,
//! and `TerminalCommand::Face`), for the depths EightBit, Gray, TrueColor; the SGR bytes are parsed back.
//!
//! Correspondence (`C` lines): the Lean model `SurfModel.Color256` evaluated in EXACT integer arithmetic
//! on the f32 values the implementation uses (256 sRGB->linear values, CUBE, GREYS: regenerated table
//! `ColorTables`; luma: sent with the request).  f32 rounding may legitimately flip a decision whose
//! alternatives are equally good up to rounding, so a correspondence line is written only for colours
//! whose best and second-best palette entry (table values, f64 arithmetic) differ by more than 1e-4 in
//! squared distance ("tie-within-rounding" otherwise; those colours are still judged by the oracle).
//!
//! Oracle (decides violations): brute force over the 240 non-system entries of the standard xterm
//! palette (cube levels 00 5f 87 af d7 ff, greys 08 + 10 i), converted by the library's own
//! `LinColor::from(RGBA)`, compared by the library's own `LinColor::distance`:
//! `d(chosen) <= d(best) * (1 + 1e-3)`.  If a CUBE / GREYS constant is off its exact sRGB value by more than
//! 1.5e-6 (accurate 6-digit constants are within 5e-7 and cost at most 3.7e-6 relative on all 2^24 colours),
//! the tolerance is 1e-5 instead, so that every choice changed by the drifted constant yields a witness.
//! Gray depth: the luminance is the library's own `Color::luma()` (public trait); the level must be the
//! nearest of the nominal levels 0, .33, .66, 1 (inline literal of the source, not readable through an
//! add-only hook: recorded as an assumption) and must not decrease when `luma()` increases (order only).
//! TrueColor: parameters are exactly `r;g;b`; every role carries its own selector.
//!
//! Whole commands (`face_path`): `Face` and a `FaceModify` with foreground, background and underline colour are
//! interpreted as a terminal reads SGR parameters (`interpret`: last selection wins); per role the selection in
//! effect must be the one the role's colour gets on its own (judged above); Gray: an underline colour selects nothing.
//!
//! Terminal glue (module `glue`): the real terminal object on a pty, constructed on every detection path of
//! `capabilities_detect`; its output for Face / FaceModify is judged and compared with the model at the depth
//! it reports through `capabilities().depth`.
use serde_json::{Value, json};
use std::collections::HashSet;
use surf_n_term::encoder::{ColorDepth, Encoder, TTYEncoder, verif_c20};
use surf_n_term::{Color, Face, FaceAttrs, FaceModify, LinColor, RGBA, TerminalCaps, TerminalCommand, UnderlineStyle};
use verif_harness::{Cfg, guarded, out::Out, out::hex, r#gen::Rng};

const REL_TOL: f64 = 1e-3; // the property's "visibly closer"
/// tolerance used instead when a table constant is off the exact sRGB value by more than `DRIFT_LIMIT`:
/// accurate tables (6 digits) cause at most 3.7e-6 on all 2^24 colours, so anything above 1e-5 is a choice
/// changed by the drifted constant
const REL_TOL_DRIFT: f64 = 1e-5;
const DRIFT_LIMIT: f64 = 1.5e-6;
const TIE_REL: f64 = 1e-4; // squared-distance margin below which f32 rounding may decide
const ROLES: [&str; 3] = ["fg", "bg", "ul"];
const ROLE_CODE: [u32; 3] = [38, 48, 58];
const STD_CUBE: [u8; 6] = [0x00, 0x5f, 0x87, 0xaf, 0xd7, 0xff];
const GRAY_NOMINAL: [f64; 4] = [0.0, 0.33, 0.66, 1.0];
const GRAY_CODES: [u32; 4] = [30, 90, 37, 97];
/// the 40 colours for which, on the pinned tree, the entry chosen is farther than the best entry of the
/// standard palette (by at most 3.7e-6 relative: 6-digit table literals) - white-box corner cases
const PINNED_NEAR_TIES: [u32; 40] = [
    0x00020a, 0x000507, 0x000705, 0x000a02, 0x01010a, 0x010407, 0x010704, 0x02000a, 0x020307, 0x020505, 0x020703, 0x020a00, 0x030207, 0x030702, 0x040107, 0x040701, 0x050007, 0x050205, 0x050502, 0x050700, 0x070005, 0x070104, 0x070203, 0x070302, 0x070401, 0x070500, 0x0a0002, 0x0a0200, 0x1e2e33, 0x1e332e, 0x2e1e33, 0x2e331e, 0x331e2e, 0x332e1e, 0x8697a3, 0x86a397, 0x9786a3, 0x97a386, 0xa38697, 0xa39786,
];

/// f32 bit pattern -> (mantissa, exponent) with value = mantissa * 2^exponent (finite, non-negative)
fn decompose(bits: u32) -> Option<(i128, i32)> {
    if bits >> 31 != 0 {
        return None;
    }
    let e = ((bits >> 23) & 0xff) as i32;
    let m = (bits & 0x7f_ffff) as i128;
    match e {
        255 => None,
        0 => Some((m, -149)),
        _ => Some((m | 0x80_0000, e - 150)),
    }
}

/// exact integer `3 * 2^k * value`, `None` if it is not an integer (or value negative / not finite)
fn scaled(bits: u32, k: u32) -> Option<i128> {
    let (m, e) = decompose(bits)?;
    let s = e + k as i32;
    if m == 0 {
        Some(0)
    } else if s >= 0 {
        if s > 60 { None } else { Some(3 * (m << s)) }
    } else if -s < 127 && m & ((1i128 << -s) - 1) == 0 {
        Some(3 * (m >> -s))
    } else {
        None
    }
}

/// least k >= 48 for which every value is an exact integer after scaling
fn scale_bits(all: &[u32]) -> u32 {
    let mut k = 48;
    while all.iter().any(|b| scaled(*b, k).is_none()) && k < 100 {
        k += 1;
    }
    k
}

struct Tables {
    cube: Vec<f32>,
    greys: Vec<f32>,
    lin: Vec<f32>,
    k: u32,
}

impl Tables {
    fn read() -> Tables {
        let cube: Vec<f32> = verif_c20::cube_bits().into_iter().map(f32::from_bits).collect();
        let greys: Vec<f32> = verif_c20::greys_bits().into_iter().map(f32::from_bits).collect();
        let lin: Vec<f32> = (0..=255u8)
            .map(|v| {
                let c = LinColor::from(RGBA::new(v, v, v, 255));
                assert!(c.red().to_bits() == c.green().to_bits() && c.red().to_bits() == c.blue().to_bits());
                c.red()
            })
            .collect();
        let mut all: Vec<u32> = Vec::new();
        all.extend(cube.iter().chain(greys.iter()).chain(lin.iter()).map(|v| v.to_bits()));
        all.extend([0.33f32.to_bits(), 0.66f32.to_bits()]);
        let k = scale_bits(&all);
        Tables { cube, greys, lin, k }
    }
    fn ints(&self, v: &[f32]) -> String {
        v.iter()
            .map(|x| scaled(x.to_bits(), self.k).map(|i| i.to_string()).unwrap_or_else(|| "0 /- not representable -/".into()))
            .collect::<Vec<_>>()
            .join(", ")
    }
    fn lean(&self) -> String {
        let bits = |v: &[f32]| v.iter().map(|x| format!("0x{:08x}", x.to_bits())).collect::<Vec<_>>().join(", ");
        format!(
            "/-! Generated by `c20 tables` from the current build of /repo (hook `encoder::verif_c20`, and\n\
             `LinColor::from(RGBA)` of the `rasterize` crate for `lin`).  Do not edit.\n\n\
             Every `Int` below is the exact value `3 * 2^scaleBits * x` of the `f32` number `x` the implementation\n\
             uses; the `*Bits` lists are the raw IEEE-754 bit patterns. -/\n\
             namespace SurfModel.Generated.ColorTables\n\n\
             def scaleBits : Nat := {k}\n\n\
             /-- `CUBE` of src/encoder.rs -/\ndef cube : List Int := [{cube}]\n\n\
             /-- `GREYS` of src/encoder.rs -/\ndef greys : List Int := [{greys}]\n\n\
             /-- linear-light value of the sRGB byte `v`, `v = 0 … 255` (`LinColor::from(RGBA::new(v, v, v, 255))`) -/\n\
             def lin : List Int := [{lin}]\n\n\
             /-- the decoder's view of the 256-colour palette (src/decoder.rs `COLORS`, `CUBE`, `GREYS`, sRGB bytes; hook\n\
             `decoder::verif_c06::palette_tables`): how a reported `48;5;N` is turned back into a colour -/\n\
             def decNamed : List (Nat × Nat × Nat) := [{dn}]\n\ndef decCube : List Nat := [{dc}]\n\ndef decGreys : List Nat := [{dg}]\n\n\
             def cubeBits : List Nat := [{cb}]\n\ndef greysBits : List Nat := [{gb}]\n\ndef linBits : List Nat := [{lb}]\n\n\
             end SurfModel.Generated.ColorTables\n",
            k = self.k,
            cube = self.ints(&self.cube),
            greys = self.ints(&self.greys),
            lin = self.ints(&self.lin),
            dn = {
                let (named, _, _) = surf_n_term::decoder::verif_c06::palette_tables();
                named.iter().map(|c| { let [r, g, b] = c.to_rgb(); format!("({r}, {g}, {b})") }).collect::<Vec<_>>().join(", ")
            },
            dc = surf_n_term::decoder::verif_c06::palette_tables().1.iter().map(|v| v.to_string()).collect::<Vec<_>>().join(", "),
            dg = surf_n_term::decoder::verif_c06::palette_tables().2.iter().map(|v| v.to_string()).collect::<Vec<_>>().join(", "),
            cb = bits(&self.cube),
            gb = bits(&self.greys),
            lb = bits(&self.lin),
        )
    }
}

/// one palette: index, colour, and per-channel squared differences for fast f64 brute force
struct Palette {
    idx: Vec<u32>,
    col: Vec<[f32; 3]>,
}

impl Palette {
    /// the standard xterm palette 16..=255 through the library's own conversion
    fn standard() -> Palette {
        let mut idx = Vec::new();
        let mut col = Vec::new();
        let conv = |r: u8, g: u8, b: u8| {
            let c = LinColor::from(RGBA::new(r, g, b, 255));
            [c.red(), c.green(), c.blue()]
        };
        for (i, r) in STD_CUBE.iter().enumerate() {
            for (j, g) in STD_CUBE.iter().enumerate() {
                for (k, b) in STD_CUBE.iter().enumerate() {
                    idx.push((16 + 36 * i + 6 * j + k) as u32);
                    col.push(conv(*r, *g, *b));
                }
            }
        }
        for i in 0..24u32 {
            let v = (8 + 10 * i) as u8;
            idx.push(232 + i);
            col.push(conv(v, v, v));
        }
        Palette { idx, col }
    }
    /// the palette as the implementation's tables describe it (used for the rounding margin only)
    fn from_tables(t: &Tables) -> Palette {
        let mut idx = Vec::new();
        let mut col = Vec::new();
        for (i, r) in t.cube.iter().enumerate() {
            for (j, g) in t.cube.iter().enumerate() {
                for (k, b) in t.cube.iter().enumerate() {
                    idx.push((16 + 36 * i + 6 * j + k) as u32);
                    col.push([*r, *g, *b]);
                }
            }
        }
        for (i, v) in t.greys.iter().enumerate() {
            idx.push(232 + i as u32);
            col.push([*v, *v, *v]);
        }
        Palette { idx, col }
    }
    fn d2(&self, e: usize, c: [f32; 3]) -> f64 {
        let p = self.col[e];
        let d0 = c[0] as f64 - p[0] as f64;
        let d1 = c[1] as f64 - p[1] as f64;
        let d2 = c[2] as f64 - p[2] as f64;
        d0 * d0 + d1 * d1 + d2 * d2
    }
    /// (best entry, best d2, second-best d2)
    fn best2(&self, c: [f32; 3]) -> (usize, f64, f64) {
        let (mut be, mut b1, mut b2) = (0usize, f64::INFINITY, f64::INFINITY);
        for e in 0..self.col.len() {
            let d = self.d2(e, c);
            if d < b1 {
                b2 = b1;
                b1 = d;
                be = e;
            } else if d < b2 {
                b2 = d;
            }
        }
        (be, b1, b2)
    }
    fn lin_color(&self, e: usize) -> LinColor {
        let p = self.col[e];
        LinColor::new(p[0], p[1], p[2], 1.0)
    }
    fn entry_of(&self, index: u32) -> Option<usize> {
        self.idx.iter().position(|i| *i == index)
    }
}

/// SGR parameters of an escape sequence `ESC [ … m` (`;` and `:` both accepted); empty output = no parameters
fn params(buf: &[u8]) -> Option<Vec<u32>> {
    if buf.is_empty() {
        return Some(Vec::new());
    }
    let body = buf.strip_prefix(b"\x1b[")?.strip_suffix(b"m")?;
    if body.is_empty() {
        return None;
    }
    let mut res = Vec::new();
    for part in body.split(|c| *c == b';' || *c == b':') {
        if part.is_empty() || part.len() > 9 || !part.iter().all(|c| c.is_ascii_digit()) {
            return None;
        }
        res.push(std::str::from_utf8(part).ok()?.parse().ok()?);
    }
    Some(res)
}

/// one colour selection as a terminal understands it
#[derive(Clone, Copy, PartialEq, Debug)]
enum Sel {
    /// 30..37, 90..97, 40..47, 100..107
    Basic(u32),
    Indexed(u32),
    Rgb(u32, u32, u32),
}

/// the colour selections in effect after a terminal has read an SGR sequence (later parameters override
/// earlier ones, `0` resets, 39 / 49 / 59 select the default = nothing)
#[derive(Clone, Copy, PartialEq, Debug, Default)]
struct Eff {
    fg: Option<Sel>,
    bg: Option<Sel>,
    ul: Option<Sel>,
}

impl Eff {
    fn show(&self) -> String {
        format!("fg={:?} bg={:?} underline-colour={:?}", self.fg, self.bg, self.ul)
    }
}

/// Interpret `ESC [ … m` the way a terminal does; empty output selects nothing; `None` = not an SGR sequence.
fn interpret(buf: &[u8]) -> Option<Eff> {
    let mut eff = Eff::default();
    if buf.is_empty() {
        return Some(eff);
    }
    let body = buf.strip_prefix(b"\x1b[")?.strip_suffix(b"m")?;
    let mut ps: Vec<Vec<u32>> = Vec::new();
    for part in body.split(|c| *c == b';') {
        let mut subs = Vec::new();
        for sub in part.split(|c| *c == b':') {
            if sub.len() > 9 || !sub.iter().all(|c| c.is_ascii_digit()) {
                return None;
            }
            subs.push(if sub.is_empty() { 0 } else { std::str::from_utf8(sub).ok()?.parse().ok()? });
        }
        ps.push(subs);
    }
    let mut i = 0;
    while i < ps.len() {
        let p = &ps[i];
        let code = p[0];
        if matches!(code, 38 | 48 | 58) {
            let sel = if p.len() > 1 {
                // colon form: 38:5:n, 38:2:r:g:b, 38:2::r:g:b
                match p[1] {
                    5 if p.len() >= 3 => Sel::Indexed(p[2]),
                    2 if p.len() >= 5 => Sel::Rgb(p[p.len() - 3], p[p.len() - 2], p[p.len() - 1]),
                    _ => return None,
                }
            } else {
                let one = |k: usize| ps.get(k).filter(|q| q.len() == 1).map(|q| q[0]);
                match one(i + 1) {
                    Some(5) => {
                        let n = one(i + 2)?;
                        i += 2;
                        Sel::Indexed(n)
                    }
                    Some(2) => {
                        let (r, g, b) = (one(i + 2)?, one(i + 3)?, one(i + 4)?);
                        i += 4;
                        Sel::Rgb(r, g, b)
                    }
                    _ => return None,
                }
            };
            match code {
                38 => eff.fg = Some(sel),
                48 => eff.bg = Some(sel),
                _ => eff.ul = Some(sel),
            }
        } else if p.len() == 1 {
            match code {
                0 => eff = Eff::default(),
                30..=37 | 90..=97 => eff.fg = Some(Sel::Basic(code)),
                40..=47 | 100..=107 => eff.bg = Some(Sel::Basic(code)),
                39 => eff.fg = None,
                49 => eff.bg = None,
                59 => eff.ul = None,
                _ => {}
            }
        }
        i += 1;
    }
    Some(eff)
}

fn canon(buf: &[u8], p: &Option<Vec<u32>>) -> String {
    match p {
        None => format!("raw:{}", hex(buf)),
        Some(v) if v.is_empty() => "-".to_string(),
        Some(v) => v.iter().map(|x| x.to_string()).collect::<Vec<_>>().join(";"),
    }
}

enum Backend {
    /// a `TTYEncoder` of its own
    Plain(TTYEncoder),
    /// bytes a real terminal object put on its pty for the same sequence of commands (see `glue`)
    Canned(std::collections::VecDeque<Vec<u8>>),
}

struct Enc {
    be: Backend,
    buf: Vec<u8>,
}

impl Enc {
    fn new(depth: ColorDepth) -> Enc {
        Enc { be: Backend::Plain(TTYEncoder::new(caps_of(depth))), buf: Vec::with_capacity(64) }
    }
    fn canned(segments: Vec<Vec<u8>>) -> Enc {
        Enc { be: Backend::Canned(segments.into()), buf: Vec::new() }
    }
    /// encode `cmd`; `None` = panic or error
    fn run(&mut self, cmd: TerminalCommand) -> Option<Vec<u32>> {
        self.buf.clear();
        match &mut self.be {
            Backend::Plain(enc) => {
                let buf = &mut self.buf;
                match guarded(|| enc.encode(&mut *buf, cmd)) {
                    Ok(Ok(())) => params(&self.buf),
                    _ => {
                        self.buf.clear();
                        self.buf.extend_from_slice(b"panic-or-error");
                        None
                    }
                }
            }
            Backend::Canned(q) => match q.pop_front() {
                Some(seg) if seg != glue::ERROR_SEGMENT => {
                    self.buf = seg;
                    params(&self.buf)
                }
                _ => {
                    self.buf.extend_from_slice(b"panic-or-error");
                    None
                }
            },
        }
    }
    fn role(&mut self, c: RGBA, role: usize) -> Option<Vec<u32>> {
        self.run(role_cmd(c, role))
    }
}

/// commands of one glue session: every colour in the three roles (FaceModify), every pair through Face
fn glue_cmds(colours: &[[u8; 3]], pairs: &[(usize, usize)]) -> Vec<TerminalCommand> {
    let rgba = |c: [u8; 3]| RGBA::new(c[0], c[1], c[2], 255);
    let mut cmds: Vec<TerminalCommand> = Vec::new();
    for c in colours {
        for role in 0..3 {
            cmds.push(role_cmd(rgba(*c), role));
        }
    }
    for (f, b) in pairs {
        if let (Some(f), Some(b)) = (colours.get(*f), colours.get(*b)) {
            cmds.push(TerminalCommand::Face(Face { fg: Some(rgba(*f)), bg: Some(rgba(*b)), attrs: FaceAttrs::EMPTY }));
        }
    }
    cmds
}

/// exchange the stand-alone encoder of depth number `di` (0 = 8bit, 1 = gray, 2 = true) of the context with `e`
fn slot_of(s: &mut Ctx, di: usize, e: &mut Enc) {
    match di {
        0 => std::mem::swap(&mut s.e8, e),
        1 => std::mem::swap(&mut s.eg, e),
        _ => std::mem::swap(&mut s.et, e),
    }
}

/// capabilities written out field by field (no `Default` of the crate involved)
fn caps_of(depth: ColorDepth) -> TerminalCaps {
    TerminalCaps { depth, glyphs: false, kitty_keyboard: false }
}

/// a face modification that changes nothing, every field written out (no `Default` of the crate involved)
fn fm_none() -> FaceModify {
    FaceModify { reset: false, fg: None, bg: None, underline: None, underline_color: None, bold: None, italic: None, blink: None, strike: None }
}

fn role_cmd(c: RGBA, role: usize) -> TerminalCommand {
    let fm = match role {
        0 => FaceModify { fg: Some(c), ..fm_none() },
        1 => FaceModify { bg: Some(c), ..fm_none() },
        _ => FaceModify { underline_color: Some(c), ..fm_none() },
    };
    TerminalCommand::FaceModify(fm)
}

/// Terminal glue: the real terminal object (`SystemTerminal::new_from_fd`) on a pseudo terminal.  The encoder
/// that writes the colours lives inside the terminal and is configured by `capabilities_detect` from the
/// environment (`TERM`, `COLORTERM`, the `SURFNTERM` override) and from the answers of the terminal emulator;
/// `capabilities().depth` is what the library reports.  A peer thread plays the emulator (`Emu`): it tracks
/// SGR, answers DA1 and — depending on the kind — DECRQSS.  Sessions with a `SURFNTERM` value run in a child
/// process (the variable is read once per process).  Timing never produces a failure: a session whose output
/// does not arrive is inconclusive.
mod glue {
    use std::io::Write;
    use std::os::fd::{FromRawFd, OwnedFd, RawFd};
    use std::sync::atomic::{AtomicBool, Ordering};
    use std::sync::{Arc, Mutex};
    use std::time::{Duration, Instant};
    use surf_n_term::encoder::ColorDepth;
    use surf_n_term::{SystemTerminal, Terminal, TerminalCommand};

    pub const ERROR_SEGMENT: &[u8] = b"\x1dERR";
    const START: &[u8] = b"\x1dS";
    const SEP: &[u8] = b"\x1e";
    const END: &[u8] = b"\x1dE";

    /// what the terminal emulator on the master side can do
    #[derive(Clone, Copy, PartialEq, Debug)]
    pub enum Emu {
        /// answers DA1 only (no DECRQSS): the library cannot learn anything about colours
        Plain,
        /// true-colour terminal: keeps direct colours as they are, answers DECRQSS with `48:2::r:g:b`
        Direct,
        /// 256-colour terminal that accepts `38;2` / `48;2` but maps them to the closest entry of its palette
        /// (plain sRGB distance over 16..=255, whatever the colour is), answers DECRQSS with `48;5;N`
        Palette256,
    }

    #[derive(Clone)]
    pub struct Plan {
        pub name: String,
        pub term: &'static str,
        pub colorterm: Option<&'static str>,
        pub emu: Emu,
        /// value of the `SURFNTERM` variable (such sessions run in a child process)
        pub surfnterm: Option<&'static str>,
        /// depths under which this terminal is served correctly (empty = any): what the user configured, or what
        /// the terminal is able to show
        pub allowed: Vec<ColorDepth>,
        pub why: &'static str,
    }

    pub fn plans() -> Vec<Plan> {
        use ColorDepth::*;
        let p = |name: &str, term, colorterm, emu, surfnterm, allowed: &[ColorDepth], why| Plan {
            name: name.to_string(), term, colorterm, emu, surfnterm, allowed: allowed.to_vec(), why,
        };
        let grey = "TERM=dumb / TERM=linux is how the library recognises a grey-only terminal";
        let user = "the depth the user configured through SURFNTERM is the depth to serve";
        vec![
            p("TERM=dumb", "dumb", None, Emu::Plain, None, &[Gray], grey),
            p("TERM=linux", "linux", None, Emu::Plain, None, &[Gray], grey),
            p("TERM=xterm-256color", "xterm-256color", None, Emu::Plain, None, &[], ""),
            p("TERM=xterm-256color+DECRQSS", "xterm-256color", None, Emu::Direct, None, &[], ""),
            p("TERM=xterm,COLORTERM=truecolor", "xterm", Some("truecolor"), Emu::Plain, None, &[], ""),
            p("TERM=xterm-256color on a 256-colour emulator that maps direct colours to its palette", "xterm-256color", None,
              Emu::Palette256, None, &[EightBit, Gray], "the terminal has 256 colours only: direct colours must not be sent to it"),
            p("SURFNTERM=\"depth=gray\"", "vt220", None, Emu::Plain, Some("depth=gray"), &[Gray], user),
            p("SURFNTERM=\"depth = gray\"", "vt220", None, Emu::Plain, Some("depth = gray"), &[Gray], user),
            p("SURFNTERM=\"image = dummy, depth = gray\"", "vt220", None, Emu::Plain, Some("image = dummy, depth = gray"), &[Gray], user),
            p("SURFNTERM=\" depth =  truecolor \"", "xterm", None, Emu::Plain, Some(" depth =  truecolor "), &[TrueColor], user),
            p("SURFNTERM=\"depth= 256 ,image=dummy\" on a true-colour emulator", "xterm-256color", None, Emu::Direct,
              Some("depth= 256 ,image=dummy"), &[EightBit], user),
            p("SURFNTERM=\"image=dummy,depth=2\" on a true-colour emulator", "xterm-256color", None, Emu::Direct,
              Some("image=dummy,depth=2"), &[Gray], user),
        ]
    }

    pub struct SessionOut {
        pub reported: ColorDepth,
        /// bytes put on the pty for each command, in order (`ERROR_SEGMENT` if `execute` failed)
        pub segments: Vec<Vec<u8>>,
        /// background colours the library set with `48;2;r;g;b` while detecting capabilities (the probe)
        pub probes: Vec<[u32; 3]>,
    }

    struct Shared {
        received: Mutex<Vec<u8>>,
        probes: Mutex<Vec<[u32; 3]>>,
        stop: AtomicBool,
    }

    fn open_pty() -> Result<(RawFd, RawFd), String> {
        unsafe {
            let master = libc::posix_openpt(libc::O_RDWR | libc::O_NOCTTY);
            if master < 0 {
                return Err("no-pty:posix_openpt".into());
            }
            if libc::grantpt(master) != 0 || libc::unlockpt(master) != 0 {
                libc::close(master);
                return Err("no-pty:grantpt".into());
            }
            let mut name = [0 as libc::c_char; 128];
            if libc::ptsname_r(master, name.as_mut_ptr(), name.len()) != 0 {
                libc::close(master);
                return Err("no-pty:ptsname_r".into());
            }
            let slave = libc::open(name.as_ptr(), libc::O_RDWR | libc::O_NOCTTY);
            if slave < 0 {
                libc::close(master);
                return Err("no-pty:open-slave".into());
            }
            let ws = libc::winsize { ws_row: 24, ws_col: 80, ws_xpixel: 0, ws_ypixel: 0 };
            libc::ioctl(master, libc::TIOCSWINSZ, &ws);
            let fl = libc::fcntl(master, libc::F_GETFL);
            libc::fcntl(master, libc::F_SETFL, fl | libc::O_NONBLOCK);
            Ok((master, slave))
        }
    }

    fn find(hay: &[u8], needle: &[u8]) -> Option<usize> {
        hay.windows(needle.len()).position(|w| w == needle)
    }

    /// background as the emulator keeps it
    #[derive(Clone, Copy)]
    enum Bg {
        Default,
        Rgb(u32, u32, u32),
        Idx(u32),
    }

    /// closest entry 16..=255 of the xterm palette by plain sRGB distance (table written here, independent)
    fn closest_palette(r: u32, g: u32, b: u32) -> u32 {
        const LV: [i64; 6] = [0, 95, 135, 175, 215, 255];
        let d = |x: [i64; 3]| (x[0] - r as i64).pow(2) + (x[1] - g as i64).pow(2) + (x[2] - b as i64).pow(2);
        let (mut best, mut bd) = (16u32, i64::MAX);
        for i in 0..216u32 {
            let e = [LV[(i / 36) as usize], LV[(i / 6 % 6) as usize], LV[(i % 6) as usize]];
            if d(e) < bd {
                bd = d(e);
                best = 16 + i;
            }
        }
        for i in 0..24u32 {
            let v = 8 + 10 * i as i64;
            if d([v, v, v]) < bd {
                bd = d([v, v, v]);
                best = 232 + i;
            }
        }
        best
    }

    /// the terminal emulator: record everything, track SGR background, answer the queries
    fn peer(master: RawFd, shared: Arc<Shared>, emu: Emu) {
        let mut buf = vec![0u8; 1 << 14];
        let mut tail: Vec<u8> = Vec::new();
        let mut bg = Bg::Default;
        while !shared.stop.load(Ordering::SeqCst) {
            let mut pfd = libc::pollfd { fd: master, events: libc::POLLIN, revents: 0 };
            if unsafe { libc::poll(&mut pfd, 1, 20) } <= 0 {
                continue;
            }
            let n = unsafe { libc::read(master, buf.as_mut_ptr() as *mut libc::c_void, buf.len()) };
            if n <= 0 {
                std::thread::sleep(Duration::from_millis(1)); // EIO while the slave is closed, EAGAIN
                continue;
            }
            let data = &buf[..n as usize];
            shared.received.lock().unwrap().extend_from_slice(data);
            tail.extend_from_slice(data);
            let mut replies: Vec<u8> = Vec::new();
            let mut i = 0;
            'scan: while i < tail.len() {
                if tail[i] != 0x1b {
                    i += 1;
                    continue;
                }
                if i + 1 >= tail.len() {
                    break; // lone ESC at the end: wait for more
                }
                match tail[i + 1] {
                    b'[' => {
                        // CSI … final byte 0x40..=0x7e
                        let mut j = i + 2;
                        while j < tail.len() && !(0x40..=0x7e).contains(&tail[j]) {
                            j += 1;
                        }
                        if j >= tail.len() {
                            break 'scan;
                        }
                        let args = &tail[i + 2..j];
                        match tail[j] {
                            b'c' if args.is_empty() => replies.extend_from_slice(b"\x1b[?62c"),
                            b'm' => {
                                let ps: Vec<u32> = args
                                    .split(|c| *c == b';')
                                    .map(|a| std::str::from_utf8(a).ok().and_then(|a| a.parse().ok()).unwrap_or(0))
                                    .collect();
                                let mut k = 0;
                                while k < ps.len() {
                                    match ps[k] {
                                        0 => bg = Bg::Default,
                                        49 => bg = Bg::Default,
                                        38 | 48 | 58 => {
                                            let is_bg = ps[k] == 48;
                                            if ps.get(k + 1) == Some(&2) && k + 4 < ps.len() {
                                                let (r, g, b) = (ps[k + 2], ps[k + 3], ps[k + 4]);
                                                if is_bg {
                                                    shared.probes.lock().unwrap().push([r, g, b]);
                                                    bg = match emu {
                                                        Emu::Palette256 => Bg::Idx(closest_palette(r, g, b)),
                                                        _ => Bg::Rgb(r, g, b),
                                                    };
                                                }
                                                k += 4;
                                            } else if ps.get(k + 1) == Some(&5) && k + 2 < ps.len() {
                                                if is_bg {
                                                    bg = Bg::Idx(ps[k + 2]);
                                                }
                                                k += 2;
                                            }
                                        }
                                        40..=47 => bg = Bg::Idx(ps[k] - 40),
                                        100..=107 => bg = Bg::Idx(ps[k] - 92),
                                        _ => {}
                                    }
                                    k += 1;
                                }
                            }
                            _ => {}
                        }
                        i = j + 1;
                    }
                    b'P' | b'_' | b']' => {
                        // DCS / APC / OSC … ST
                        let Some(e) = find(&tail[i + 2..], b"\x1b\\") else { break 'scan };
                        let body = &tail[i + 2..i + 2 + e];
                        if tail[i + 1] == b'P' && body == b"$qm" && emu != Emu::Plain {
                            let sgr = match bg {
                                Bg::Default => "0".to_string(),
                                Bg::Rgb(r, g, b) => format!("0;48:2::{r}:{g}:{b}"),
                                Bg::Idx(n) => format!("0;48;5;{n}"),
                            };
                            replies.extend_from_slice(format!("\x1bP1$r{sgr}m\x1b\\").as_bytes());
                        }
                        i += 2 + e + 2;
                    }
                    _ => i += 2,
                }
            }
            tail.drain(..i.min(tail.len()));
            if !replies.is_empty() {
                unsafe { libc::write(master, replies.as_ptr() as *const libc::c_void, replies.len()) };
            }
        }
    }

    /// One session in this process: terminal constructed under `plan`, `cmds` executed, output collected per
    /// command.  `Err(why)`: the session cannot be judged (inconclusive).
    pub fn session(plan: &Plan, cmds: &[TerminalCommand]) -> Result<SessionOut, String> {
        let (master, slave) = open_pty()?;
        let keep = unsafe { libc::dup(slave) }; // the pty must outlive the terminal
        let shared = Arc::new(Shared { received: Mutex::new(Vec::new()), probes: Mutex::new(Vec::new()), stop: AtomicBool::new(false) });
        let thread = {
            let shared = shared.clone();
            let emu = plan.emu;
            std::thread::spawn(move || peer(master, shared, emu))
        };
        // the environment decides which detection path runs (process-wide: sessions run one at a time)
        unsafe {
            std::env::set_var("TERM", plan.term);
            match plan.colorterm {
                Some(v) => std::env::set_var("COLORTERM", v),
                None => std::env::remove_var("COLORTERM"),
            }
        }
        let result = (|| -> Result<SessionOut, String> {
            let mut term = SystemTerminal::new_from_fd(unsafe { OwnedFd::from_raw_fd(slave) })
                .map_err(|e| format!("constructor:{e:?}"))?;
            let reported = term.capabilities().depth;
            let probes = shared.probes.lock().unwrap().clone();
            let mut failed = vec![false; cmds.len()];
            term.write_all(START).map_err(|e| format!("write:{e:?}"))?;
            for (i, cmd) in cmds.iter().enumerate() {
                let r = std::panic::catch_unwind(std::panic::AssertUnwindSafe(|| term.execute(cmd.clone())));
                failed[i] = !matches!(r, Ok(Ok(())));
                term.write_all(SEP).map_err(|e| format!("write:{e:?}"))?;
            }
            term.write_all(END).map_err(|e| format!("write:{e:?}"))?;
            let t0 = Instant::now();
            let body = loop {
                term.poll(Some(Duration::from_millis(2))).map_err(|e| format!("poll-error:{e:?}"))?;
                let rec = shared.received.lock().unwrap();
                if let (Some(a), Some(b)) = (find(&rec, START), find(&rec, END)) {
                    break rec[a + START.len()..b].to_vec();
                }
                drop(rec);
                if t0.elapsed() > Duration::from_secs(10) {
                    return Err("output-timeout".into());
                }
            };
            drop(term); // epilogue + DA1, answered by the peer
            let mut segments: Vec<Vec<u8>> = body.split(|c| *c == SEP[0]).map(|s| s.to_vec()).collect();
            segments.pop(); // empty piece after the last separator
            if segments.len() != cmds.len() {
                return Err("segment-count".into());
            }
            for (i, f) in failed.iter().enumerate() {
                if *f {
                    segments[i] = ERROR_SEGMENT.to_vec();
                }
            }
            Ok(SessionOut { reported, segments, probes })
        })();
        shared.stop.store(true, Ordering::SeqCst);
        let _ = thread.join();
        unsafe {
            libc::close(keep);
            libc::close(master);
        }
        result
    }

    pub fn depth_name(d: ColorDepth) -> &'static str {
        match d {
            ColorDepth::EightBit => "8bit",
            ColorDepth::Gray => "gray",
            ColorDepth::TrueColor => "true",
        }
    }

    /// child process (`c20 glue-child <plan index> <colours hex> <pairs>`): one session, the result as one
    /// JSON line on stdout
    pub fn child_main(args: &[String], cmds_of: impl Fn(&[[u8; 3]], &[(usize, usize)]) -> Vec<TerminalCommand>) {
        let plans = plans();
        let idx: usize = args[0].parse().unwrap_or(usize::MAX);
        let Some(plan) = plans.get(idx) else { std::process::exit(2) };
        let (colours, pairs) = decode_job(&args[1], &args[2]);
        let line = match session(plan, &cmds_of(&colours, &pairs)) {
            Ok(so) => serde_json::json!({
                "reported": depth_name(so.reported),
                "segments": so.segments.iter().map(|s| super::hex(s)).collect::<Vec<_>>(),
                "probes": so.probes,
            }),
            Err(why) => serde_json::json!({"inconclusive": why}),
        };
        println!("{line}");
    }

    pub fn encode_job(colours: &[[u8; 3]], pairs: &[(usize, usize)]) -> (String, String) {
        let c: Vec<u8> = colours.iter().flatten().cloned().collect();
        let p = pairs.iter().map(|(a, b)| format!("{a}-{b}")).collect::<Vec<_>>().join(",");
        (super::hex(&c), if p.is_empty() { "-".into() } else { p })
    }

    fn unhex(s: &str) -> Vec<u8> {
        if s == "-" {
            return Vec::new();
        }
        (0..s.len() / 2).filter_map(|i| u8::from_str_radix(&s[2 * i..2 * i + 2], 16).ok()).collect()
    }

    fn decode_job(c: &str, p: &str) -> (Vec<[u8; 3]>, Vec<(usize, usize)>) {
        let colours = unhex(c).chunks(3).filter(|c| c.len() == 3).map(|c| [c[0], c[1], c[2]]).collect();
        let pairs = if p == "-" {
            Vec::new()
        } else {
            p.split(',').filter_map(|ab| ab.split_once('-')).filter_map(|(a, b)| Some((a.parse().ok()?, b.parse().ok()?))).collect()
        };
        (colours, pairs)
    }

    /// the same session in a child process of this binary with `SURFNTERM` set
    pub fn session_in_child(idx: usize, plan: &Plan, colours: &[[u8; 3]], pairs: &[(usize, usize)]) -> Result<SessionOut, String> {
        let (c, p) = encode_job(colours, pairs);
        let mut cmd = std::process::Command::new("/proc/self/exe");
        cmd.arg("glue-child").arg(idx.to_string()).arg(c).arg(p);
        cmd.env("SURFNTERM", plan.surfnterm.unwrap_or(""));
        cmd.stdin(std::process::Stdio::null()).stdout(std::process::Stdio::piped()).stderr(std::process::Stdio::null());
        let mut child = cmd.spawn().map_err(|e| format!("child-spawn:{e}"))?;
        let t0 = Instant::now();
        loop {
            match child.try_wait() {
                Ok(Some(_)) => break,
                Ok(None) if t0.elapsed() > Duration::from_secs(40) => {
                    let _ = child.kill();
                    let _ = child.wait();
                    return Err("child-timeout".into());
                }
                Ok(None) => std::thread::sleep(Duration::from_millis(5)),
                Err(e) => return Err(format!("child-wait:{e}")),
            }
        }
        let out = child.wait_with_output().map_err(|e| format!("child-output:{e}"))?;
        let text = String::from_utf8_lossy(&out.stdout);
        let v: serde_json::Value = serde_json::from_str(text.lines().last().unwrap_or("")).map_err(|_| "child-no-answer".to_string())?;
        if let Some(why) = v["inconclusive"].as_str() {
            return Err(why.to_string());
        }
        let reported = match v["reported"].as_str() {
            Some("8bit") => ColorDepth::EightBit,
            Some("gray") => ColorDepth::Gray,
            Some("true") => ColorDepth::TrueColor,
            _ => return Err("child-no-answer".into()),
        };
        let segments = v["segments"].as_array().map(|a| a.iter().map(|s| unhex(s.as_str().unwrap_or("-"))).collect()).unwrap_or_default();
        let probes = v["probes"]
            .as_array()
            .map(|a| a.iter().filter_map(|p| Some([p[0].as_u64()? as u32, p[1].as_u64()? as u32, p[2].as_u64()? as u32])).collect())
            .unwrap_or_default();
        Ok(SessionOut { reported, segments, probes })
    }
}

#[derive(Clone, Copy, Default)]
struct Witness {
    set: bool,
    l: i64,
    rgb: [u8; 3],
}

struct Ctx {
    out: Out,
    t: Tables,
    std: Palette,
    tab: Palette,
    e8: Enc,
    eg: Enc,
    et: Enc,
    seen: Vec<u64>,
    thorough: bool,
    // statistics
    rel_tol: f64,
    drift: f64,
    glue: Option<(String, String)>,
    glue_sessions: u64,
    probes_seen: HashSet<[u32; 3]>,
    glue_inconclusive: u64,
    glue_commands: u64,
    n_colors: u64,
    n_tie: u64,
    n_f32_subopt: u64,
    n_subopt_std: u64,
    subopt_list: Vec<[u8; 3]>,
    max_rel_excess: f64,
    n_cube: u64,
    n_grey: u64,
    gray_levels: [u64; 4],
    // gray monotonicity: per role (fg, bg), per level: min / max exact luma
    gmin: [[Witness; 4]; 2],
    gmax: [[Witness; 4]; 2],
    // pending batches
    batch: Vec<u8>,
    batch_exp: String,
    luma_seen: HashSet<u32>,
    luma_batch: Vec<String>,
    luma_exp: String,
}


impl Ctx {
    /// report an oracle failure; inside a terminal-glue session the input names the session
    fn fail(&mut self, what: &str, mut input: Value, expected: Value, got: Value) {
        match &self.glue {
            Some((plan, reported)) => {
                input["terminal"] = json!(plan);
                input["terminal_reports"] = json!(reported);
                let what = if plan.starts_with("TTYEncoder") {
                    format!("stand-alone encoder {plan}: {what}")
                } else {
                    format!("terminal object on a pty ({plan}, capabilities().depth = {reported}): {what}")
                };
                self.out.fail(&what, input, expected, got);
            }
            None => self.out.fail(what, input, expected, got),
        }
    }

    /// `ColorDepth::from_str` with every documented spelling, `TerminalCaps::default()`, and cross-checks of the
    /// helpers of the `rasterize` crate the oracle relies on against formulas written here
    fn helpers_part(&mut self) {
        // independent table of the documented spellings (case-insensitive, nothing else accepted)
        let table: [(&str, Option<&str>); 22] = [
            ("truecolor", Some("true")), ("TrueColor", Some("true")), ("TRUECOLOR", Some("true")), ("24", Some("true")),
            ("256", Some("8bit")), ("8", Some("8bit")), ("gray", Some("gray")), ("Gray", Some("gray")), ("GRAY", Some("gray")), ("2", Some("gray")),
            (" gray", None), ("gray ", None), ("grey", None), ("", None), ("16", None), ("true", None), ("24bit", None), ("eightbit", None),
            ("0", None), ("1", None), ("gray\n", None), ("２", None),
        ];
        for (text, want) in table {
            let got = match guarded(|| text.parse::<ColorDepth>()) {
                Ok(Ok(d)) => Some(glue::depth_name(d)),
                Ok(Err(_)) => None,
                Err(()) => Some("panic"),
            };
            self.out.case(&format!("depth-parse {text:?}"), want.is_some());
            self.out.hist("depth-spelling");
            self.out.corr(&format!("c20 depth-parse {}", hex(text.as_bytes())), got.unwrap_or("error"));
            if got != want {
                self.fail(
                    "ColorDepth::from_str: a documented spelling of the colour depth is not understood (or an undocumented one is)",
                    json!({"depth": "parse", "role": "setup", "r": 0, "g": 0, "b": 0, "text": text}),
                    json!(want.unwrap_or("error")),
                    json!(got.unwrap_or("error")),
                );
            }
        }
        // the encoder made from default capabilities serves the depth these capabilities name
        let caps = TerminalCaps::default();
        let name = glue::depth_name(caps.depth);
        self.out.hist(&format!("TerminalCaps::default():{name}"));
        let mut enc = Enc { be: Backend::Plain(TTYEncoder::new(caps)), buf: Vec::new() };
        let mut dflt = Enc { be: Backend::Plain(TTYEncoder::default()), buf: Vec::new() };
        let slot = |s: &mut Ctx, e: &mut Enc| match name {
            "8bit" => std::mem::swap(&mut s.e8, e),
            "gray" => std::mem::swap(&mut s.eg, e),
            _ => std::mem::swap(&mut s.et, e),
        };
        for which in 0..2 {
            self.glue = Some((if which == 0 { "TTYEncoder::new(TerminalCaps::default())" } else { "TTYEncoder::default()" }.to_string(), name.to_string()));
            let e = if which == 0 { &mut enc } else { &mut dflt };
            slot(self, e);
            for c in [[0u8, 0, 0], [255, 255, 255], [0x60, 0x50, 0x70], [0x20, 0xc0, 0x40], [0xeb, 0xdb, 0xb2], [0x5f, 0x87, 0xaf]] {
                match name {
                    "8bit" => {
                        self.eight_bit(c[0], c[1], c[2], false);
                    }
                    "gray" => self.gray(c[0], c[1], c[2], false, false),
                    _ => self.true_color(c[0], c[1], c[2], false),
                }
            }
            let e = if which == 0 { &mut enc } else { &mut dflt };
            slot(self, e);
        }
        self.glue = None;
        // every combination of the OTHER capability fields: the reduction is the one of the declared depth
        for (di, depth) in [ColorDepth::EightBit, ColorDepth::Gray, ColorDepth::TrueColor].into_iter().enumerate() {
            for glyphs in [false, true] {
                for kitty_keyboard in [false, true] {
                    let name = ["8bit", "gray", "true"][di];
                    let mut e = Enc { be: Backend::Plain(TTYEncoder::new(TerminalCaps { depth, glyphs, kitty_keyboard })), buf: Vec::new() };
                    self.glue = Some((format!("TTYEncoder::new(TerminalCaps {{ depth: {name}, glyphs: {glyphs}, kitty_keyboard: {kitty_keyboard} }})"), name.to_string()));
                    self.out.hist(&format!("caps:{name}:glyphs={glyphs}:kitty={kitty_keyboard}"));
                    slot_of(self, di, &mut e);
                    let mut x = 0x9E37_79B9_7F4A_7C15u64 ^ ((di as u64) << 8 | (glyphs as u64) << 1 | kitty_keyboard as u64);
                    for k in 0..240u32 {
                        x ^= x << 13;
                        x ^= x >> 7;
                        x ^= x << 17;
                        let c = if k < 6 {
                            [[0u8, 0, 0], [255, 255, 255], [0x60, 0x50, 0x70], [0x20, 0xc0, 0x40], [0xeb, 0xdb, 0xb2], [0x5f, 0x87, 0xaf]][k as usize]
                        } else {
                            [x as u8, (x >> 8) as u8, (x >> 16) as u8]
                        };
                        match di {
                            0 => {
                                self.eight_bit(c[0], c[1], c[2], false);
                            }
                            1 => self.gray(c[0], c[1], c[2], false, false),
                            _ => self.true_color(c[0], c[1], c[2], false),
                        }
                    }
                    slot_of(self, di, &mut e);
                }
            }
        }
        self.glue = None;
        // cross-checks (the `rasterize` crate is outside /repo; the oracle measures with its `distance`, `luma`
        // and sRGB -> linear conversion): formulas written here must agree
        let srgb = |c: u8| -> f64 {
            let s = c as f64 / 255.0;
            if s <= 0.04045 { s / 12.92 } else { ((s + 0.055) / 1.055).powf(2.4) }
        };
        let mut worst = [0f64; 3];
        for v in 0..=255u8 {
            worst[0] = worst[0].max((self.t.lin[v as usize] as f64 - srgb(v)).abs());
        }
        let mut x = 0x2545_F491_4F6C_DD1Du64;
        for _ in 0..20_000 {
            x ^= x << 13;
            x ^= x >> 7;
            x ^= x << 17;
            let (a, b) = ([x as u8, (x >> 8) as u8, (x >> 16) as u8], [(x >> 24) as u8, (x >> 32) as u8, (x >> 40) as u8]);
            let (ca, cb) = (RGBA::new(a[0], a[1], a[2], 255), RGBA::new(b[0], b[1], b[2], 255));
            let luma = 0.2126 * (a[0] as f64 / 255.0) + 0.7152 * (a[1] as f64 / 255.0) + 0.0722 * (a[2] as f64 / 255.0);
            worst[1] = worst[1].max((ca.luma() as f64 - luma).abs());
            let d2: f64 = (0..3).map(|k| (srgb(a[k]) - srgb(b[k])).powi(2)).sum();
            worst[2] = worst[2].max((LinColor::from(ca).distance(LinColor::from(cb)) as f64 - d2.sqrt()).abs());
        }
        self.out.extra("oracle_helper_cross_check", json!({
            "max_abs_difference_srgb_to_linear": worst[0], "max_abs_difference_luma": worst[1], "max_abs_difference_distance": worst[2],
            "bound": 2e-6,
        }));
        if worst.iter().any(|w| *w > 2e-6) {
            self.fail(
                "oracle cross-check: LinColor::from(RGBA) / Color::luma / LinColor::distance differ from the sRGB, Rec.709 luma and Euclidean formulas written in the harness",
                json!({"depth": "cross-check", "role": "setup", "r": 0, "g": 0, "b": 0}),
                json!("all differences <= 2e-6"),
                json!({"srgb_to_linear": worst[0], "luma": worst[1], "distance": worst[2]}),
            );
        }
    }

    /// may this colour be used for correspondence lines under every depth (no decision within rounding)?
    fn glue_ok(&self, c: [u8; 3]) -> bool {
        let (_, t1, t2) = self.tab.best2(self.lin3(c[0], c[1], c[2]));
        let l = RGBA::new(c[0], c[1], c[2], 255).luma() as f64;
        t2 > t1 * (1.0 + TIE_REL) + 1e-13 && ![0.165f64, 0.495, 0.83].iter().any(|m| (l - m).abs() < 1e-5)
    }

    /// One terminal-glue session: the real terminal object on a pty under `plan`; every colour in the three
    /// roles through `FaceModify`, every pair through `Face`.  The bytes the terminal puts on the pty are judged
    /// and compared with the model exactly like the output of a stand-alone encoder of the depth the terminal
    /// REPORTS (`capabilities().depth`).
    fn glue_session(&mut self, idx: usize, plan: &glue::Plan, colours: &[[u8; 3]], pairs: &[(usize, usize)]) {
        let rgba = |c: [u8; 3]| RGBA::new(c[0], c[1], c[2], 255);
        let cmds = glue_cmds(colours, pairs);
        let run = |plan: &glue::Plan| match plan.surfnterm {
            Some(_) => glue::session_in_child(idx, plan, colours, pairs),
            None => glue::session(plan, &cmds),
        };
        // a session that cannot be judged is run again on its own; only if that fails too it is inconclusive
        let mut res = run(plan);
        for _ in 0..2 {
            if res.is_ok() {
                break;
            }
            std::thread::sleep(std::time::Duration::from_millis(300));
            res = run(plan);
        }
        self.glue_sessions += 1;
        let so = match res {
            Ok(so) => so,
            Err(why) => {
                self.glue_inconclusive += 1;
                self.out.hist(&format!("glue:inconclusive:{}", why.split(':').next().unwrap_or("?")));
                return;
            }
        };
        self.glue_commands += cmds.len() as u64;
        let reported_name = glue::depth_name(so.reported);
        self.out.hist(&format!("glue:{}:reports-{}", plan.name, reported_name));
        self.glue = Some((plan.name.to_string(), reported_name.to_string()));
        // the depth the terminal is served with: what the user configured / what the terminal can show
        let depth_ok = plan.allowed.is_empty() || plan.allowed.iter().any(|d| glue::depth_name(*d) == reported_name);
        if !depth_ok {
            let first = colours.first().cloned().unwrap_or([0, 0, 0]);
            self.fail(
                &format!("colour depth chosen by the terminal set-up does not fit the terminal ({})", plan.why),
                json!({"depth": reported_name, "role": "setup", "r": first[0], "g": first[1], "b": first[2]}),
                json!(plan.allowed.iter().map(|d| glue::depth_name(*d)).collect::<Vec<_>>()),
                json!(reported_name),
            );
        }
        // the true-colour probe: the colour the library sets and asks back must not be a palette colour,
        // otherwise a 256-colour terminal that maps direct colours to its palette looks like a true-colour one
        let mut probes = so.probes.clone();
        probes.sort();
        probes.dedup();
        for pr in probes {
            if self.probes_seen.insert(pr) {
                self.out.oracle(&format!("c20 probe-in-palette {} {} {}", pr[0], pr[1], pr[2]), "outside");
                self.out.corr(&format!("c20 probe {} {} {}", pr[0], pr[1], pr[2]), "probe");
            }
        }
        // judged at the depth reported, or - if that depth does not fit the terminal - at the one that does
        let so = glue::SessionOut { reported: if depth_ok { so.reported } else { plan.allowed[0] }, ..so };
        let reported = glue::depth_name(so.reported);
        let n = colours.len() * 3;
        let mut canned = Enc::canned(so.segments[..n].to_vec());
        match so.reported {
            ColorDepth::EightBit => std::mem::swap(&mut self.e8, &mut canned),
            ColorDepth::Gray => std::mem::swap(&mut self.eg, &mut canned),
            ColorDepth::TrueColor => std::mem::swap(&mut self.et, &mut canned),
        }
        for c in colours {
            match so.reported {
                ColorDepth::EightBit => {
                    self.eight_bit(c[0], c[1], c[2], true);
                }
                ColorDepth::Gray => self.gray(c[0], c[1], c[2], true, false),
                ColorDepth::TrueColor => self.true_color(c[0], c[1], c[2], true),
            }
        }
        match so.reported {
            ColorDepth::EightBit => std::mem::swap(&mut self.e8, &mut canned),
            ColorDepth::Gray => std::mem::swap(&mut self.eg, &mut canned),
            ColorDepth::TrueColor => std::mem::swap(&mut self.et, &mut canned),
        }
        // the Face command: `0`, then what the two roles gave on their own (judged above)
        for (k, (f, b)) in pairs.iter().enumerate() {
            let seg = &so.segments[n + k];
            let whole = if seg.as_slice() == glue::ERROR_SEGMENT { None } else { params(seg) };
            let got = canon(seg, &whole);
            let want = match (params(&so.segments[3 * f]), params(&so.segments[3 * b + 1])) {
                (Some(a), Some(bp)) => {
                    let mut v = vec![0u32];
                    v.extend(a);
                    v.extend(bp);
                    Some(v)
                }
                _ => None,
            };
            let (cf, cb) = (colours[*f], colours[*b]);
            if want.is_none() || whole != want {
                self.fail(
                    "Face command does not carry the same colour parameters as the single-role commands (which the oracle judged)",
                    json!({"depth": reported, "role": "face", "r": cf[0], "g": cf[1], "b": cf[2], "bg": cb}),
                    json!(want),
                    json!(got),
                );
            }
            if let (Some(lf), Some(lb)) = (self.luma_int(rgba(cf).luma()), self.luma_int(rgba(cb).luma())) {
                self.out.corr(
                    &format!("c20 face {} {} {} {} {} {} {} {} {}", reported, cf[0], cf[1], cf[2], cb[0], cb[1], cb[2], lf, lb),
                    &got,
                );
            }
        }
        self.glue = None;
    }

    /// the terminal-glue part: `rounds` sessions per plan with `n` colours each
    fn glue_part(&mut self, rng: &mut Rng, rounds: usize, n: usize, only: Option<(&str, Vec<[u8; 3]>)>) {
        if let Some((plan_name, colours)) = only {
            for (idx, plan) in glue::plans().iter().enumerate().filter(|(_, p)| p.name == plan_name) {
                let pairs: Vec<(usize, usize)> = (0..colours.len()).map(|i| (i, (i + 1) % colours.len())).collect();
                self.glue_session(idx, plan, &colours, &pairs);
            }
            return;
        }
        let fixed: [[u8; 3]; 12] = [
            [0, 0, 0], [255, 255, 255], [0x28, 0x28, 0x28], [0x60, 0x50, 0x70], [0x20, 0xc0, 0x40], [0xeb, 0xdb, 0xb2],
            [0x7f, 0x7f, 0x7f], [0xd4, 0xd4, 0xd4], [0x2a, 0x2a, 0x30], [0x00, 0xb1, 0x00], [0xff, 0x00, 0x00], [0x5f, 0x87, 0xaf],
        ];
        for round in 0..rounds {
            for (idx, plan) in glue::plans().iter().enumerate() {
                let mut colours: Vec<[u8; 3]> = if round == 0 { fixed.to_vec() } else { Vec::new() };
                while colours.len() < n {
                    colours.push([rng.below(256) as u8, rng.below(256) as u8, rng.below(256) as u8]);
                }
                colours.retain(|c| self.glue_ok(*c));
                colours.truncate(n);
                if colours.is_empty() {
                    continue;
                }
                let pairs: Vec<(usize, usize)> =
                    (0..colours.len()).map(|i| (i, rng.below(colours.len() as u64) as usize)).collect();
                self.glue_session(idx, plan, &colours, &pairs);
            }
        }
    }

    fn lin3(&self, r: u8, g: u8, b: u8) -> [f32; 3] {
        [self.t.lin[r as usize], self.t.lin[g as usize], self.t.lin[b as usize]]
    }

    /// library distance of colour `c` to palette entry `e`
    fn lib_dist(&self, c: LinColor, pal: &Palette, e: usize) -> f64 {
        c.distance(pal.lin_color(e)) as f64
    }

    /// exact (integer) check: is `index` a minimiser of the squared distance over the table palette?
    fn exact_is_min(&self, c3: [f32; 3], index: u32) -> bool {
        let k = self.t.k;
        let s = |v: f32| scaled(v.to_bits(), k).unwrap_or(0);
        let c = [s(c3[0]), s(c3[1]), s(c3[2])];
        if k > 58 {
            return true; // squares would not fit i128; cannot happen for f32 values in [2^-12, 1]
        }
        let d2 = |e: usize| -> i128 {
            let p = self.tab.col[e];
            let p = [s(p[0]), s(p[1]), s(p[2])];
            (0..3).map(|i| (c[i] - p[i]) * (c[i] - p[i])).sum()
        };
        let best = (0..self.tab.col.len()).map(d2).min().unwrap_or(0);
        match self.tab.entry_of(index) {
            Some(e) => d2(e) == best,
            None => false,
        }
    }

    /// judge one emitted palette index for colour (r, g, b): the property oracle
    fn judge_index(&mut self, r: u8, g: u8, b: u8, role: usize, index: u32, best_std: (usize, f64, f64)) {
        let rgba = RGBA::new(r, g, b, 255);
        let c = LinColor::from(rgba);
        let input = json!({"depth": "8bit", "role": ROLES[role], "r": r, "g": g, "b": b});
        let Some(e) = self.std.entry_of(index) else {
            self.fail(
                "256-colour index outside the 240 non-system palette entries",
                input,
                json!("index in 16..=255"),
                json!(index),
            );
            return;
        };
        let c3 = self.lin3(r, g, b);
        // candidates for the minimum under the library metric: everything within 1% (squared) of the f64 best
        let lim = best_std.1 * 1.01 + 1e-12;
        let mut d_best = f64::INFINITY;
        let mut e_best = best_std.0;
        for cand in 0..self.std.col.len() {
            if self.std.d2(cand, c3) <= lim {
                let d = self.lib_dist(c, &self.std, cand);
                if d < d_best {
                    d_best = d;
                    e_best = cand;
                }
            }
        }
        let d_chosen = self.lib_dist(c, &self.std, e);
        if d_chosen > d_best && d_chosen <= d_best * (1.0 + self.rel_tol) + 1e-7 {
            self.n_subopt_std += 1;
            if self.subopt_list.len() < 64 {
                self.subopt_list.push([r, g, b]);
            }
        }
        if d_best > 0.0 {
            let ex = d_chosen / d_best - 1.0;
            if ex > self.max_rel_excess && ex <= self.rel_tol {
                self.max_rel_excess = ex;
            }
        }
        if d_chosen > d_best * (1.0 + self.rel_tol) + 1e-7 {
            self.fail(
                if self.rel_tol == REL_TOL {
                    "256-colour palette entry is not the closest one (LinColor::distance, tolerance 1e-3)"
                } else {
                    "256-colour palette entry is not the closest one: choice changed by a table constant that is off its sRGB value (tolerance 1e-5)"
                },
                input,
                json!({"index": self.std.idx[e_best], "distance": d_best}),
                json!({"index": index, "distance": d_chosen}),
            );
        }
    }

    fn flush_batch(&mut self) {
        if !self.batch.is_empty() {
            let req = format!("c20 idx8 {}", hex(&self.batch));
            let exp = std::mem::take(&mut self.batch_exp);
            self.out.corr(&req, &exp);
            self.batch.clear();
        }
    }

    fn flush_luma(&mut self) {
        if !self.luma_batch.is_empty() {
            let req = format!("c20 graylv {}", self.luma_batch.join(","));
            let exp = std::mem::take(&mut self.luma_exp);
            self.out.corr(&req, &exp);
            self.luma_batch.clear();
        }
    }

    fn luma_int(&self, luma: f32) -> Option<i128> {
        scaled(luma.to_bits(), self.t.k)
    }

    /// EightBit depth for one colour. Returns (fg index as 2 hex chars or "??", masked?)
    fn eight_bit(&mut self, r: u8, g: u8, b: u8, sample: bool) -> (String, bool) {
        let rgba = RGBA::new(r, g, b, 255);
        let c3 = self.lin3(r, g, b);
        debug_assert!({
            let c = LinColor::from(rgba);
            c.red().to_bits() == c3[0].to_bits() && c.green().to_bits() == c3[1].to_bits() && c.blue().to_bits() == c3[2].to_bits()
        });
        let best_std = self.std.best2(c3);
        let (_, t1, t2) = self.tab.best2(c3);
        let masked = t2 <= t1 * (1.0 + TIE_REL) + 1e-13;
        let mut idxs: [Option<u32>; 3] = [None; 3];
        let mut judged: [Option<u32>; 3] = [None; 3];
        let mut canon_s: [String; 3] = Default::default();
        for role in 0..3 {
            let p = self.e8.role(rgba, role);
            canon_s[role] = canon(&self.e8.buf, &p);
            match &p {
                Some(v) if v.len() == 3 && v[0] == ROLE_CODE[role] && v[1] == 5 => {
                    idxs[role] = Some(v[2]);
                    if !judged.contains(&Some(v[2])) {
                        self.judge_index(r, g, b, role, v[2], best_std);
                        judged[role] = Some(v[2]);
                    }
                }
                _ => {
                    self.fail(
                        "256-colour depth: SGR parameters are not `<38|48|58>;5;<index>` with the selector of the role",
                        json!({"depth": "8bit", "role": ROLES[role], "r": r, "g": g, "b": b}),
                        json!(format!("{};5;<index>", ROLE_CODE[role])),
                        json!(canon_s[role]),
                    );
                }
            }
        }
        let fg_hex = match idxs[0] {
            Some(i) if i < 256 => format!("{:02x}", i),
            _ => "??".to_string(),
        };
        match idxs[0] {
            Some(i) if i >= 232 => self.n_grey += 1,
            _ => self.n_cube += 1,
        }
        if masked {
            self.n_tie += 1;
            if let Some(i) = idxs[0] {
                if !self.exact_is_min(c3, i) {
                    self.n_f32_subopt += 1;
                }
            }
        } else {
            // roles whose answer differs from the fg answer get their own correspondence line
            for role in 1..3 {
                if idxs[role] != idxs[0] || sample {
                    self.out.corr(&format!("c20 sgr 8bit {} {} {} {} 0", ROLES[role], r, g, b), &canon_s[role]);
                }
            }
            if sample {
                self.out.corr(&format!("c20 sgr 8bit fg {} {} {} 0", r, g, b), &canon_s[0]);
            }
        }
        let key = format!("{:02x}{:02x}{:02x}", r, g, b);
        self.out.case(&key, best_std.1 > 0.0);
        self.out.hist(if masked {
            "8bit:tie-within-rounding"
        } else if fg_hex.as_str() >= "e8" && fg_hex != "??" {
            "8bit:grey-ramp"
        } else {
            "8bit:cube"
        });
        (fg_hex, masked)
    }

    /// TrueColor depth for one colour: the bytes carry exactly r;g;b
    fn true_color(&mut self, r: u8, g: u8, b: u8, sample: bool) {
        let rgba = RGBA::new(r, g, b, 255);
        for role in 0..3 {
            let p = self.et.role(rgba, role);
            let want = vec![ROLE_CODE[role], 2, r as u32, g as u32, b as u32];
            let got = canon(&self.et.buf, &p);
            if p.as_ref() != Some(&want) {
                self.fail(
                    "true-colour depth: colour is not transmitted unchanged",
                    json!({"depth": "true", "role": ROLES[role], "r": r, "g": g, "b": b}),
                    json!(format!("{};2;{};{};{}", ROLE_CODE[role], r, g, b)),
                    json!(got),
                );
            }
            if sample {
                self.out.corr(&format!("c20 sgr true {} {} {} {} 0", ROLES[role], r, g, b), &got);
            }
        }
    }

    /// Gray depth for one colour
    fn gray(&mut self, r: u8, g: u8, b: u8, sample: bool, luma_corr: bool) {
        let rgba = RGBA::new(r, g, b, 255);
        let luma = rgba.luma();
        // luminance = the library's own `Color::luma` (public trait); order key = its bit pattern
        let li = luma.to_bits() as i64;
        let le = luma as f64;
        let nearest_d = GRAY_NOMINAL.iter().map(|l| (le - l).abs()).fold(f64::INFINITY, f64::min);
        let lint = self.luma_int(luma);
        // within rounding of a decision point of the f32 table?
        let lv32 = [0.0f32, 0.33, 0.66, 1.0];
        let near_mid = (0..3).any(|i| {
            let m = (lv32[i] as f64 + lv32[i + 1] as f64) / 2.0;
            (luma as f64 - m).abs() <= 1e-6
        });
        let mut fg_level: Option<usize> = None;
        for role in 0..3 {
            let p = self.eg.role(rgba, role);
            let got = canon(&self.eg.buf, &p);
            if role < 2 {
                let level = match &p {
                    Some(v) if v.len() == 1 => GRAY_CODES.iter().position(|c| c + 10 * role as u32 == v[0]),
                    _ => None,
                };
                match level {
                    None => self.fail(
                        "grey depth: SGR parameter is not one of the four grey levels of the role",
                        json!({"depth": "gray", "role": ROLES[role], "r": r, "g": g, "b": b}),
                        json!(if role == 0 { "30|90|37|97" } else { "40|100|47|107" }),
                        json!(got),
                    ),
                    Some(lv) => {
                        if role == 0 {
                            fg_level = Some(lv);
                            self.gray_levels[lv] += 1;
                        }
                        if (le - GRAY_NOMINAL[lv]).abs() > nearest_d + 1e-6 {
                            let want = (0..4).find(|j| (le - GRAY_NOMINAL[*j]).abs() == nearest_d).unwrap_or(0);
                            self.fail(
                                "grey depth: selected level is not the nearest of the four (0, .33, .66, 1) by the library's luma()",
                                json!({"depth": "gray", "role": ROLES[role], "r": r, "g": g, "b": b}),
                                json!({"level": want, "code": GRAY_CODES[want] + 10 * role as u32}),
                                json!({"level": lv, "code": got}),
                            );
                        }
                        let w = Witness { set: true, l: li, rgb: [r, g, b] };
                        if !self.gmin[role][lv].set || li < self.gmin[role][lv].l {
                            self.gmin[role][lv] = w;
                        }
                        if !self.gmax[role][lv].set || li > self.gmax[role][lv].l {
                            self.gmax[role][lv] = w;
                        }
                    }
                }
            }
            if role == 2 {
                // there is no underline-colour code among the four grey levels: nothing may be selected
                let eff = interpret(&self.eg.buf);
                if eff != Some(Eff::default()) {
                    self.fail(
                        "grey depth: an underline colour must select nothing (no colour code exists for it among the four grey levels), but the parameters change a colour selection",
                        json!({"depth": "gray", "role": "ul", "r": r, "g": g, "b": b}),
                        json!("no parameters"),
                        json!({"parameters": got, "selects": eff.map(|e| e.show())}),
                    );
                }
            }
            if (sample || (role == 2 && got != "-")) && !near_mid {
                if let Some(l) = lint {
                    self.out.corr(&format!("c20 sgr gray {} {} {} {} {}", ROLES[role], r, g, b, l), &got);
                }
            }
        }
        if luma_corr && !near_mid {
            if let (Some(l), true) = (lint, self.luma_seen.insert(luma.to_bits())) {
                self.luma_batch.push(l.to_string());
                self.luma_exp.push(match fg_level {
                    Some(lv) => (b'0' + lv as u8) as char,
                    None => '?',
                });
                if self.luma_batch.len() >= 200 {
                    self.flush_luma();
                }
            }
        }
    }

    /// `TerminalCommand::Face` path (fg + bg in one sequence) under every depth
    fn face_path(&mut self, fg: [u8; 3], bg: [u8; 3], ul: [u8; 3]) {
        let cu = RGBA::new(ul[0], ul[1], ul[2], 255);
        let cf = RGBA::new(fg[0], fg[1], fg[2], 255);
        let cb = RGBA::new(bg[0], bg[1], bg[2], 255);
        let face = Face { fg: Some(cf), bg: Some(cb), attrs: FaceAttrs::EMPTY };
        let masked = |s: &Ctx, c: [u8; 3]| {
            let (_, t1, t2) = s.tab.best2(s.lin3(c[0], c[1], c[2]));
            t2 <= t1 * (1.0 + TIE_REL) + 1e-13
        };
        let any_masked = masked(self, fg) || masked(self, bg);
        let ul_masked = masked(self, ul);
        let straight = (fg[0] ^ bg[1] ^ ul[2]) & 1 == 0;
        for depth in 0..3 {
            // expected: `0` followed by what the two roles give on their own
            let (name, e) = match depth {
                0 => ("8bit", &mut self.e8),
                1 => ("gray", &mut self.eg),
                _ => ("true", &mut self.et),
            };
            let pf = e.role(cf, 0);
            let eff_f = interpret(&e.buf);
            let pb = e.role(cb, 1);
            let eff_b = interpret(&e.buf);
            e.role(cu, 2);
            let eff_u = interpret(&e.buf);
            // fg + bg + underline colour in ONE FaceModify: what is in effect afterwards, per role?
            let fm = FaceModify {
                fg: Some(cf),
                bg: Some(cb),
                underline: if straight { Some(UnderlineStyle::Straight) } else { None },
                underline_color: Some(cu),
                ..fm_none()
            };
            let whole_fm = e.run(TerminalCommand::FaceModify(fm));
            let got_fm = canon(&e.buf, &whole_fm);
            let eff_fm = interpret(&e.buf);
            let whole = e.run(TerminalCommand::Face(face));
            let got = canon(&e.buf, &whole);
            let eff_face = interpret(&e.buf);
            let face_bytes = e.buf.clone();
            // state: a fresh encoder gives the same bytes as the one that has served the whole stream
            let mut fresh = Enc::new(match depth {
                0 => ColorDepth::EightBit,
                1 => ColorDepth::Gray,
                _ => ColorDepth::TrueColor,
            });
            fresh.run(TerminalCommand::Face(face));
            let fresh_face = fresh.buf.clone();
            fresh.run(TerminalCommand::FaceModify(fm));
            let fresh_fm_differs = canon(&fresh.buf, &params(&fresh.buf)) != got_fm;
            // other commands on the same encoder in between (their output is not judged here)
            if (fg[1] ^ ul[0]) & 7 == 0 {
                for cmd in [
                    TerminalCommand::CursorTo(surf_n_term::Position { row: fg[0] as usize, col: bg[0] as usize }),
                    TerminalCommand::EraseLine,
                    TerminalCommand::DecModeSet { enable: fg[2] & 1 == 0, mode: surf_n_term::DecMode::AltScreen },
                    TerminalCommand::Char('x'),
                ] {
                    e.run(cmd);
                }
            }
            // the same colours with attributes, a reset and flags around them: as a terminal reads the result,
            // the colour selections are the same
            let attrs = [FaceAttrs::BOLD, FaceAttrs::UNDERLINE_CURLY | FaceAttrs::ITALIC, FaceAttrs::STRIKE | FaceAttrs::REVERSE | FaceAttrs::BLINK,
                         FaceAttrs::UNDERLINE | FaceAttrs::BOLD, FaceAttrs::UNDERLINE_DASHED][(fg[0] as usize + bg[2] as usize) % 5];
            e.run(TerminalCommand::Face(Face { fg: Some(cf), bg: Some(cb), attrs }));
            let eff_face_attrs = interpret(&e.buf);
            let face_attrs_s = canon(&e.buf, &params(&e.buf));
            let fm_x = FaceModify {
                reset: ul[1] & 1 == 0,
                bold: if ul[1] & 2 == 0 { Some(bg[0] & 1 == 0) } else { None },
                italic: if ul[1] & 4 == 0 { Some(true) } else { None },
                strike: if ul[1] & 8 == 0 { Some(false) } else { None },
                underline: Some([UnderlineStyle::None, UnderlineStyle::Double, UnderlineStyle::Dotted][ul[0] as usize % 3]),
                ..fm
            };
            e.run(TerminalCommand::FaceModify(fm_x));
            let eff_fm_x = interpret(&e.buf);
            let fm_x_s = canon(&e.buf, &params(&e.buf));
            let want = match (pf, pb) {
                (Some(a), Some(b)) => {
                    let mut v = vec![0u32];
                    v.extend(a);
                    v.extend(b);
                    Some(v)
                }
                _ => None,
            };
            if want.is_none() || whole != want {
                self.fail(
                    "Face command does not carry the same colour parameters as the single-role commands (which the oracle judged)",
                    json!({"depth": name, "role": "face", "r": fg[0], "g": fg[1], "b": fg[2], "bg": bg}),
                    json!(want),
                    json!(got),
                );
            }
            // terminal interpretation (last selection wins): per role, the selection in effect must be the one
            // the role's colour gets on its own - those were judged by the oracles of the single roles
            if let (Some(f), Some(b), Some(u)) = (eff_f, eff_b, eff_u) {
                let want_fm = Eff { fg: f.fg, bg: b.bg, ul: u.ul };
                if eff_fm != Some(want_fm) {
                    self.fail(
                        "FaceModify with foreground, background and underline colour: the selection in effect (as a terminal reads the parameters, last selection wins) is not, for every role, the reduction of the colour requested for that role",
                        json!({"depth": name, "role": "fmod", "r": fg[0], "g": fg[1], "b": fg[2], "bg": bg, "ul": ul, "underline": straight}),
                        json!(want_fm.show()),
                        json!({"parameters": got_fm, "selects": eff_fm.map(|e| e.show())}),
                    );
                }
                let want_face = Eff { fg: f.fg, bg: b.bg, ul: None };
                if eff_face != Some(want_face) {
                    self.fail(
                        "Face command: the selection in effect (as a terminal reads the parameters) is not, for every role, the reduction of the colour requested for that role",
                        json!({"depth": name, "role": "face", "r": fg[0], "g": fg[1], "b": fg[2], "bg": bg}),
                        json!(want_face.show()),
                        json!({"parameters": got, "selects": eff_face.map(|e| e.show())}),
                    );
                }
            }
            if fresh_face != face_bytes || fresh_fm_differs {
                self.fail(
                    "state carried in the encoder: a fresh encoder of the same depth writes different colour parameters than the encoder that served the stream so far",
                    json!({"depth": name, "role": "face", "r": fg[0], "g": fg[1], "b": fg[2], "bg": bg, "ul": ul}),
                    json!(canon(&fresh_face, &params(&fresh_face))),
                    json!(got),
                );
            }
            if let (Some(f), Some(b), Some(u)) = (eff_f, eff_b, eff_u) {
                let want = Eff { fg: f.fg, bg: b.bg, ul: None };
                if eff_face_attrs != Some(want) {
                    self.fail(
                        "Face command with attributes: the colour selection in effect (as a terminal reads the parameters) is not, for every role, the reduction of the colour requested for that role",
                        json!({"depth": name, "role": "face", "r": fg[0], "g": fg[1], "b": fg[2], "bg": bg, "ul": ul}),
                        json!(want.show()),
                        json!({"parameters": face_attrs_s, "selects": eff_face_attrs.map(|e| e.show())}),
                    );
                }
                let want = Eff { fg: f.fg, bg: b.bg, ul: u.ul };
                if eff_fm_x != Some(want) {
                    self.fail(
                        "FaceModify with reset / flags / underline style around the colours: the colour selection in effect is not, for every role, the reduction of the colour requested for that role",
                        json!({"depth": name, "role": "fmod", "r": fg[0], "g": fg[1], "b": fg[2], "bg": bg, "ul": ul}),
                        json!(want.show()),
                        json!({"parameters": fm_x_s, "selects": eff_fm_x.map(|e| e.show())}),
                    );
                }
            }
            let near = |c: RGBA| {
                let l = c.luma() as f64;
                [0.165f64, 0.495, 0.83].iter().any(|m| (l - m).abs() < 1e-5)
            };
            if !(depth == 0 && (any_masked || ul_masked)) && !(depth == 1 && (near(cf) || near(cb) || near(cu))) {
                if let (Some(lf), Some(lb), Some(lu)) = (self.luma_int(cf.luma()), self.luma_int(cb.luma()), self.luma_int(cu.luma())) {
                    self.out.corr(
                        &format!(
                            "c20 fmod {} {} {} {} {} {} {} {} {} {} {} {} {} {}",
                            name, fg[0], fg[1], fg[2], bg[0], bg[1], bg[2], ul[0], ul[1], ul[2], lf, lb, lu, straight as u8
                        ),
                        &got_fm,
                    );
                }
            }
            if !(depth == 0 && any_masked) && !(depth == 1 && (near(cf) || near(cb))) {
                if let (Some(lf), Some(lb)) = (self.luma_int(cf.luma()), self.luma_int(cb.luma())) {
                    self.out.corr(
                        &format!("c20 face {} {} {} {} {} {} {} {} {}", name, fg[0], fg[1], fg[2], bg[0], bg[1], bg[2], lf, lb),
                        &got,
                    );
                }
            }
        }
    }

    /// all depths for one colour (quick-tier sets and replay)
    fn colour(&mut self, r: u8, g: u8, b: u8) {
        let id = ((r as usize) << 16) | ((g as usize) << 8) | b as usize;
        if self.seen[id >> 6] >> (id & 63) & 1 == 1 {
            return;
        }
        self.seen[id >> 6] |= 1 << (id & 63);
        self.n_colors += 1;
        let sample = id.wrapping_mul(0x9E37_79B1) >> 7 & 15 == 0;
        let (fg_hex, masked) = self.eight_bit(r, g, b, sample);
        if !masked {
            self.batch.extend([r, g, b]);
            self.batch_exp.push_str(&fg_hex);
            if self.batch.len() >= 3 * 128 {
                self.flush_batch();
            }
        }
        self.true_color(r, g, b, sample);
        self.gray(r, g, b, sample, true);
        if self.out.evaluations % 50_021 == 1 {
            self.out.sample(json!({"r": r, "g": g, "b": b, "index8": fg_hex, "tie_within_rounding": masked}));
        }
    }

    /// thorough tier: one (r, g) row of 256 colours, one `row8` request
    fn row(&mut self, r: u8, g: u8) {
        let mut skip = Vec::new();
        let mut exp = String::with_capacity(512);
        for b in 0..=255u8 {
            let id = ((r as usize) << 16) | ((g as usize) << 8) | b as usize;
            self.seen[id >> 6] |= 1 << (id & 63);
            self.n_colors += 1;
            let sample = id.wrapping_mul(0x9E37_79B1) >> 7 & 255 == 0;
            let (fg_hex, masked) = self.eight_bit(r, g, b, sample);
            if masked {
                skip.push(b);
            } else {
                exp.push_str(&fg_hex);
            }
            self.true_color(r, g, b, sample);
            let l = RGBA::new(r, g, b, 255).luma() as f64;
            let band = [0.165f64, 0.495, 0.83].iter().any(|m| (l - m).abs() < 2e-3);
            self.gray(r, g, b, sample, band || sample);
            if self.out.evaluations % 1_000_003 == 1 {
                self.out.sample(json!({"r": r, "g": g, "b": b, "index8": fg_hex, "tie_within_rounding": masked}));
            }
        }
        if exp.is_empty() {
            exp.push('-');
        }
        self.out.corr(&format!("c20 row8 {} {} {}", r, g, hex(&skip)), &exp);
    }

    /// monotonicity of the grey level in luma, over everything evaluated
    fn gray_monotone(&mut self) {
        // order only: a colour with a strictly larger library luma() must not get a lower level
        for role in 0..2 {
            for lo in 0..4 {
                for hi in lo + 1..4 {
                    let (a, b) = (self.gmax[role][lo], self.gmin[role][hi]);
                    if a.set && b.set && a.l > b.l {
                        self.fail(
                            "grey depth: level is not monotone in luma",
                            json!({"depth": "gray", "role": ROLES[role], "r": a.rgb[0], "g": a.rgb[1], "b": a.rgb[2],
                                   "other": b.rgb, "luma": f32::from_bits(a.l as u32), "other_luma": f32::from_bits(b.l as u32)}),
                            json!(format!("level of the brighter colour >= {hi}")),
                            json!(format!("brighter colour got level {lo}, darker colour level {hi}")),
                        );
                    }
                }
            }
        }
    }

    /// the private `nearest` on small exactly representable tables (ties, ends, empty table) and on the real tables
    fn nearest_cases(&mut self, rng: &mut Rng, n: u64) {
        let mut seen = HashSet::new();
        let mut one = |ctx: &mut Ctx, v: i64, t: &[i64], scale: f32| {
            let tf: Vec<f32> = t.iter().map(|x| *x as f32 * scale).collect();
            let got = match guarded(|| verif_c20::nearest(v as f32 * scale, &tf)) {
                Ok(i) => format!("some {i}"),
                Err(()) => "panic".to_string(),
            };
            let ts = if t.is_empty() { "-".to_string() } else { t.iter().map(|x| x.to_string()).collect::<Vec<_>>().join(",") };
            let req = format!("c20 nearest {v} {ts}");
            ctx.out.case(&req, t.len() > 1);
            ctx.out.hist("nearest:small-exact-table");
            if seen.insert(req.clone()) {
                ctx.out.corr(&req, &got);
            }
        };
        for v in -2..=6 {
            one(self, v, &[], 1.0);
            one(self, v, &[2], 1.0);
            one(self, v, &[0, 4], 1.0);
            one(self, v, &[0, 2, 4], 0.25);
            one(self, v, &[0, 1, 3, 4], 0.5);
            one(self, v, &[0, 2, 3, 5, 6], 1.0);
        }
        for _ in 0..n {
            let len = rng.below(9) as usize;
            let mut t: Vec<i64> = Vec::new();
            let mut x = rng.range(-8, 8);
            for _ in 0..len {
                t.push(x);
                x += 1 + rng.below(6) as i64;
            }
            let v = match rng.below(4) {
                0 if !t.is_empty() => *rng.pick(&t),
                1 if t.len() > 1 => {
                    // twice the midpoint, halved below by the scale
                    let i = rng.below(t.len() as u64 - 1) as usize;
                    t[i] + t[i + 1]
                }
                _ => rng.range(-12, x + 4),
            };
            if rng.chance(1, 2) {
                // half-unit grid: table doubled, v as is (midpoints become representable)
                let t2: Vec<i64> = t.iter().map(|a| 2 * a).collect();
                one(self, v, &t2, 0.5);
            } else {
                one(self, v, &t, 1.0);
            }
        }
        // the real tables with every linear value (decisions within rounding left out)
        let k = self.t.k;
        for (name, tab) in [("cube", self.t.cube.clone()), ("greys", self.t.greys.clone())] {
            let ts: Vec<String> = tab.iter().map(|x| scaled(x.to_bits(), k).unwrap_or(0).to_string()).collect();
            for v in self.t.lin.clone() {
                let close = tab.windows(2).any(|w| {
                    let (lo, hi, x) = (w[0] as f64, w[1] as f64, v as f64);
                    x > lo && x < hi && ((x - lo) - (hi - x)).abs() <= 1e-6 * (hi - lo)
                });
                if close {
                    continue;
                }
                let got = match guarded(|| verif_c20::nearest(v, &tab)) {
                    Ok(i) => format!("some {i}"),
                    Err(()) => "panic".to_string(),
                };
                let req = format!("c20 nearest {} {}", scaled(v.to_bits(), k).unwrap_or(0), ts.join(","));
                self.out.case(&req, true);
                self.out.hist(&format!("nearest:{name}"));
                self.out.corr(&req, &got);
            }
        }
    }
}

/// bytes whose linear value is adjacent to a decision point (midpoint) of `tab`, plus the nearest bytes to the entries
fn boundary_bytes(lin: &[f32], tab: &[f32], exact: &[f64]) -> Vec<u8> {
    let mut res = Vec::new();
    let mut marks: Vec<f64> = tab.iter().map(|x| *x as f64).collect();
    marks.extend(tab.windows(2).map(|w| (w[0] as f64 + w[1] as f64) / 2.0));
    // ... and of the exact sRGB palette (differs from `tab` only when a constant drifted)
    marks.extend(exact.windows(2).map(|w| (w[0] + w[1]) / 2.0));
    for m in marks {
        let p = lin.partition_point(|x| (*x as f64) < m) as i64;
        for d in -2..=1 {
            let v = p + d;
            if (0..256).contains(&v) {
                res.push(v as u8);
            }
        }
    }
    res.extend([0, 1, 254, 255]);
    res.sort();
    res.dedup();
    res
}

fn main() {
    let args: Vec<String> = std::env::args().collect();
    if args.len() >= 5 && args[1] == "glue-child" {
        verif_harness::silence_panics();
        glue::child_main(&args[2..], glue_cmds);
        return;
    }
    // the override is read once per process: this process must not have one (sessions with it run in children)
    unsafe { std::env::remove_var("SURFNTERM") };
    let cfg = Cfg::from_env();
    verif_harness::silence_panics();
    let t = Tables::read();
    if let Some(names) = &cfg.tables {
        for n in names {
            assert_eq!(n, "ColorTables", "unknown table {n}");
            std::fs::write(cfg.outdir.join("ColorTables.lean"), t.lean()).unwrap();
        }
        return;
    }
    let out = cfg.out();
    let mut rng = Rng::new(cfg.seed);
    let std_p = Palette::standard();
    let tab_p = Palette::from_tables(&t);
    // exact sRGB -> linear images of the palette levels; drift of the implementation's constants from them
    let srgb = |c: u8| -> f64 {
        let s = c as f64 / 255.0;
        if s <= 0.04045 { s / 12.92 } else { ((s + 0.055) / 1.055).powf(2.4) }
    };
    let exact_cube: Vec<f64> = STD_CUBE.iter().map(|c| srgb(*c)).collect();
    let exact_greys: Vec<f64> = (0..24u32).map(|i| srgb((8 + 10 * i) as u8)).collect();
    let drift_of = |tab: &[f32], exact: &[f64]| -> f64 {
        if tab.len() != exact.len() {
            return f64::INFINITY;
        }
        tab.iter().zip(exact).map(|(a, b)| (*a as f64 - b).abs()).fold(0.0, f64::max)
    };
    let drift = drift_of(&t.cube, &exact_cube).max(drift_of(&t.greys, &exact_greys));
    let rel_tol = if drift > DRIFT_LIMIT { REL_TOL_DRIFT } else { REL_TOL };
    let bc = boundary_bytes(&t.lin, &t.cube, &exact_cube);
    let bg = boundary_bytes(&t.lin, &t.greys, &exact_greys);
    let mut ctx = Ctx {
        out,
        std: std_p,
        tab: tab_p,
        t,
        e8: Enc::new(ColorDepth::EightBit),
        eg: Enc::new(ColorDepth::Gray),
        et: Enc::new(ColorDepth::TrueColor),
        seen: vec![0u64; 1 << 18],
        thorough: cfg.thorough,
        rel_tol,
        drift,
        glue: None,
        glue_sessions: 0,
        probes_seen: HashSet::new(),
        glue_inconclusive: 0,
        glue_commands: 0,
        n_colors: 0,
        n_tie: 0,
        n_f32_subopt: 0,
        n_subopt_std: 0,
        subopt_list: Vec::new(),
        max_rel_excess: 0.0,
        n_cube: 0,
        n_grey: 0,
        gray_levels: [0; 4],
        gmin: Default::default(),
        gmax: Default::default(),
        batch: Vec::new(),
        batch_exp: String::new(),
        luma_seen: HashSet::new(),
        luma_batch: Vec::new(),
        luma_exp: String::new(),
    };

    if let Some(rep) = &cfg.replay {
        let inp = &rep["failure"]["input"];
        let get = |v: &Value| v.as_u64().unwrap_or(0) as u8;
        if (inp["role"].as_str() == Some("setup") && inp["terminal"].is_null())
            || inp["terminal"].as_str().is_some_and(|t| t.starts_with("TTYEncoder"))
        {
            ctx.helpers_part();
        }
        if let Some(plan) = inp["terminal"].as_str() {
            let mut colours = vec![[get(&inp["r"]), get(&inp["g"]), get(&inp["b"])]];
            for key in ["other", "bg"] {
                if let Some(o) = inp[key].as_array().filter(|o| o.len() == 3) {
                    colours.push([get(&o[0]), get(&o[1]), get(&o[2])]);
                }
            }
            ctx.glue_part(&mut rng, 0, 0, Some((plan, colours)));
        }
        ctx.colour(get(&inp["r"]), get(&inp["g"]), get(&inp["b"]));
        if let Some(o) = inp["other"].as_array() {
            if o.len() == 3 {
                ctx.colour(get(&o[0]), get(&o[1]), get(&o[2]));
            }
        }
        if let Some(o) = inp["bg"].as_array() {
            if o.len() == 3 {
                let u = match inp["ul"].as_array().filter(|u| u.len() == 3) {
                    Some(u) => [get(&u[0]), get(&u[1]), get(&u[2])],
                    None => [get(&o[2]), get(&inp["r"]), get(&o[0])],
                };
                ctx.face_path([get(&inp["r"]), get(&inp["g"]), get(&inp["b"])], [get(&o[0]), get(&o[1]), get(&o[2])], u);
            }
        }
        ctx.flush_batch();
        ctx.flush_luma();
        ctx.gray_monotone();
        ctx.out.finish("replay of one colour under every depth and role");
        return;
    }

    // 0. the private `nearest` on its own
    ctx.nearest_cases(&mut rng, if cfg.thorough { 60_000 } else { 6_000 });

    // 0a. helpers around the mechanism
    ctx.helpers_part();

    // 0b. terminal glue: the real terminal object on a pty, for every detection path
    if cfg.thorough {
        ctx.glue_part(&mut rng, 8, 40, None);
    } else {
        ctx.glue_part(&mut rng, 1, 12, None);
    }

    // 1. white-box corner cases: palette colours themselves, extremes, the Face path
    let mut corners: Vec<[u8; 3]> = Vec::new();
    for r in STD_CUBE {
        for g in STD_CUBE {
            for b in STD_CUBE {
                corners.push([r, g, b]);
            }
        }
    }
    for i in 0..24u32 {
        let v = (8 + 10 * i) as u8;
        corners.push([v, v, v]);
    }
    for v in 0..=255u8 {
        corners.push([v, v, v]);
    }
    for c in PINNED_NEAR_TIES {
        corners.push([(c >> 16) as u8, (c >> 8) as u8, c as u8]);
    }
    if !cfg.thorough {
        // (the thorough sweep below reaches them in row order)
        for c in &corners {
            ctx.colour(c[0], c[1], c[2]);
        }
    }
    for i in 0..(if cfg.thorough { 20_000 } else { 3_000 }) {
        let pick = |rng: &mut Rng| -> [u8; 3] {
            if i % 3 == 0 {
                corners[rng.below(corners.len() as u64) as usize]
            } else {
                [rng.below(256) as u8, rng.below(256) as u8, rng.below(256) as u8]
            }
        };
        let (f, b, u) = (pick(&mut rng), pick(&mut rng), pick(&mut rng));
        ctx.face_path(f, b, u);
    }

    if cfg.thorough {
        // 2T. every one of the 2^24 colours
        for r in 0..=255u8 {
            for g in 0..=255u8 {
                ctx.row(r, g);
            }
        }
        ctx.out.extra("exhaustive", json!(true));
    } else {
        // 2Q. decision points of the per-channel cube search: all combinations of boundary bytes
        for &r in &bc {
            for &g in &bc {
                for &b in &bc {
                    ctx.colour(r, g, b);
                }
            }
        }
        // decision points of the grey search (the mean): near-diagonal colours around boundary bytes
        for &v in &bg {
            for dr in -2i32..=2 {
                for dg in -2i32..=2 {
                    for db in -2i32..=2 {
                        let f = |d: i32| (v as i32 + d).clamp(0, 255) as u8;
                        ctx.colour(f(dr), f(dg), f(db));
                    }
                }
            }
        }
        // mixtures of boundary bytes, and the grey/cube decision near the diagonal
        let all: Vec<u8> = bc.iter().chain(bg.iter()).cloned().collect();
        for _ in 0..50_000 {
            let (r, g, b) = (*rng.pick(&all), *rng.pick(&all), *rng.pick(&all));
            ctx.colour(r, g, b);
        }
        for _ in 0..30_000 {
            let v = rng.below(256) as i64;
            let f = |rng: &mut Rng| (v + rng.range(-14, 14)).clamp(0, 255) as u8;
            let (r, g, b) = (f(&mut rng), f(&mut rng), f(&mut rng));
            ctx.colour(r, g, b);
        }
        // 2^18 stratified colours: one per 4 x 4 x 4 cell
        for r in 0..64u32 {
            for g in 0..64u32 {
                for b in 0..64u32 {
                    let x = rng.next();
                    ctx.colour((4 * r + (x & 3) as u32) as u8, (4 * g + (x >> 2 & 3) as u32) as u8, (4 * b + (x >> 4 & 3) as u32) as u8);
                }
            }
        }
        ctx.out.extra("exhaustive", json!(false));
    }
    ctx.flush_batch();
    ctx.flush_luma();
    ctx.gray_monotone();

    let extra = json!({
        "colours": ctx.n_colors,
        "roles_per_colour": 3,
        "depths": ["8bit", "gray", "true"],
        "tie_within_rounding": ctx.n_tie,
        "f32_choice_not_exact_minimum_of_table_palette_but_within_tolerance": ctx.n_f32_subopt,
        "choice_strictly_farther_than_best_of_standard_palette_but_within_tolerance": ctx.n_subopt_std,
        "such_colours_first_64": ctx.subopt_list.iter().map(|c| format!("{:02x}{:02x}{:02x}", c[0], c[1], c[2])).collect::<Vec<_>>(),
        "max_relative_excess_over_best_distance": ctx.max_rel_excess,
        "chose_cube": ctx.n_cube,
        "chose_grey_ramp": ctx.n_grey,
        "gray_levels_fg": ctx.gray_levels,
        "scale_bits": ctx.t.k,
        "max_drift_of_table_constants_from_exact_srgb": if ctx.drift.is_finite() { json!(ctx.drift) } else { json!("table length differs") },
        "oracle_relative_tolerance": ctx.rel_tol,
        "boundary_bytes_cube": bc,
        "boundary_bytes_greys": bg,
        "thorough": ctx.thorough,
        "terminal_glue": {"sessions": ctx.glue_sessions, "inconclusive_sessions": ctx.glue_inconclusive, "commands": ctx.glue_commands,
                          "plans": glue::plans().iter().map(|p| p.name.clone()).collect::<Vec<_>>()},
    });
    ctx.out.extra("c20", extra);
    ctx.out.finish(
        "one evaluation = one opaque colour under EightBit (3 roles), Gray (3 roles), TrueColor (3 roles), or one call of the private `nearest`; \
         quick: palette colours, the grey diagonal, all combinations of bytes adjacent to decision points of CUBE, near-diagonal colours around \
         decision points of GREYS, random mixtures, 2^18 stratified colours (one per 4x4x4 cell); thorough: all 2^24 colours; \
         non-trivial = the colour is not itself a palette entry (or, for `nearest`, the table has more than one entry); distinct by colour",
    );
}
