//! C06: the library reads back its own SGR output and applies it with SGR semantics.
//! Correspondence: `c06 number|sgrface|apply` — Lean models of number_decode, sgr_face, FaceModify::apply.
//! Oracle (Lean, verified spec): `c06 ref` — reference SGR machine on the same parameter bytes.
//! Oracle (Rust, independent): encode → decode round trips of FaceModify / Face / text through the
//! real TTYEncoder and TTYCommandDecoder; tty_writer() over a recording CellWrite against a
//! reference SGR machine, under random chunking of the written bytes.
use serde_json::json;
use std::io::Write;
use surf_n_term::{
    Cell, CellWrite, Color as _, Face, FaceAttrs, FaceModify, RGBA, UnderlineStyle,
    decoder::{Decoder, TTYCommandDecoder, verif_c06},
    encoder::{ColorDepth, Encoder, TTYEncoder},
    render::CellKind,
    terminal::{TerminalCaps, TerminalCommand},
};
use verif_harness::{Cfg, r#gen::Rng, guarded, out::Out, out::hex};

const UNDERS: [UnderlineStyle; 6] = [
    UnderlineStyle::None,
    UnderlineStyle::Straight,
    UnderlineStyle::Double,
    UnderlineStyle::Curly,
    UnderlineStyle::Dotted,
    UnderlineStyle::Dashed,
];
fn under_num(u: UnderlineStyle) -> usize {
    UNDERS.iter().position(|x| *x == u).unwrap()
}
fn rgba_tok(c: Option<RGBA>) -> String {
    match c {
        None => "-".into(),
        Some(c) => {
            let [r, g, b, a] = c.to_rgba();
            format!("{r},{g},{b},{a}")
        }
    }
}
fn tri(v: Option<bool>) -> &'static str {
    match v {
        None => "-",
        Some(true) => "1",
        Some(false) => "0",
    }
}
fn bit(b: bool) -> &'static str {
    if b { "1" } else { "0" }
}
fn fmod_tok(m: &FaceModify) -> String {
    format!(
        "{} {} {} {} {} {} {} {} {}",
        bit(m.reset),
        rgba_tok(m.fg),
        rgba_tok(m.bg),
        m.underline.map(|u| under_num(u).to_string()).unwrap_or("-".into()),
        rgba_tok(m.underline_color),
        tri(m.bold),
        tri(m.italic),
        tri(m.blink),
        tri(m.strike)
    )
}
fn face_tok(f: &Face) -> String {
    let a = f.attrs;
    format!(
        "{} {} {} {} {} {} {} {}",
        rgba_tok(f.fg),
        rgba_tok(f.bg),
        under_num(a.underline()),
        bit(a.contains(FaceAttrs::BOLD)),
        bit(a.contains(FaceAttrs::ITALIC)),
        bit(a.contains(FaceAttrs::BLINK)),
        bit(a.contains(FaceAttrs::REVERSE)),
        bit(a.contains(FaceAttrs::STRIKE))
    )
}

fn rnd_color(rng: &mut Rng) -> RGBA {
    RGBA::new(rng.below(256) as u8, rng.below(256) as u8, rng.below(256) as u8, 255)
}
fn opt_color(rng: &mut Rng) -> Option<RGBA> {
    if rng.chance(1, 3) { None } else { Some(rnd_color(rng)) }
}
fn rnd_tri(rng: &mut Rng) -> Option<bool> {
    match rng.below(3) {
        0 => None,
        1 => Some(true),
        _ => Some(false),
    }
}
fn rnd_face(rng: &mut Rng) -> Face {
    let mut attrs: FaceAttrs = (*rng.pick(&UNDERS)).into();
    for f in [FaceAttrs::BOLD, FaceAttrs::ITALIC, FaceAttrs::BLINK, FaceAttrs::REVERSE, FaceAttrs::STRIKE] {
        if rng.chance(1, 3) {
            attrs = attrs.insert(f);
        }
    }
    Face::new(opt_color(rng), opt_color(rng), attrs)
}
fn rnd_modify(rng: &mut Rng) -> FaceModify {
    FaceModify {
        reset: rng.chance(1, 3),
        fg: opt_color(rng),
        bg: opt_color(rng),
        underline: if rng.chance(1, 3) { None } else { Some(*rng.pick(&UNDERS)) },
        underline_color: if rng.chance(1, 2) { None } else { Some(rnd_color(rng)) },
        bold: rnd_tri(rng),
        italic: rnd_tri(rng),
        blink: rnd_tri(rng),
        strike: rnd_tri(rng),
    }
}

/// one SGR parameter atom; `inexpressible` = the face-modification record has no field for it
fn rnd_atom(rng: &mut Rng) -> (String, bool) {
    let n = |rng: &mut Rng| rng.below(256);
    match rng.below(34) {
        0 => ("0".into(), false),
        1 => ("".into(), false),
        2 => ("1".into(), false),
        3 => ("3".into(), false),
        4 => ("4".into(), false),
        5 => (format!("4:{}", rng.below(6)), false),
        6 => ("5".into(), false),
        7 => ("9".into(), false),
        8 => ("21".into(), false),
        9 => ("22".into(), false),
        10 => ("23".into(), false),
        11 => ("24".into(), false),
        12 => ("25".into(), false),
        13 => ("29".into(), false),
        14 => (format!("{}", 30 + rng.below(8)), false),
        15 => (format!("{}", 40 + rng.below(8)), false),
        16 => (format!("{}", 90 + rng.below(8)), false),
        17 => (format!("{}", 100 + rng.below(8)), false),
        18 | 19 => (format!("{};2;{};{};{}", *rng.pick(&[38, 48]), n(rng), n(rng), n(rng)), false),
        20 => (format!("{};5;{}", *rng.pick(&[38, 48]), n(rng)), false),
        21 => (format!("{}:2::{}:{}:{}", *rng.pick(&[38, 48]), n(rng), n(rng), n(rng)), false),
        22 => (format!("{}:2:{}:{}:{}", *rng.pick(&[38, 48]), n(rng), n(rng), n(rng)), false),
        23 => (format!("{}:5:{}", *rng.pick(&[38, 48]), n(rng)), false),
        24 => (format!("58;2;{};{};{}", n(rng), n(rng), n(rng)), false),
        25 => (format!("58:5:{}", n(rng)), false),
        26 => ("001".into(), false),
        27 => ("7".into(), true),
        28 => ("27".into(), true),
        29 => ("39".into(), true),
        30 => ("49".into(), true),
        _ => (format!("{};5;{}", *rng.pick(&[38, 48]), *rng.pick(&[0, 15, 16, 231, 232, 255])), false),
    }
}

/// arbitrary bytes of the SGR payload alphabet, for totality / model correspondence only
fn rnd_garbage(rng: &mut Rng) -> String {
    let pool = ["0", "1", "2", "3", "4", "5", "8", "9", ";", ":", ";;", "38", "48", "58", "255", "256", "99999999999999999999999"];
    (0..rng.below(9)).map(|_| *rng.pick(&pool)).collect()
}

/// independent reference: SGR semantics on a face, restricted to what a Face can hold (no underline
/// colour); palette through the xterm formulas
fn xterm_palette(i: usize, named: &[RGBA; 16]) -> Option<RGBA> {
    const CUBE: [u8; 6] = [0, 95, 135, 175, 215, 255];
    if i < 16 {
        Some(named[i])
    } else if i < 232 {
        let i = i - 16;
        Some(RGBA::new(CUBE[i / 36], CUBE[(i / 6) % 6], CUBE[i % 6], 255))
    } else if i < 256 {
        let v = (8 + 10 * (i - 232)) as u8;
        Some(RGBA::new(v, v, v, 255))
    } else {
        None
    }
}

fn set_under(attrs: FaceAttrs, style: usize) -> FaceAttrs {
    let cleared = attrs.remove(FaceAttrs::UNDERLINE);
    if style == 0 { cleared } else { cleared.insert(UNDERS[style].into()) }
}

/// apply one atom (already split into its `;` groups, each into `:` numbers) — reference semantics
fn ref_apply(face: &mut Face, atoms: &str, named: &[RGBA; 16]) {
    let groups: Vec<Vec<Option<usize>>> = atoms
        .split(';')
        .map(|g| g.split(':').map(|n| if n.is_empty() { None } else { n.parse().ok() }).collect())
        .collect();
    let mut i = 0;
    while i < groups.len() {
        let g = &groups[i];
        let mut adv = 1;
        let color_at = |role: usize, groups: &Vec<Vec<Option<usize>>>, i: usize| -> (Option<Option<RGBA>>, usize) {
            let _ = role;
            let g = &groups[i];
            if g.len() > 1 {
                // colon form
                match g[1] {
                    Some(5) if g.len() == 3 => (g[2].map(|n| xterm_palette(n, named)), 1),
                    Some(2) if g.len() == 5 => (
                        Some(Some(RGBA::new(g[2].unwrap_or(0) as u8, g[3].unwrap_or(0) as u8, g[4].unwrap_or(0) as u8, 255))),
                        1,
                    ),
                    Some(2) if g.len() == 6 => (
                        Some(Some(RGBA::new(g[3].unwrap_or(0) as u8, g[4].unwrap_or(0) as u8, g[5].unwrap_or(0) as u8, 255))),
                        1,
                    ),
                    _ => (None, 1),
                }
            } else if i + 2 < groups.len() && groups[i + 1] == vec![Some(5)] {
                (groups[i + 2][0].map(|n| xterm_palette(n, named)), 3)
            } else if i + 4 < groups.len() && groups[i + 1] == vec![Some(2)] {
                let c = |k: usize| groups[i + k][0].unwrap_or(0) as u8;
                (Some(Some(RGBA::new(c(2), c(3), c(4), 255))), 5)
            } else {
                (None, 1)
            }
        };
        match g[0] {
            None | Some(0) if g.len() == 1 => *face = Face::default(),
            Some(1) => face.attrs = face.attrs.insert(FaceAttrs::BOLD),
            Some(3) => face.attrs = face.attrs.insert(FaceAttrs::ITALIC),
            Some(5) => face.attrs = face.attrs.insert(FaceAttrs::BLINK),
            Some(7) => face.attrs = face.attrs.insert(FaceAttrs::REVERSE),
            Some(9) => face.attrs = face.attrs.insert(FaceAttrs::STRIKE),
            Some(22) => face.attrs = face.attrs.remove(FaceAttrs::BOLD),
            Some(23) => face.attrs = face.attrs.remove(FaceAttrs::ITALIC),
            Some(25) => face.attrs = face.attrs.remove(FaceAttrs::BLINK),
            Some(27) => face.attrs = face.attrs.remove(FaceAttrs::REVERSE),
            Some(29) => face.attrs = face.attrs.remove(FaceAttrs::STRIKE),
            Some(4) => {
                let style = if g.len() > 1 { g[1].unwrap_or(1) } else { 1 };
                if style <= 5 {
                    face.attrs = set_under(face.attrs, style);
                }
            }
            Some(21) => face.attrs = set_under(face.attrs, 2),
            Some(24) => face.attrs = set_under(face.attrs, 0),
            Some(39) => face.fg = None,
            Some(49) => face.bg = None,
            Some(v @ 30..=37) => face.fg = Some(named[v - 30]),
            Some(v @ 90..=97) => face.fg = Some(named[v - 90 + 8]),
            Some(v @ 40..=47) => face.bg = Some(named[v - 40]),
            Some(v @ 100..=107) => face.bg = Some(named[v - 100 + 8]),
            Some(38) => {
                let (c, n) = color_at(0, &groups, i);
                if let Some(Some(c)) = c {
                    face.fg = Some(c);
                }
                adv = n;
            }
            Some(48) => {
                let (c, n) = color_at(1, &groups, i);
                if let Some(Some(c)) = c {
                    face.bg = Some(c);
                }
                adv = n;
            }
            Some(58) => {
                let (_, n) = color_at(2, &groups, i);
                adv = n;
            }
            _ => {}
        }
        i += adv;
    }
}

#[derive(Default)]
struct Recorder {
    face: Face,
    wraps: bool,
    cells: Vec<(char, Face)>,
}
impl CellWrite for Recorder {
    fn face(&self) -> Face {
        self.face
    }
    fn set_face(&mut self, face: Face) -> Face {
        std::mem::replace(&mut self.face, face)
    }
    fn wraps(&self) -> bool {
        self.wraps
    }
    fn set_wraps(&mut self, wraps: bool) -> bool {
        std::mem::replace(&mut self.wraps, wraps)
    }
    fn put_cell(&mut self, cell: Cell) -> bool {
        if let CellKind::Char(c) = cell.kind() {
            self.cells.push((*c, cell.face()));
        }
        true
    }
}

fn decode_all(bytes: &[u8], cuts: &[usize]) -> Result<Vec<TerminalCommand>, ()> {
    guarded(|| {
        let mut dec = TTYCommandDecoder::new();
        let mut out = Vec::new();
        let mut start = 0;
        let mut points: Vec<usize> = cuts.iter().cloned().filter(|c| *c <= bytes.len()).collect();
        points.push(bytes.len());
        for end in points {
            if end < start {
                continue;
            }
            let mut cur = std::io::Cursor::new(&bytes[start..end]);
            while let Some(cmd) = dec.decode(&mut cur).map_err(|_| ()).ok().flatten() {
                out.push(cmd);
            }
            start = end;
        }
        out
    })
}

fn rnd_cuts(rng: &mut Rng, len: usize) -> Vec<usize> {
    match rng.below(3) {
        0 => vec![],
        1 => (0..=len).collect(),
        _ => {
            let mut v: Vec<usize> = (0..rng.below(5)).map(|_| rng.below(len as u64 + 1) as usize).collect();
            v.sort();
            v
        }
    }
}

fn tables(cfg: &Cfg) {
    let (colors, cube, greys) = verif_c06::palette_tables();
    let mut s = String::from(
        "/-! GENERATED by `harness c06 tables` from the current build of /repo (decoder COLORS, CUBE, GREYS). -/\nnamespace SurfModel.Generated\n",
    );
    let cs: Vec<String> = colors
        .iter()
        .map(|c| {
            let [r, g, b, a] = c.to_rgba();
            format!("({r},{g},{b},{a})")
        })
        .collect();
    s.push_str(&format!("def colors16 : List (Nat × Nat × Nat × Nat) := [{}]\n", cs.join(",")));
    s.push_str(&format!("def cube6 : List Nat := [{}]\n", cube.iter().map(|v| v.to_string()).collect::<Vec<_>>().join(",")));
    s.push_str(&format!("def greys24 : List Nat := [{}]\n", greys.iter().map(|v| v.to_string()).collect::<Vec<_>>().join(",")));
    s.push_str("end SurfModel.Generated\n");
    std::fs::write(cfg.outdir.join("SgrTables.lean"), s).unwrap();
}

fn main() {
    let cfg = Cfg::from_env();
    if cfg.tables.is_some() {
        tables(&cfg);
        return;
    }
    let mut out: Out = cfg.out();
    verif_harness::silence_panics();
    let mut rng = Rng::new(cfg.seed);
    let scale: u64 = if cfg.thorough { 40 } else { 1 };
    let (named, _, _) = verif_c06::palette_tables();
    let true_caps = TerminalCaps { depth: ColorDepth::TrueColor, glyphs: false, kitty_keyboard: false };

    // (a) number_decode
    for i in 0..(2_000 * scale) {
        let len = if i % 7 == 0 { 18 + rng.below(12) } else { rng.below(6) };
        let mut s: String = (0..len).map(|_| char::from(b'0' + rng.below(10) as u8)).collect();
        if rng.chance(1, 10) && !s.is_empty() {
            let p = rng.below(s.len() as u64) as usize;
            s.replace_range(p..p + 1, *rng.pick(&[":", ";", "a", " ", "-"]));
        }
        let got = guarded(|| verif_c06::number_decode(s.as_bytes()));
        let got_s = match got {
            Err(()) => "panic".to_string(),
            Ok(None) => "none".to_string(),
            Ok(Some(n)) => n.to_string(),
        };
        out.case(&format!("num {s}"), len > 0);
        out.hist("number_decode");
        out.corr(&format!("c06 number {}", hex(s.as_bytes())), &got_s);
        // independent oracle: decimal value clamped at usize::MAX, never wrapped
        if s.bytes().all(|b| b.is_ascii_digit()) {
            let exact = s.bytes().fold(0u128, |a, b| (a * 10 + (b - b'0') as u128).min(u128::MAX / 16));
            let want = exact.min(usize::MAX as u128).to_string();
            if got_s != want {
                out.fail("number_decode is not the clamped decimal value", json!({"digits": s}), json!(want), json!(got_s));
            }
        }
    }

    // (b)+(c)+(d) sgr_face / apply / reference semantics on parameter strings
    for i in 0..(6_000 * scale) {
        let wellformed = i % 4 != 3;
        let (data, inexpressible) = if wellformed {
            let k = 1 + rng.below(5);
            let mut parts = Vec::new();
            let mut inex = false;
            for _ in 0..k {
                let (a, x) = rnd_atom(&mut rng);
                inex |= x;
                parts.push(a);
            }
            (parts.join(";"), inex)
        } else {
            (rnd_garbage(&mut rng), false)
        };
        let face = rnd_face(&mut rng);
        let hx = hex(data.as_bytes());
        let m = guarded(|| verif_c06::sgr_face(data.as_bytes()));
        out.case(&format!("sgr {data} {}", face_tok(&face)), wellformed && data.len() > 1);
        out.hist(if wellformed { "sgr:wellformed" } else { "sgr:garbage" });
        let Ok(m) = m else {
            out.corr(&format!("c06 sgrface {hx}"), "panic");
            out.fail("sgr_face panicked", json!({"data": data}), json!("a FaceModify"), json!("panic"));
            continue;
        };
        out.corr(&format!("c06 sgrface {hx}"), &fmod_tok(&m));
        let applied = m.apply(face);
        out.corr(&format!("c06 apply {hx} {}", face_tok(&face)), &face_tok(&applied));
        if wellformed {
            // Rust reference machine (independent) and the Lean specification (`c06 ref`)
            let mut want = face;
            ref_apply(&mut want, &data, &named);
            if inexpressible {
                if applied != want {
                    out.fail(
                        "C06-inexpressible: SGR parameter the face-modification record cannot express is ignored",
                        json!({"data": data, "face": face_tok(&face), "has_inexpressible_param": true}),
                        json!(face_tok(&want)),
                        json!(face_tok(&applied)),
                    );
                }
            } else {
                if applied != want {
                    out.fail(
                        "C06: face after an SGR sequence differs from SGR semantics",
                        json!({"data": data, "face": face_tok(&face), "has_inexpressible_param": false}),
                        json!(face_tok(&want)),
                        json!(face_tok(&applied)),
                    );
                }
                out.oracle(&format!("c06 ref {hx} {}", face_tok(&face)), &face_tok(&applied));
            }
            if i % 997 == 0 {
                out.sample(json!({"sgr": data, "face": face_tok(&face), "applied": face_tok(&applied)}));
            }
        }
    }

    // (e) encoder → decoder round trips
    for i in 0..(4_000 * scale) {
        let m = rnd_modify(&mut rng);
        out.hist("roundtrip:modify");
        out.case(&format!("rt {}", fmod_tok(&m)), true);
        let mut bytes = Vec::new();
        if TTYEncoder::new(true_caps.clone()).encode(&mut bytes, TerminalCommand::FaceModify(m)).is_err() {
            out.fail("encode failed", json!({"modify": fmod_tok(&m)}), json!("bytes"), json!("error"));
            continue;
        }
        let cuts = rnd_cuts(&mut rng, bytes.len());
        let got = decode_all(&bytes, &cuts);
        let want: Vec<TerminalCommand> = if m == FaceModify::default() { vec![] } else { vec![TerminalCommand::FaceModify(m)] };
        if got.as_ref() != Ok(&want) {
            out.fail(
                "C06: FaceModify does not read back from the encoder's own output",
                json!({"modify": fmod_tok(&m), "bytes": String::from_utf8_lossy(&bytes), "cuts": cuts, "has_inexpressible_param": false}),
                json!(format!("{want:?}")),
                json!(format!("{got:?}")),
            );
        }
        if i % 800 == 0 {
            out.sample(json!({"modify": fmod_tok(&m), "bytes": String::from_utf8_lossy(&bytes)}));
        }
        // the same through the model: the model decoder applied to the real encoder's parameter bytes
        if bytes.len() > 3 {
            out.corr(&format!("c06 sgrface {}", hex(&bytes[2..bytes.len() - 1])), &fmod_tok(&m));
        }
    }
    for _ in 0..(4_000 * scale) {
        let f = rnd_face(&mut rng);
        out.hist("roundtrip:face");
        out.case(&format!("rtf {}", face_tok(&f)), true);
        let mut bytes = Vec::new();
        if TTYEncoder::new(true_caps.clone()).encode(&mut bytes, TerminalCommand::Face(f)).is_err() {
            continue;
        }
        let cuts = rnd_cuts(&mut rng, bytes.len());
        let got = decode_all(&bytes, &cuts);
        // what a face-modification record can express: everything but REVERSE
        let want = Face::new(f.fg, f.bg, f.attrs.remove(FaceAttrs::REVERSE));
        let ok = match got.as_deref() {
            Ok([TerminalCommand::FaceModify(m)]) => m.apply(rnd_face(&mut rng)) == want,
            _ => false,
        };
        if !ok {
            out.fail(
                "C06: Face does not read back from the encoder's own output",
                json!({"face": face_tok(&f), "bytes": String::from_utf8_lossy(&bytes), "cuts": cuts, "has_inexpressible_param": false}),
                json!(face_tok(&want)),
                json!(format!("{got:?}")),
            );
        }
    }

    // (f)+(g) text and the cell writer under chunking
    for i in 0..(2_500 * scale) {
        let mut bytes: Vec<u8> = Vec::new();
        let mut want_cells: Vec<(char, Face)> = Vec::new();
        let mut cur = Face::default();
        let mut inexpressible = false;
        let mut script = Vec::new();
        for _ in 0..(1 + rng.below(6)) {
            if rng.chance(1, 2) {
                let k = 1 + rng.below(3);
                let mut parts = Vec::new();
                for _ in 0..k {
                    let (a, x) = rnd_atom(&mut rng);
                    inexpressible |= x;
                    parts.push(a);
                }
                let data = parts.join(";");
                ref_apply(&mut cur, &data, &named);
                bytes.extend(format!("\x1b[{data}m").as_bytes());
                script.push(format!("SGR {data}"));
            } else {
                let pool: Vec<char> = "aZ9 ;[m:é€𝄞漢~".chars().collect();
                let txt: String = (0..1 + rng.below(4)).map(|_| *rng.pick(&pool)).collect();
                for c in txt.chars() {
                    want_cells.push((c, cur));
                }
                bytes.extend(txt.as_bytes());
                script.push(format!("TEXT {txt}"));
            }
        }
        let cuts = rnd_cuts(&mut rng, bytes.len());
        let got = guarded(|| {
            let mut rec = Recorder::default();
            {
                let mut w = rec.by_ref().tty_writer();
                let mut start = 0;
                let mut points: Vec<usize> = cuts.clone();
                points.push(bytes.len());
                for end in points {
                    if end < start || end > bytes.len() {
                        continue;
                    }
                    let _ = w.write_all(&bytes[start..end]);
                    start = end;
                }
            }
            rec.cells
        });
        out.hist("writer");
        out.case(&format!("w {} {:?}", hex(&bytes), cuts), true);
        if got.as_ref() != Ok(&want_cells) {
            let what = if inexpressible {
                "C06-inexpressible: SGR parameter the face-modification record cannot express is ignored"
            } else {
                "C06: cells written through tty_writer do not carry the faces SGR semantics gives"
            };
            out.fail(
                what,
                json!({"script": script, "cuts": cuts, "has_inexpressible_param": inexpressible}),
                json!(want_cells.iter().map(|(c, f)| format!("{c}:{}", face_tok(f))).collect::<Vec<_>>()),
                json!(got.map(|v| v.iter().map(|(c, f)| format!("{c}:{}", face_tok(f))).collect::<Vec<_>>()).unwrap_or(vec!["panic".into()])),
            );
        }
        if i % 600 == 0 {
            out.sample(json!({"script": script, "cuts": cuts}));
        }
    }
    out.finish("number strings (1-30 digits, 10% with a non-digit); SGR parameter strings built from 34 atom kinds (every supported parameter, ; and : colour forms, palette boundaries) joined by `;`, 25% garbage over the SGR alphabet; random faces; random FaceModify / Face values round-tripped through the real encoder (true colour) and command decoder under random read cuts; scripts of SGR sequences and UTF-8 text written through tty_writer() under random write cuts; distinct by content");
}
