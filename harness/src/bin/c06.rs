//! C06: the library reads back its own SGR output and applies it with SGR semantics.
//! Correspondence: `c06 number|sgrface|apply` — Lean models of number_decode, sgr_face, FaceModify::apply
//! (also on malformed parameter strings, which are outside the property's quantifier and are checked by
//! correspondence ONLY: their behaviour is recorded, never judged).
//! Oracle (Lean, verified spec): `c06 ref` — reference SGR machine on the same parameter bytes (theorem
//! C06_apply_sgr); `c06 refx` — the same machine with the four parameters a face-modification record cannot
//! express (7, 27, 39, 49) as no-ops (theorem C06_apply_sgr_x), used for strings that contain one of them.
//! Oracle (Rust, independent, literal colour tables): a reference SGR machine; every well-formed parameter
//! string is judged against (a) the full reference — a mismatch on a string with an inexpressible parameter is
//! the known finding C06-inexpressible — and (b) the reference with those four parameters ignored — a mismatch
//! there is a genuine failure that nothing masks.
//! Round trips through the real TTYEncoder (true colour) and TTYCommandDecoder under random read cuts: FaceModify,
//! Face, and mixed sequences of face commands and characters (every scalar value but ESC: controls, DEL, C1,
//! encoding-length boundaries); judged by the COMPOSED effect of the decoded commands, so an encoder that splits
//! one change into several SGR sequences with the same meaning is not reported.
//! tty_writer() over a recording CellWrite that starts from a RANDOM face, against the reference machine, under
//! random write cuts.
use serde_json::json;
use std::io::Write;
use surf_n_term::{
    Cell, CellWrite, Color as _, Face, FaceAttrs, FaceModify, RGBA, UnderlineStyle,
    common::IOQueue,
    decoder::{Decoder, TTYCommandDecoder, verif_c06},
    encoder::{ColorDepth, Encoder, TTYEncoder},
    render::CellKind,
    terminal::{TerminalCaps, TerminalCommand},
};
use verif_harness::{Cfg, r#gen::Rng, guarded, out::Out, out::hex};

const UNDERS: [UnderlineStyle; 6] = [
    UnderlineStyle::None,
    UnderlineStyle::Straight,
    UnderlineStyle::Double,
    UnderlineStyle::Curly,
    UnderlineStyle::Dotted,
    UnderlineStyle::Dashed,
];
/// by an exhaustive `match`, not through the enum's `PartialEq`
fn under_num(u: UnderlineStyle) -> u8 {
    match u {
        UnderlineStyle::None => 0,
        UnderlineStyle::Straight => 1,
        UnderlineStyle::Double => 2,
        UnderlineStyle::Curly => 3,
        UnderlineStyle::Dotted => 4,
        UnderlineStyle::Dashed => 5,
    }
}

// ---- the harness's OWN records -------------------------------------------------------------------------------
// Everything the harness expects, describes or compares is one of these records, built from the raw generated
// pieces. A crate value is turned into a record by a RAW read only: `Face.fg` / `.bg` / `.attrs` and the fields of
// `FaceModify` are public; the private attribute word `FaceAttrs.bits` is taken from the derived `Hash` (a hasher
// that keeps the bytes it is given); `RGBA` is the third-party `rasterize` type (outside /repo), read with
// `to_rgba()`. No accessor, operator, conversion or comparison impl of src/face.rs describes an input or an
// expectation: `FaceAttrs::contains / underline / insert / remove`, `From<UnderlineStyle>`, `Face::with_*`,
// `Face::default`, `FaceModify::default`, `PartialEq` of `Face` / `FaceModify` / `UnderlineStyle` are not used for
// that (building a crate value from a record necessarily goes through the crate's constructors; every value built
// is read back raw and a difference is reported).

struct Grab(Vec<u8>);
impl std::hash::Hasher for Grab {
    fn write(&mut self, bytes: &[u8]) {
        self.0.extend_from_slice(bytes);
    }
    fn finish(&self) -> u64 {
        0
    }
}
/// the private `bits: u16` of a `FaceAttrs`, as the derived `Hash` feeds it (`write_u16`)
fn attr_bits(a: FaceAttrs) -> u16 {
    use std::hash::Hash;
    let mut g = Grab(Vec::new());
    a.hash(&mut g);
    if g.0.len() == 2 { u16::from_ne_bytes([g.0[0], g.0[1]]) } else { 0xffff }
}

type Rgb = Option<[u8; 4]>;
fn raw_color(c: Option<RGBA>) -> Rgb {
    c.map(|c| c.to_rgba())
}
fn crate_color(c: Rgb) -> Option<RGBA> {
    c.map(|[r, g, b, a]| RGBA::new(r, g, b, a))
}

/// a face: colours as bytes, underline style index 0..5 (6, 7 = a non-canonical word), flags, and whatever is set
/// above the eight defined bits of the attribute word
#[derive(Clone, Copy, PartialEq, Eq, Debug, Default)]
struct RFace {
    fg: Rgb,
    bg: Rgb,
    under: u8,
    bold: bool,
    italic: bool,
    blink: bool,
    reverse: bool,
    strike: bool,
    junk: u16,
}
fn raw_face(f: &Face) -> RFace {
    let bits = attr_bits(f.attrs);
    RFace {
        fg: raw_color(f.fg),
        bg: raw_color(f.bg),
        under: (bits & 7) as u8,
        bold: bits & 8 != 0,
        italic: bits & 16 != 0,
        blink: bits & 32 != 0,
        reverse: bits & 64 != 0,
        strike: bits & 128 != 0,
        junk: bits >> 8,
    }
}
/// a crate `Face` for a record, through the crate's constructors; `Err(what they built, read raw)` when that is
/// not the record (a defect of `From<UnderlineStyle>` / `insert` / `Face::new`: reported by the caller)
fn crate_face(r: &RFace) -> Result<Face, RFace> {
    let mut attrs: FaceAttrs = UNDERS[r.under as usize % 6].into();
    for (on, flag) in [
        (r.bold, FaceAttrs::BOLD),
        (r.italic, FaceAttrs::ITALIC),
        (r.blink, FaceAttrs::BLINK),
        (r.reverse, FaceAttrs::REVERSE),
        (r.strike, FaceAttrs::STRIKE),
    ] {
        if on {
            attrs = attrs.insert(flag);
        }
    }
    let f = Face::new(crate_color(r.fg), crate_color(r.bg), attrs);
    let back = raw_face(&f);
    if back == *r { Ok(f) } else { Err(back) }
}

/// a face modification, field by field
#[derive(Clone, Copy, PartialEq, Eq, Debug, Default)]
struct RMod {
    reset: bool,
    fg: Rgb,
    bg: Rgb,
    underline: Option<u8>,
    underline_color: Rgb,
    bold: Option<bool>,
    italic: Option<bool>,
    blink: Option<bool>,
    strike: Option<bool>,
}
fn raw_mod(m: &FaceModify) -> RMod {
    RMod {
        reset: m.reset,
        fg: raw_color(m.fg),
        bg: raw_color(m.bg),
        underline: m.underline.map(under_num),
        underline_color: raw_color(m.underline_color),
        bold: m.bold,
        italic: m.italic,
        blink: m.blink,
        strike: m.strike,
    }
}
fn crate_mod(m: &RMod) -> FaceModify {
    FaceModify {
        reset: m.reset,
        fg: crate_color(m.fg),
        bg: crate_color(m.bg),
        underline: m.underline.map(|u| UNDERS[u as usize]),
        underline_color: crate_color(m.underline_color),
        bold: m.bold,
        italic: m.italic,
        blink: m.blink,
        strike: m.strike,
    }
}

fn rgb_tok(c: Rgb) -> String {
    match c {
        None => "-".into(),
        Some([r, g, b, a]) => format!("{r},{g},{b},{a}"),
    }
}
fn tri(v: Option<bool>) -> &'static str {
    match v {
        None => "-",
        Some(true) => "1",
        Some(false) => "0",
    }
}
fn bit(b: bool) -> &'static str {
    if b { "1" } else { "0" }
}
fn rmod_tok(m: &RMod) -> String {
    format!(
        "{} {} {} {} {} {} {} {} {}",
        bit(m.reset),
        rgb_tok(m.fg),
        rgb_tok(m.bg),
        m.underline.map(|u| u.to_string()).unwrap_or("-".into()),
        rgb_tok(m.underline_color),
        tri(m.bold),
        tri(m.italic),
        tri(m.blink),
        tri(m.strike)
    )
}
fn fmod_tok(m: &FaceModify) -> String {
    rmod_tok(&raw_mod(m))
}
/// the token of the line protocol; a non-canonical attribute word (style 6 / 7, bits above the flags) shows as a
/// style / suffix the model never prints
fn rface_tok(f: &RFace) -> String {
    format!(
        "{} {} {} {} {} {} {} {}{}",
        rgb_tok(f.fg),
        rgb_tok(f.bg),
        f.under,
        bit(f.bold),
        bit(f.italic),
        bit(f.blink),
        bit(f.reverse),
        bit(f.strike),
        if f.junk != 0 { format!(" junk={}", f.junk) } else { String::new() }
    )
}

/// half of the colours come from a small pool, so that equal colours in different roles of one record
/// (fg = underline colour, fg = bg) and in consecutive records are routine, not a 2^-24 coincidence
const POOL: [[u8; 3]; 6] = [[0, 0, 0], [255, 255, 255], [255, 0, 0], [0, 95, 215], [128, 128, 128], [18, 52, 86]];
fn rnd_color(rng: &mut Rng) -> [u8; 4] {
    if rng.chance(1, 2) {
        let [r, g, b] = *rng.pick(&POOL);
        return [r, g, b, 255];
    }
    [rng.below(256) as u8, rng.below(256) as u8, rng.below(256) as u8, 255]
}
fn opt_color(rng: &mut Rng) -> Rgb {
    if rng.chance(1, 3) { None } else { Some(rnd_color(rng)) }
}
fn rnd_tri(rng: &mut Rng) -> Option<bool> {
    match rng.below(3) {
        0 => None,
        1 => Some(true),
        _ => Some(false),
    }
}
/// a face as a record of raw pieces
fn rnd_rface(rng: &mut Rng) -> RFace {
    let under = rng.below(6) as u8;
    let mut flag = || rng.chance(1, 3);
    let (bold, italic, blink, reverse, strike) = (flag(), flag(), flag(), flag(), flag());
    RFace { fg: opt_color(rng), bg: opt_color(rng), under, bold, italic, blink, reverse, strike, junk: 0 }
}
/// the crate value for a record; a constructor defect is a reported failure (the attribute algebra of src/face.rs
/// is part of the mechanism of C06) and the case is skipped
fn build(o: &mut Out, case: &str, r: &RFace) -> Option<Face> {
    match crate_face(r) {
        Ok(f) => Some(f),
        Err(back) => {
            o.fail(
                "C06: FaceAttrs / Face constructors (From<UnderlineStyle>, insert, Face::new) do not build the face asked for",
                json!({"case": case, "face": rface_tok(r), "has_inexpressible_param": false}),
                json!(rface_tok(r)),
                json!(rface_tok(&back)),
            );
            None
        }
    }
}
fn rnd_rmod(rng: &mut Rng) -> RMod {
    RMod {
        reset: rng.chance(1, 3),
        fg: opt_color(rng),
        bg: opt_color(rng),
        underline: if rng.chance(1, 3) { None } else { Some(rng.below(6) as u8) },
        underline_color: if rng.chance(1, 2) { None } else { Some(rnd_color(rng)) },
        bold: rnd_tri(rng),
        italic: rnd_tri(rng),
        blink: rnd_tri(rng),
        strike: rnd_tri(rng),
    }
}

/// what a generated SGR parameter atom is with respect to the property
#[derive(Clone, Copy, PartialEq, Eq, PartialOrd, Ord, Debug)]
enum Kind {
    /// well-formed, expressible: judged by both oracles
    Plain,
    /// well-formed, but the face-modification record has no field for it (7, 27, 39, 49)
    Inexpressible,
    /// malformed (truncated / out-of-range colour, unknown underline style, sub-parameters where none are
    /// defined, a lone 38 / 48 / 58): outside the property's quantifier — correspondence only
    Malformed,
}

/// single-number parameters the decoder supports
const SUPPORTED: [usize; 12] = [0, 1, 3, 4, 5, 9, 21, 22, 23, 24, 25, 29];
/// legal SGR parameters the decoder does not support (and neighbours of the supported ranges): no effect
const UNSUPPORTED: [&str; 30] = [
    "2", "6", "8", "10", "11", "15", "20", "26", "28", "50", "51", "52", "53", "54", "55", "59", "60", "73", "75", "89",
    "98", "99", "108", "109", "255", "256", "1000", "65536", "18446744073709551615", "99999999999999999999999",
];
const MALFORMED: [&str; 30] = [
    "4:6", "4:7", "4:9", "4:10", "4:", "4:1:2", "1:2", "38;5", "48;5", "38;5;300", "48;5;256", "38;2;1;2", "48;2;7",
    "38;2;256;1;1", "48;2;1;300;1", "38", "48", "58", "38;7", "48;1", "38:5", "38:2:1:2", "38:5:300", "38:2::256:0:0",
    "38:3:1", "58:5", "38;2", "38;5;", "38:2", "38;2;;;",
];

fn zeros(rng: &mut Rng) -> String {
    "0".repeat(1 + rng.below(3) as usize)
}

/// one SGR parameter atom
fn rnd_atom(rng: &mut Rng) -> (String, Kind) {
    let n = |rng: &mut Rng| rng.below(256);
    let plain = |s: String| (s, Kind::Plain);
    match rng.below(46) {
        0 => plain("0".into()),
        1 => plain("".into()),
        2 => plain("1".into()),
        3 => plain("3".into()),
        4 => plain("4".into()),
        5 => plain(format!("4:{}", rng.below(6))),
        6 => plain("5".into()),
        7 => plain("9".into()),
        8 => plain("21".into()),
        9 => plain("22".into()),
        10 => plain("23".into()),
        11 => plain("24".into()),
        12 => plain("25".into()),
        13 => plain("29".into()),
        14 => plain(format!("{}", 30 + rng.below(8))),
        15 => plain(format!("{}", 40 + rng.below(8))),
        16 => plain(format!("{}", 90 + rng.below(8))),
        17 => plain(format!("{}", 100 + rng.below(8))),
        18 | 19 => plain(format!("{};2;{};{};{}", *rng.pick(&[38, 48]), n(rng), n(rng), n(rng))),
        20 => plain(format!("{};5;{}", *rng.pick(&[38, 48]), n(rng))),
        21 => plain(format!("{}:2::{}:{}:{}", *rng.pick(&[38, 48]), n(rng), n(rng), n(rng))),
        22 => plain(format!("{}:2:{}:{}:{}", *rng.pick(&[38, 48]), n(rng), n(rng), n(rng))),
        23 => plain(format!("{}:5:{}", *rng.pick(&[38, 48]), n(rng))),
        24 => plain(format!("58;2;{};{};{}", n(rng), n(rng), n(rng))),
        25 => plain(format!("58:5:{}", n(rng))),
        // leading zeros on a supported single-number parameter or a named colour
        26 | 27 => {
            let code = match rng.below(3) {
                0 => *rng.pick(&SUPPORTED),
                1 => *rng.pick(&[30usize, 40, 90, 100]) + rng.below(8) as usize,
                _ => *rng.pick(&[2usize, 8, 53, 59]),
            };
            plain(format!("{}{}", zeros(rng), code))
        }
        // legal but unsupported parameters: no effect on either side
        28 | 29 | 30 => plain((*rng.pick(&UNSUPPORTED)).to_string()),
        // leading zeros inside colour forms and underline styles
        31 => plain(format!("{};2;{}{};{}{};{}", *rng.pick(&[38, 48]), zeros(rng), n(rng), zeros(rng), n(rng), n(rng))),
        32 => plain(format!("{};5;{}{}", *rng.pick(&[38, 48]), zeros(rng), n(rng))),
        33 => plain(format!("{}:2::{}{}:{}:{}{}", *rng.pick(&[38, 48]), zeros(rng), n(rng), n(rng), zeros(rng), n(rng))),
        34 => plain(format!("4:{}{}", zeros(rng), rng.below(6))),
        35 => (format!("{}", *rng.pick(&["7", "27", "39", "49", "007", "039"])), Kind::Inexpressible),
        36 => ("7".into(), Kind::Inexpressible),
        37 => ("27".into(), Kind::Inexpressible),
        38 => ("39".into(), Kind::Inexpressible),
        39 => ("49".into(), Kind::Inexpressible),
        40 | 41 => ((*rng.pick(&MALFORMED)).to_string(), Kind::Malformed),
        // leading zeros on the selector numbers of a colour form; a colour-space id in the colon form
        42 => plain(format!("{}{};{}2;{};{};{}", zeros(rng), *rng.pick(&[38, 48]), zeros(rng), n(rng), n(rng), n(rng))),
        43 => plain(format!("{}:2:{}:{}:{}:{}", *rng.pick(&[38, 48]), rng.below(4), n(rng), n(rng), n(rng))),
        _ => plain(format!("{};5;{}", *rng.pick(&[38, 48]), *rng.pick(&[0, 7, 8, 15, 16, 231, 232, 255]))),
    }
}

/// arbitrary bytes of the SGR payload alphabet, for model correspondence only
fn rnd_garbage(rng: &mut Rng) -> String {
    let pool = [
        "0", "1", "2", "3", "4", "5", "6", "7", "8", "9", ";", ":", ";;", "38", "48", "58", "255", "256",
        "99999999999999999999999",
    ];
    (0..rng.below(9)).map(|_| *rng.pick(&pool)).collect()
}

/// The library's naming table of the sixteen named colours — a LITERAL copy (never read from the
/// implementation: a permuted or changed `COLORS` entry must disagree with this reference).
const NAMED: [(u8, u8, u8); 16] = [
    (0, 0, 0),
    (128, 0, 0),
    (0, 128, 0),
    (128, 128, 0),
    (0, 0, 128),
    (128, 0, 128),
    (0, 128, 128),
    (192, 192, 192),
    (128, 128, 128),
    (255, 0, 0),
    (0, 255, 0),
    (255, 255, 0),
    (0, 0, 255),
    (255, 0, 255),
    (0, 255, 255),
    (255, 255, 255),
];

/// independent reference: the xterm 256-colour palette (literal tables and formulas)
fn xterm_palette(i: u128) -> Rgb {
    const CUBE: [u8; 6] = [0, 95, 135, 175, 215, 255];
    if i < 16 {
        let (r, g, b) = NAMED[i as usize];
        Some([r, g, b, 255])
    } else if i < 232 {
        let i = (i - 16) as usize;
        Some([CUBE[i / 36], CUBE[(i / 6) % 6], CUBE[i % 6], 255])
    } else if i < 256 {
        let v = (8 + 10 * (i - 232)) as u8;
        Some([v, v, v, 255])
    } else {
        None
    }
}

type Param = Vec<Option<u128>>;

/// `Ps ; Ps : Ps ; …` → parameters with sub-parameters (empty = default); `None` when not numeric
fn parse_params(data: &str) -> Option<Vec<Param>> {
    data.split(';')
        .map(|g| {
            g.split(':')
                .map(|n| {
                    if n.is_empty() {
                        Some(None)
                    } else if n.bytes().all(|b| b.is_ascii_digit()) {
                        Some(Some(n.bytes().fold(0u128, |a, b| a.saturating_mul(10).saturating_add((b - b'0') as u128))))
                    } else {
                        None
                    }
                })
                .collect::<Option<Param>>()
        })
        .collect()
}

/// Reference SGR machine (xterm ctlseqs, "Character Attributes (SGR)") on the harness's own face record (what a
/// `Face` can hold: no underline colour). `ignore_inexpressible`: 7 / 27 / 39 / 49 are no-ops.
fn ref_apply(face: &mut RFace, data: &str, ignore_inexpressible: bool) {
    let Some(groups) = parse_params(data) else { return };
    let one = |g: &Param| if g.len() == 1 { g[0] } else { None };
    let rgb = |r: u128, g: u128, b: u128| -> Rgb {
        if r < 256 && g < 256 && b < 256 { Some([r as u8, g as u8, b as u8, 255]) } else { None }
    };
    let mut i = 0;
    while i < groups.len() {
        let g = &groups[i];
        let mut adv = 1;
        // (role, colour) of a colour parameter: 38 fg, 48 bg, 58 underline colour
        let mut color: Option<(u128, Rgb)> = None;
        if let (1, Some(role @ (38 | 48 | 58))) = (g.len(), g[0]) {
            // semicolon forms: the colour consumes the following parameters
            if i + 4 < groups.len() && groups[i + 1] == vec![Some(2)] {
                if let (Some(r), Some(gg), Some(b)) = (one(&groups[i + 2]), one(&groups[i + 3]), one(&groups[i + 4])) {
                    color = Some((role, rgb(r, gg, b)));
                    adv = 5;
                }
            }
            if color.is_none() && i + 2 < groups.len() && groups[i + 1] == vec![Some(5)] {
                if let Some(n) = one(&groups[i + 2]) {
                    color = Some((role, xterm_palette(n)));
                    adv = 3;
                }
            }
        } else {
            match g.as_slice() {
                [None] | [Some(0)] => *face = RFace::default(),
                [Some(1)] => face.bold = true,
                [Some(3)] => face.italic = true,
                [Some(5)] => face.blink = true,
                [Some(9)] => face.strike = true,
                [Some(22)] => face.bold = false,
                [Some(23)] => face.italic = false,
                [Some(25)] => face.blink = false,
                [Some(29)] => face.strike = false,
                [Some(7)] if !ignore_inexpressible => face.reverse = true,
                [Some(27)] if !ignore_inexpressible => face.reverse = false,
                [Some(39)] if !ignore_inexpressible => face.fg = None,
                [Some(49)] if !ignore_inexpressible => face.bg = None,
                [Some(4)] => face.under = 1,
                [Some(4), Some(k)] if *k <= 5 => face.under = *k as u8,
                [Some(21)] => face.under = 2,
                [Some(24)] => face.under = 0,
                [Some(v @ 30..=37)] => face.fg = xterm_palette(*v - 30),
                [Some(v @ 90..=97)] => face.fg = xterm_palette(*v - 90 + 8),
                [Some(v @ 40..=47)] => face.bg = xterm_palette(*v - 40),
                [Some(v @ 100..=107)] => face.bg = xterm_palette(*v - 100 + 8),
                // colon forms carry the colour as sub-parameters
                [Some(role @ (38 | 48 | 58)), Some(2), _, Some(r), Some(gg), Some(b)] => color = Some((*role, rgb(*r, *gg, *b))),
                [Some(role @ (38 | 48 | 58)), Some(2), Some(r), Some(gg), Some(b)] => color = Some((*role, rgb(*r, *gg, *b))),
                [Some(role @ (38 | 48 | 58)), Some(5), Some(n)] => color = Some((*role, xterm_palette(*n))),
                _ => {}
            }
        }
        match color {
            Some((38, Some(c))) => face.fg = Some(c),
            Some((48, Some(c))) => face.bg = Some(c),
            _ => {}
        }
        i += adv;
    }
}

/// what a face modification does to a face (the meaning of the record, written on the harness's own records)
fn apply_r(m: &RMod, mut f: RFace) -> RFace {
    if m.reset {
        f = RFace::default();
    }
    if m.fg.is_some() {
        f.fg = m.fg;
    }
    if m.bg.is_some() {
        f.bg = m.bg;
    }
    if let Some(u) = m.underline {
        f.under = u;
    }
    f.bold = m.bold.unwrap_or(f.bold);
    f.italic = m.italic.unwrap_or(f.italic);
    f.blink = m.blink.unwrap_or(f.blink);
    f.strike = m.strike.unwrap_or(f.strike);
    f
}

/// sequential composition of face modifications as ONE record: `apply(compose(ms)) = apply(m_k) ∘ … ∘ apply(m_1)`
fn compose(ms: &[RMod]) -> RMod {
    let mut acc = RMod::default();
    for m in ms {
        if m.reset {
            acc = *m;
        } else {
            acc = RMod {
                reset: acc.reset,
                fg: m.fg.or(acc.fg),
                bg: m.bg.or(acc.bg),
                underline: m.underline.or(acc.underline),
                underline_color: m.underline_color.or(acc.underline_color),
                bold: m.bold.or(acc.bold),
                italic: m.italic.or(acc.italic),
                blink: m.blink.or(acc.blink),
                strike: m.strike.or(acc.strike),
            };
        }
    }
    acc
}

/// normal form of a record as a face CHANGE: after a reset "leave unchanged" and "turn off" coincide
fn norm(m: RMod) -> RMod {
    if !m.reset {
        return m;
    }
    RMod {
        underline: Some(m.underline.unwrap_or(0)),
        bold: Some(m.bold.unwrap_or(false)),
        italic: Some(m.italic.unwrap_or(false)),
        blink: Some(m.blink.unwrap_or(false)),
        strike: Some(m.strike.unwrap_or(false)),
        ..m
    }
}

/// the face change a written `Face` command stands for, as far as a face-modification record can say it
/// (everything but REVERSE)
fn face_change(f: &RFace) -> RMod {
    RMod {
        reset: true,
        fg: f.fg,
        bg: f.bg,
        underline: Some(f.under),
        underline_color: None,
        bold: Some(f.bold),
        italic: Some(f.italic),
        blink: Some(f.blink),
        strike: Some(f.strike),
    }
}

/// characters of the property's domain: every Unicode scalar value except ESC — controls, DEL, C1, the
/// boundaries of the UTF-8 encoding lengths and of the surrogate gap included
fn rnd_char(rng: &mut Rng) -> char {
    const POOL: [char; 40] = [
        'a', 'Z', '9', ' ', ';', '[', 'm', ':', '~', 'é', '€', '𝄞', '漢', '\0', '\x01', '\x07', '\x08', '\t', '\n', '\r', '\x1a',
        '\x1c', '\x1f', '\x7f', '\u{80}', '\u{85}', '\u{9b}', '\u{9f}', '\u{a0}', '\u{7ff}', '\u{800}', '\u{d7ff}', '\u{e000}',
        '\u{fffd}', '\u{ffff}', '\u{10000}', '\u{10ffff}', '\u{1a}', '\u{1c}', '\u{1e}',
    ];
    if rng.chance(1, 5) {
        loop {
            if let Some(c) = char::from_u32(rng.below(0x110000) as u32) {
                if c != '\x1b' {
                    return c;
                }
            }
        }
    }
    *rng.pick(&POOL)
}

struct Recorder {
    face: Face,
    wraps: bool,
    /// character and face of every cell put, the face read RAW (`raw_face`)
    cells: Vec<(char, RFace)>,
    /// `put_cell` calls with an index in [refuse.0, refuse.1) are refused (`false`, nothing stored): a sink
    /// that has no room for some cells; the cell writer must go on decoding the rest of the write
    refuse: (usize, usize),
    calls: usize,
}
impl CellWrite for Recorder {
    fn face(&self) -> Face {
        self.face
    }
    fn set_face(&mut self, face: Face) -> Face {
        std::mem::replace(&mut self.face, face)
    }
    fn wraps(&self) -> bool {
        self.wraps
    }
    fn set_wraps(&mut self, wraps: bool) -> bool {
        std::mem::replace(&mut self.wraps, wraps)
    }
    fn put_cell(&mut self, cell: Cell) -> bool {
        let k = self.calls;
        self.calls += 1;
        if self.refuse.0 <= k && k < self.refuse.1 {
            return false;
        }
        if let CellKind::Char(c) = cell.kind() {
            self.cells.push((*c, raw_face(&cell.face())));
        }
        true
    }
}

/// the bytes cut at `cuts` fed to one `TTYCommandDecoder`, read by read; `via_queue`: every read is written to
/// the crate's own chunked reader `IOQueue` and the decoder reads from that (another `BufRead` than a cursor)
fn decode_all(bytes: &[u8], cuts: &[usize], via_queue: bool) -> Result<Vec<TerminalCommand>, ()> {
    guarded(|| {
        let mut dec = TTYCommandDecoder::new();
        let mut out = Vec::new();
        let mut start = 0;
        let mut points: Vec<usize> = cuts.iter().cloned().filter(|c| *c <= bytes.len()).collect();
        points.push(bytes.len());
        let mut queue = IOQueue::new();
        for end in points {
            if end < start {
                continue;
            }
            if via_queue {
                queue.write_all(&bytes[start..end]).unwrap();
                queue.flush().unwrap();
                for _ in 0..(end - start + 4) {
                    while let Some(cmd) = dec.decode(&mut queue).map_err(|_| ()).ok().flatten() {
                        out.push(cmd);
                    }
                    if queue.is_empty() {
                        break;
                    }
                }
            } else {
                let mut cur = std::io::Cursor::new(&bytes[start..end]);
                while let Some(cmd) = dec.decode(&mut cur).map_err(|_| ()).ok().flatten() {
                    out.push(cmd);
                }
            }
            start = end;
        }
        out
    })
}

fn rnd_cuts(rng: &mut Rng, len: usize) -> Vec<usize> {
    match rng.below(3) {
        0 => vec![],
        1 => (0..=len).collect(),
        _ => {
            let mut v: Vec<usize> = (0..rng.below(5)).map(|_| rng.below(len as u64 + 1) as usize).collect();
            v.sort();
            v
        }
    }
}

fn tables(cfg: &Cfg) {
    let (colors, cube, greys) = verif_c06::palette_tables();
    let mut s = String::from(
        "/-! GENERATED by `harness c06 tables` from the current build of /repo (decoder COLORS, CUBE, GREYS). -/\nnamespace SurfModel.Generated\n",
    );
    let cs: Vec<String> = colors
        .iter()
        .map(|c| {
            let [r, g, b, a] = c.to_rgba();
            format!("({r},{g},{b},{a})")
        })
        .collect();
    s.push_str(&format!("def colors16 : List (Nat × Nat × Nat × Nat) := [{}]\n", cs.join(",")));
    s.push_str(&format!("def cube6 : List Nat := [{}]\n", cube.iter().map(|v| v.to_string()).collect::<Vec<_>>().join(",")));
    s.push_str(&format!("def greys24 : List Nat := [{}]\n", greys.iter().map(|v| v.to_string()).collect::<Vec<_>>().join(",")));
    s.push_str("end SurfModel.Generated\n");
    std::fs::write(cfg.outdir.join("SgrTables.lean"), s).unwrap();
}

fn main() {
    let cfg = Cfg::from_env();
    if cfg.tables.is_some() {
        tables(&cfg);
        return;
    }
    let mut out: Out = cfg.out();
    verif_harness::silence_panics();
    // replay: re-run the generation of the recorded run (same seed and tier: all randomness comes from the one
    // generator) and emit ONLY the recorded case `<section>#<index>`; everything else goes to a sink
    let (seed, thorough, target) = match &cfg.replay {
        Some(r) => (
            r["seed"].as_u64().unwrap_or(cfg.seed),
            r["tier"].as_str().map(|t| t == "thorough").unwrap_or(cfg.thorough),
            r["failure"]["input"]["case"].as_str().map(String::from),
        ),
        None => (cfg.seed, cfg.thorough, None),
    };
    let mut sink = Out::new(&cfg.outdir.join("replay-sink"));
    let mut rng = Rng::new(seed);
    let scale: u64 = if thorough { 40 } else { 1 };
    let true_caps = TerminalCaps { depth: ColorDepth::TrueColor, glyphs: false, kitty_keyboard: false };

    // (a) number_decode — correspondence only: what it returns for over-long digit strings (the model says:
    // clamped at usize::MAX, theorem C06_number) is not part of the property, so no oracle judges it
    for i in 0..(2_000 * scale) {
        let case = format!("num#{i}");
        let o: &mut Out = if target.as_ref().map_or(true, |t| *t == case) { &mut out } else { &mut sink };
        let len = if i % 7 == 0 { 18 + rng.below(12) } else { rng.below(6) };
        let mut s: String = (0..len).map(|_| char::from(b'0' + rng.below(10) as u8)).collect();
        if rng.chance(1, 10) && !s.is_empty() {
            let p = rng.below(s.len() as u64) as usize;
            s.replace_range(p..p + 1, *rng.pick(&[":", ";", "a", " ", "-"]));
        }
        if rng.chance(1, 8) {
            s = format!("{}{s}", zeros(&mut rng));
        }
        let got = guarded(|| verif_c06::number_decode(s.as_bytes()));
        let got_s = match got {
            Err(()) => "panic".to_string(),
            Ok(None) => "none".to_string(),
            Ok(Some(n)) => n.to_string(),
        };
        o.case(&format!("num {s}"), len > 0);
        o.hist("number_decode");
        o.corr(&format!("c06 number {}", hex(s.as_bytes())), &got_s);
    }

    // (b)+(c)+(d) sgr_face / apply / reference semantics on parameter strings
    let mut malformed_samples = 0;
    for i in 0..(8_000 * scale) {
        let case = format!("sgr#{i}");
        let o: &mut Out = if target.as_ref().map_or(true, |t| *t == case) { &mut out } else { &mut sink };
        let garbage = i % 5 == 4;
        let (data, kind) = if !garbage {
            let k = 1 + rng.below(5);
            let mut parts = Vec::new();
            let mut kind = Kind::Plain;
            for _ in 0..k {
                let (a, x) = rnd_atom(&mut rng);
                kind = kind.max(x);
                parts.push(a);
            }
            (parts.join(";"), kind)
        } else {
            (rnd_garbage(&mut rng), Kind::Malformed)
        };
        let rf = rnd_rface(&mut rng);
        let ftok = rface_tok(&rf);
        let Some(face) = build(o, &case, &rf) else { continue };
        let hx = hex(data.as_bytes());
        let m = guarded(|| verif_c06::sgr_face(data.as_bytes()));
        o.case(&format!("sgr {data} {ftok}"), !garbage && data.len() > 1);
        o.hist(match (garbage, kind) {
            (true, _) => "sgr:garbage",
            (_, Kind::Plain) => "sgr:wellformed",
            (_, Kind::Inexpressible) => "sgr:wellformed+inexpressible",
            (_, Kind::Malformed) => "sgr:malformed",
        });
        let Ok(m) = m else {
            o.corr(&format!("c06 sgrface {hx}"), "panic");
            if kind != Kind::Malformed {
                o.fail("C06: sgr_face panicked on a well-formed parameter string", json!({"case": case, "data": data}), json!("a FaceModify"), json!("panic"));
            }
            continue;
        };
        let rm = raw_mod(&m);
        o.corr(&format!("c06 sgrface {hx}"), &rmod_tok(&rm));
        let applied = raw_face(&m.apply(face));
        let atok = rface_tok(&applied);
        o.corr(&format!("c06 apply {hx} {ftok}"), &atok);
        // `FaceModify::apply` on its own: the record, read field by field, applied by the harness
        let by_record = apply_r(&rm, rf);
        if applied != by_record {
            o.fail(
                "C06: FaceModify::apply does not change the face as the record says",
                json!({"case": case, "modify": rmod_tok(&rm), "face": ftok, "has_inexpressible_param": false}),
                json!(rface_tok(&by_record)),
                json!(atok),
            );
        }
        match kind {
            Kind::Malformed => {
                // outside the domain: behaviour recorded (samples), nothing judged
                if !garbage && malformed_samples < 4 && i % 37 == 0 {
                    malformed_samples += 1;
                    o.sample(json!({"malformed_sgr": data, "face": ftok, "applied": atok, "note": "outside the domain; behaviour recorded"}));
                }
            }
            Kind::Plain | Kind::Inexpressible => {
                // (b) the reference with 7 / 27 / 39 / 49 ignored: a mismatch is genuine and is never masked
                let mut want_ign = rf;
                ref_apply(&mut want_ign, &data, true);
                if applied != want_ign {
                    o.fail(
                        "C06: face after an SGR sequence differs from SGR semantics",
                        json!({"case": case, "data": data, "face": ftok, "has_inexpressible_param": false, "reference": "inexpressible parameters ignored"}),
                        json!(rface_tok(&want_ign)),
                        json!(atok),
                    );
                }
                // (a) the full reference: differs only through an inexpressible parameter (known finding)
                let mut want_full = rf;
                ref_apply(&mut want_full, &data, false);
                if applied != want_full {
                    let known = kind == Kind::Inexpressible && applied == want_ign;
                    let what = if known {
                        "C06-inexpressible: SGR parameter the face-modification record cannot express is ignored"
                    } else {
                        "C06: face after an SGR sequence differs from SGR semantics"
                    };
                    o.fail(
                        what,
                        json!({"case": case, "data": data, "face": ftok, "has_inexpressible_param": known}),
                        json!(rface_tok(&want_full)),
                        json!(atok),
                    );
                }
                // the Lean specification: `ref` (C06_apply_sgr) / `refx` (C06_apply_sgr_x)
                if kind == Kind::Plain {
                    o.oracle(&format!("c06 ref {hx} {ftok}"), &atok);
                }
                o.oracle(&format!("c06 refx {hx} {ftok}"), &atok);
                if i % 997 == 0 {
                    o.sample(json!({"sgr": data, "face": ftok, "applied": atok}));
                }
            }
        }
    }

    // (e) encoder → decoder round trips, judged by the COMPOSED effect of what is read back (on the harness's
    // own records: every decoded `FaceModify` is read field by field)
    let modify_of = |cmds: &[TerminalCommand]| -> Option<RMod> {
        let mut ms = Vec::new();
        for c in cmds {
            match c {
                TerminalCommand::FaceModify(m) => ms.push(raw_mod(m)),
                _ => return None,
            }
        }
        Some(compose(&ms))
    };
    let plain_face = Face::new(None, None, FaceAttrs::EMPTY);
    for i in 0..(4_000 * scale) {
        let case = format!("rtm#{i}");
        let o: &mut Out = if target.as_ref().map_or(true, |t| *t == case) { &mut out } else { &mut sink };
        let rm = rnd_rmod(&mut rng);
        let m = crate_mod(&rm);
        let mtok = rmod_tok(&rm);
        o.hist("roundtrip:modify");
        o.case(&format!("rt {mtok}"), true);
        let mut bytes = Vec::new();
        let mut enc = TTYEncoder::new(true_caps.clone());
        // every fourth record goes through an encoder whose previous face change hit a sink that failed part
        // way (a full fixed-size buffer): what was refused must not leak into this record
        let mut refused = String::from("-");
        if i % 4 == 3 {
            let prev = rnd_rmod(&mut rng);
            let mut small = vec![0u8; rng.below(40) as usize];
            let prev_face = crate_face(&rnd_rface(&mut rng)).unwrap_or(plain_face);
            let cmd = if rng.chance(1, 2) { TerminalCommand::FaceModify(crate_mod(&prev)) } else { TerminalCommand::Face(prev_face) };
            let r = enc.encode(&mut small.as_mut_slice(), cmd);
            refused = format!("{} into {} bytes: {}", rmod_tok(&prev), small.len(), if r.is_ok() { "ok" } else { "err" });
            o.hist("roundtrip:modify-after-refused-write");
        }
        if enc.encode(&mut bytes, TerminalCommand::FaceModify(m)).is_err() {
            o.fail("C06: encode failed", json!({"case": case, "modify": mtok}), json!("bytes"), json!("error"));
            continue;
        }
        let cuts = rnd_cuts(&mut rng, bytes.len());
        let got = decode_all(&bytes, &cuts, i % 3 == 2);
        let read_back = got.as_ref().ok().and_then(|cmds| modify_of(cmds));
        if read_back.map(norm) != Some(norm(rm)) {
            o.fail(
                "C06: FaceModify does not read back from the encoder's own output",
                json!({"case": case, "modify": mtok, "bytes": String::from_utf8_lossy(&bytes), "cuts": cuts, "reader": if i % 3 == 2 { "IOQueue" } else { "cursor" }, "previous_refused_write": refused, "has_inexpressible_param": false}),
                json!(format!("commands whose composition is {mtok}")),
                json!(match (&got, &read_back) {
                    (Err(()), _) => "panic".to_string(),
                    (_, Some(r)) => format!("composition {}", rmod_tok(r)),
                    (Ok(cmds), None) => format!("{} commands, not all of them face modifications", cmds.len()),
                }),
            );
        }
        if i % 800 == 0 {
            o.sample(json!({"modify": mtok, "bytes": String::from_utf8_lossy(&bytes)}));
        }
        // correspondence (only when the encoder writes ONE sequence): the model decoder applied to the real
        // encoder's parameter bytes gives what the real decoder gives
        if bytes.len() > 3 && bytes.starts_with(b"\x1b[") && bytes.ends_with(b"m") && !bytes[1..].contains(&0x1b) {
            let payload = &bytes[2..bytes.len() - 1];
            if payload.iter().all(|b| (0x30..=0x3b).contains(b)) {
                if let Ok(dm) = guarded(|| verif_c06::sgr_face(payload)) {
                    o.corr(&format!("c06 sgrface {}", hex(payload)), &fmod_tok(&dm));
                }
            }
        }
    }
    for i in 0..(4_000 * scale) {
        let case = format!("rtf#{i}");
        let o: &mut Out = if target.as_ref().map_or(true, |t| *t == case) { &mut out } else { &mut sink };
        let rf = rnd_rface(&mut rng);
        let other = rnd_rface(&mut rng);
        let ftok = rface_tok(&rf);
        o.hist("roundtrip:face");
        o.case(&format!("rtf {ftok}"), true);
        let Some(f) = build(o, &case, &rf) else { continue };
        let mut bytes = Vec::new();
        if TTYEncoder::new(true_caps.clone()).encode(&mut bytes, TerminalCommand::Face(f)).is_err() {
            o.fail("C06: encode failed", json!({"case": case, "face": ftok}), json!("bytes"), json!("error"));
            continue;
        }
        let cuts = rnd_cuts(&mut rng, bytes.len());
        let got = decode_all(&bytes, &cuts, i % 3 == 2);
        // what a face-modification record can express: everything but REVERSE
        let want = RFace { reverse: false, ..rf };
        let read_back = got.as_ref().ok().and_then(|cmds| modify_of(cmds));
        let mut ok = read_back.map(norm) == Some(norm(face_change(&rf)));
        // … and the crate's own `apply` of what was read back, on a random face and on the default one
        if let Ok(cmds) = got.as_ref() {
            for g in [other, RFace::default()] {
                if let Ok(gf) = crate_face(&g) {
                    let end = cmds.iter().fold(gf, |acc, c| match c {
                        TerminalCommand::FaceModify(m) => m.apply(acc),
                        _ => acc,
                    });
                    ok &= raw_face(&end) == want;
                }
            }
        }
        if !ok {
            o.fail(
                "C06: Face does not read back from the encoder's own output",
                json!({"case": case, "face": ftok, "bytes": String::from_utf8_lossy(&bytes), "cuts": cuts, "has_inexpressible_param": false}),
                json!(rface_tok(&want)),
                json!(match (&got, &read_back) {
                    (Err(()), _) => "panic".to_string(),
                    (_, Some(r)) => format!("composition {}", rmod_tok(r)),
                    (Ok(cmds), None) => format!("{} commands, not all of them face modifications", cmds.len()),
                }),
            );
        }
    }
    // mixed sequences of face commands and characters through the real encoder and decoder
    for i in 0..(3_000 * scale) {
        let case = format!("rts#{i}");
        let o: &mut Out = if target.as_ref().map_or(true, |t| *t == case) { &mut out } else { &mut sink };
        #[derive(Debug, PartialEq)]
        enum Seg {
            Char(char),
            Change(RMod),
        }
        fn push_change(segs: &mut Vec<Seg>, m: RMod) {
            if let Some(Seg::Change(prev)) = segs.last_mut() {
                *prev = compose(&[*prev, m]);
            } else {
                segs.push(Seg::Change(m));
            }
        }
        fn finish(segs: Vec<Seg>) -> Vec<Seg> {
            segs.into_iter()
                .filter_map(|s| match s {
                    Seg::Change(m) if m == RMod::default() => None,
                    Seg::Change(m) => Some(Seg::Change(norm(m))),
                    c => Some(c),
                })
                .collect()
        }
        let mut bytes = Vec::new();
        let mut want: Vec<Seg> = Vec::new();
        let mut script = Vec::new();
        let mut enc = TTYEncoder::new(true_caps.clone());
        let mut enc_ok = true;
        let mut built = true;
        for _ in 0..(1 + rng.below(7)) {
            let cmd = match rng.below(5) {
                0 => {
                    let m = rnd_rmod(&mut rng);
                    push_change(&mut want, m);
                    script.push(format!("MODIFY {}", rmod_tok(&m)));
                    TerminalCommand::FaceModify(crate_mod(&m))
                }
                1 => {
                    let rf = rnd_rface(&mut rng);
                    push_change(&mut want, face_change(&rf));
                    script.push(format!("FACE {}", rface_tok(&rf)));
                    match build(o, &case, &rf) {
                        Some(f) => TerminalCommand::Face(f),
                        None => {
                            built = false;
                            TerminalCommand::Face(plain_face)
                        }
                    }
                }
                _ => {
                    let c = rnd_char(&mut rng);
                    want.push(Seg::Char(c));
                    script.push(format!("CHAR U+{:04X}", c as u32));
                    TerminalCommand::Char(c)
                }
            };
            enc_ok &= enc.encode(&mut bytes, cmd).is_ok();
        }
        o.hist("roundtrip:stream");
        o.case(&format!("rts {}", hex(&bytes)), true);
        if !enc_ok {
            o.fail("C06: encode failed", json!({"case": case, "script": script}), json!("bytes"), json!("error"));
        }
        let cuts = rnd_cuts(&mut rng, bytes.len());
        if !enc_ok || !built {
            continue;
        }
        let got = decode_all(&bytes, &cuts, i % 3 == 2);
        let got_segs: Option<Vec<Seg>> = got.as_ref().ok().and_then(|cmds| {
            let mut segs = Vec::new();
            for c in cmds {
                match c {
                    TerminalCommand::Char(c) => segs.push(Seg::Char(*c)),
                    TerminalCommand::FaceModify(m) => push_change(&mut segs, raw_mod(m)),
                    _ => return None,
                }
            }
            Some(finish(segs))
        });
        let want = finish(want);
        if got_segs.as_ref() != Some(&want) {
            o.fail(
                "C06: face changes and characters do not read back from the encoder's own output",
                json!({"case": case, "script": script, "bytes": hex(&bytes), "cuts": cuts, "reader": if i % 3 == 2 { "IOQueue" } else { "cursor" }, "has_inexpressible_param": false}),
                json!(format!("{want:?}")),
                json!(match (&got, &got_segs) {
                    (Err(()), _) => "panic".to_string(),
                    (_, Some(segs)) => format!("{segs:?}"),
                    (Ok(cmds), None) => format!("{} commands, some neither a character nor a face modification", cmds.len()),
                }),
            );
        }
        if i % 900 == 0 {
            o.sample(json!({"stream": script, "cuts": cuts}));
        }
    }

    // repeated records on ONE reused encoder (state kept in the encoder between commands): the same non-empty
    // record X again after nothing / a Face / a Reset / another record / characters. Judged by STATE, so an
    // encoder that soundly skips a change that changes nothing is not reported: the written commands and what is
    // read back - by the command decoder, and by the cell writer - are run on the harness's own face state
    // (RFace + underline colour) from two start states that differ in every field, and must give the same face at
    // every character and at the end.
    for i in 0..(2_000 * scale) {
        let case = format!("rtr#{i}");
        let o: &mut Out = if target.as_ref().map_or(true, |t| *t == case) { &mut out } else { &mut sink };
        #[derive(Clone, Copy)]
        enum W {
            Modify(RMod),
            Face(RFace),
            Reset,
            Char(char),
        }
        let x = loop {
            let m = rnd_rmod(&mut rng);
            if m != RMod::default() {
                break m;
            }
        };
        let y = rnd_rmod(&mut rng);
        let f = rnd_rface(&mut rng);
        let chars = |rng: &mut Rng, v: &mut Vec<W>, at_least: u64| {
            for _ in 0..(at_least + rng.below(2)) {
                v.push(W::Char(rnd_char(rng)));
            }
        };
        let mut cmds: Vec<W> = Vec::new();
        let pattern = i % 6;
        cmds.push(W::Modify(x));
        chars(&mut rng, &mut cmds, 0);
        match pattern {
            0 => {}
            1 => cmds.push(W::Face(f)),
            2 => cmds.push(W::Reset),
            3 => cmds.push(W::Modify(y)),
            4 => chars(&mut rng, &mut cmds, 1),
            _ => {
                cmds.push(W::Face(f));
                chars(&mut rng, &mut cmds, 1);
                cmds.push(W::Modify(x));
                cmds.push(W::Modify(y));
            }
        }
        chars(&mut rng, &mut cmds, 0);
        cmds.push(W::Modify(x));
        chars(&mut rng, &mut cmds, 0);
        // two start states that differ in every field
        let s1 = rnd_rface(&mut rng);
        let other = |c: Rgb| match c {
            None => Some([1, 2, 3, 255]),
            Some(_) => None,
        };
        let s2 = RFace {
            fg: other(s1.fg),
            bg: other(s1.bg),
            under: (s1.under + 1) % 6,
            bold: !s1.bold,
            italic: !s1.italic,
            blink: !s1.blink,
            reverse: !s1.reverse,
            strike: !s1.strike,
            junk: 0,
        };
        let starts: [(RFace, Rgb); 2] = [(s1, None), (s2, Some([9, 9, 9, 255]))];
        let step = |st: (RFace, Rgb), m: &RMod| -> (RFace, Rgb) {
            (apply_r(m, st.0), if m.reset { m.underline_color } else { m.underline_color.or(st.1) })
        };
        // encode on one encoder; a Reset goes to a sink of its own (the command decoder has no reading of ESC c):
        // for the stream read back it did not happen, for the encoder it did
        let mut bytes = Vec::new();
        let mut enc = TTYEncoder::new(true_caps.clone());
        let mut script = Vec::new();
        let mut usable = true;
        for c in &cmds {
            let r = match c {
                W::Modify(m) => {
                    script.push(format!("MODIFY {}", rmod_tok(m)));
                    enc.encode(&mut bytes, TerminalCommand::FaceModify(crate_mod(m)))
                }
                W::Face(rf) => {
                    script.push(format!("FACE {}", rface_tok(rf)));
                    match build(o, &case, rf) {
                        Some(cf) => enc.encode(&mut bytes, TerminalCommand::Face(cf)),
                        None => {
                            usable = false;
                            Ok(())
                        }
                    }
                }
                W::Reset => {
                    script.push("RESET (bytes discarded)".into());
                    enc.encode(&mut Vec::new(), TerminalCommand::Reset)
                }
                W::Char(ch) => {
                    script.push(format!("CHAR U+{:04X}", *ch as u32));
                    enc.encode(&mut bytes, TerminalCommand::Char(*ch))
                }
            };
            if r.is_err() {
                o.fail("C06: encode failed", json!({"case": case, "script": script}), json!("bytes"), json!("error"));
                usable = false;
            }
        }
        let cuts = rnd_cuts(&mut rng, bytes.len());
        o.hist(&format!("roundtrip:repeated:{pattern}"));
        o.case(&format!("rtr {}", script.join("|")), true);
        if !usable {
            continue;
        }
        // expected: faces at the characters and at the end, per start state
        let expect = |start: (RFace, Rgb)| -> (Vec<(char, RFace, Rgb)>, (RFace, Rgb)) {
            let mut st = start;
            let mut at = Vec::new();
            for c in &cmds {
                match c {
                    W::Modify(m) => st = step(st, m),
                    W::Face(rf) => st = step(st, &face_change(rf)),
                    W::Reset => {}
                    W::Char(ch) => at.push((*ch, st.0, st.1)),
                }
            }
            (at, st)
        };
        let via_queue = i % 3 == 2;
        let got = decode_all(&bytes, &cuts, via_queue);
        for start in starts {
            let want = expect(start);
            let read: Option<(Vec<(char, RFace, Rgb)>, (RFace, Rgb))> = got.as_ref().ok().and_then(|cs| {
                let mut st = start;
                let mut at = Vec::new();
                for c in cs {
                    match c {
                        TerminalCommand::FaceModify(m) => st = step(st, &raw_mod(m)),
                        TerminalCommand::Char(ch) => at.push((*ch, st.0, st.1)),
                        _ => return None,
                    }
                }
                Some((at, st))
            });
            if read.as_ref() != Some(&want) {
                let show = |v: &(Vec<(char, RFace, Rgb)>, (RFace, Rgb))| {
                    let mut l: Vec<String> = v.0.iter().map(|(c, f, u)| format!("U+{:04X}:{} ul={}", *c as u32, rface_tok(f), rgb_tok(*u))).collect();
                    l.push(format!("end:{} ul={}", rface_tok(&v.1.0), rgb_tok(v.1.1)));
                    l
                };
                o.fail(
                    "C06: face changes repeated on one encoder do not read back through the command decoder",
                    json!({"case": case, "script": script, "bytes": hex(&bytes), "cuts": cuts, "start_face": rface_tok(&start.0), "reader": if via_queue { "IOQueue" } else { "cursor" }, "has_inexpressible_param": false}),
                    json!(show(&want)),
                    json!(read.as_ref().map(show).unwrap_or(vec!["panic, or a command that is neither a character nor a face modification".into()])),
                );
                break;
            }
            // the same bytes through the cell writer (a face holds no underline colour)
            let Some(start_face) = build(o, &case, &start.0) else { break };
            let wrote = guarded(|| {
                let mut rec = Recorder { face: start_face, wraps: false, cells: Vec::new(), refuse: (0, 0), calls: 0 };
                {
                    let mut w = rec.by_ref().tty_writer();
                    let mut from = 0;
                    let mut points: Vec<usize> = cuts.clone();
                    points.push(bytes.len());
                    for end in points {
                        if end < from || end > bytes.len() {
                            continue;
                        }
                        let _ = w.write_all(&bytes[from..end]);
                        from = end;
                    }
                }
                (rec.cells, raw_face(&rec.face))
            });
            let want_cells: Vec<(char, RFace)> = want.0.iter().map(|(c, f, _)| (*c, *f)).collect();
            if wrote.as_ref() != Ok(&(want_cells.clone(), want.1.0)) {
                let show = |cells: &Vec<(char, RFace)>, end: &RFace| {
                    let mut l: Vec<String> = cells.iter().map(|(c, f)| format!("U+{:04X}:{}", *c as u32, rface_tok(f))).collect();
                    l.push(format!("end:{}", rface_tok(end)));
                    l
                };
                o.fail(
                    "C06: face changes repeated on one encoder do not reach the cells written through tty_writer",
                    json!({"case": case, "script": script, "bytes": hex(&bytes), "cuts": cuts, "start_face": rface_tok(&start.0), "has_inexpressible_param": false}),
                    json!(show(&want_cells, &want.1.0)),
                    json!(wrote.as_ref().map(|w| show(&w.0, &w.1)).unwrap_or(vec!["panic".into()])),
                );
                break;
            }
        }
        if i % 700 == 0 {
            o.sample(json!({"repeated": script, "cuts": cuts}));
        }
    }

    // (f)+(g) text and the cell writer under chunking; the writer starts from a RANDOM face
    for i in 0..(3_000 * scale) {
        let case = format!("wr#{i}");
        let o: &mut Out = if target.as_ref().map_or(true, |t| *t == case) { &mut out } else { &mut sink };
        let mut bytes: Vec<u8> = Vec::new();
        let start = if i % 4 == 0 { RFace::default() } else { rnd_rface(&mut rng) };
        let stok = rface_tok(&start);
        // expected cells under the full reference and under the reference with 7 / 27 / 39 / 49 ignored
        let mut want_full: Vec<(char, RFace)> = Vec::new();
        let mut want_ign: Vec<(char, RFace)> = Vec::new();
        let mut cur_full = start;
        let mut cur_ign = start;
        let mut inexpressible = false;
        let mut script = Vec::new();
        for _ in 0..(1 + rng.below(6)) {
            if rng.chance(1, 2) {
                let k = 1 + rng.below(3);
                let mut parts = Vec::new();
                for _ in 0..k {
                    let (a, x) = loop {
                        let (a, x) = rnd_atom(&mut rng);
                        if x != Kind::Malformed {
                            break (a, x);
                        }
                    };
                    inexpressible |= x == Kind::Inexpressible;
                    parts.push(a);
                }
                let data = parts.join(";");
                ref_apply(&mut cur_full, &data, false);
                ref_apply(&mut cur_ign, &data, true);
                bytes.extend(format!("\x1b[{data}m").as_bytes());
                script.push(format!("SGR {data}"));
            } else {
                let txt: String = (0..1 + rng.below(4)).map(|_| rnd_char(&mut rng)).collect();
                for c in txt.chars() {
                    want_full.push((c, cur_full));
                    want_ign.push((c, cur_ign));
                }
                bytes.extend(txt.as_bytes());
                script.push(format!("TEXT {}", txt.chars().map(|c| format!("U+{:04X}", c as u32)).collect::<Vec<_>>().join(" ")));
            }
        }
        let cuts = rnd_cuts(&mut rng, bytes.len());
        // a third of the scripts meet a sink that refuses a range of cells (no room): the refused cells are
        // missing, everything else - later cells, later SGR sequences of the same write - is unaffected
        let refuse = if i % 3 == 1 && !want_full.is_empty() {
            let a = rng.below(want_full.len() as u64) as usize;
            (a, a + 1 + rng.below((want_full.len() - a) as u64) as usize)
        } else {
            (0, 0)
        };
        for w in [&mut want_full, &mut want_ign] {
            let mut k = 0;
            w.retain(|_| {
                k += 1;
                !(refuse.0 <= k - 1 && k - 1 < refuse.1)
            });
        }
        let Some(start_face) = build(o, &case, &start) else { continue };
        let got = guarded(|| {
            let mut rec = Recorder { face: start_face, wraps: false, cells: Vec::new(), refuse, calls: 0 };
            {
                let mut w = rec.by_ref().tty_writer();
                let mut start = 0;
                let mut points: Vec<usize> = cuts.clone();
                points.push(bytes.len());
                for end in points {
                    if end < start || end > bytes.len() {
                        continue;
                    }
                    let _ = w.write_all(&bytes[start..end]);
                    start = end;
                }
            }
            (rec.cells, raw_face(&rec.face))
        });
        let end_face = got.as_ref().ok().map(|g| g.1);
        let got = got.map(|g| g.0);
        if let Some(f) = end_face {
            // the face the writer is left with is the face the next cell would get
            if f != cur_ign || (f != cur_full && !inexpressible) {
                o.fail(
                    "C06: face of the cell writer after the script is not the face SGR semantics gives",
                    json!({"case": case, "start_face": stok, "script": script, "cuts": cuts, "refused_cells": [refuse.0, refuse.1], "has_inexpressible_param": false}),
                    json!(rface_tok(&cur_ign)),
                    json!(rface_tok(&f)),
                );
            }
        }
        o.hist(if refuse.1 > 0 { "writer-refusing" } else { "writer" });
        o.case(&format!("w {stok} {} {:?}", hex(&bytes), cuts), true);
        let show = |v: &Vec<(char, RFace)>| v.iter().map(|(c, f)| format!("U+{:04X}:{}", *c as u32, rface_tok(f))).collect::<Vec<_>>();
        let got_show = got.as_ref().map(show).unwrap_or(vec!["panic".into()]);
        if got.as_ref() != Ok(&want_ign) {
            o.fail(
                "C06: cells written through tty_writer do not carry the faces SGR semantics gives",
                json!({"case": case, "start_face": stok, "script": script, "cuts": cuts, "has_inexpressible_param": false, "reference": "inexpressible parameters ignored"}),
                json!(show(&want_ign)),
                json!(got_show),
            );
        } else if got.as_ref() != Ok(&want_full) {
            // equal to the reference-with-ignored-parameters, different from the full one: only 7/27/39/49 can cause it
            let what = if inexpressible {
                "C06-inexpressible: SGR parameter the face-modification record cannot express is ignored"
            } else {
                "C06: cells written through tty_writer do not carry the faces SGR semantics gives"
            };
            o.fail(
                what,
                json!({"case": case, "start_face": stok, "script": script, "cuts": cuts, "has_inexpressible_param": inexpressible}),
                json!(show(&want_full)),
                json!(got_show),
            );
        }
        if i % 600 == 0 {
            o.sample(json!({"start_face": stok, "script": script, "cuts": cuts}));
        }
    }
    out.finish("number strings (1-30 digits, 10% with a non-digit, leading zeros); SGR parameter strings of 1-5 atoms from 46 atom kinds (every supported parameter, ; and : colour forms, palette boundaries, leading zeros, 30 unsupported legal parameters, the four inexpressible ones 7/27/39/49, 30 malformed atoms) joined by `;`, 20% garbage over the SGR alphabet; random faces; random FaceModify / Face values and mixed sequences of face commands and characters (all scalar values but ESC: controls, DEL, C1, boundary code points) round-tripped through the real encoder (true colour) and command decoder under random read cuts; the same non-empty record repeated on one reused encoder (after nothing, a Face, a Reset, another record, characters) read back through the command decoder and the cell writer and judged by face state from two start states; scripts of SGR sequences and UTF-8 text written through tty_writer() from a random start face under random write cuts; distinct by content");
}
