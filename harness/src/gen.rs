//! One SplitMix64 generator; every random choice of the harness derives from `VERIF_SEED`.
#[derive(Clone)]
pub struct Rng(pub u64);

impl Rng {
    pub fn new(seed: u64) -> Self {
        Rng(seed ^ 0x9E37_79B9_7F4A_7C15)
    }
    pub fn next(&mut self) -> u64 {
        self.0 = self.0.wrapping_add(0x9E37_79B9_7F4A_7C15);
        let mut z = self.0;
        z = (z ^ (z >> 30)).wrapping_mul(0xBF58_476D_1CE4_E5B9);
        z = (z ^ (z >> 27)).wrapping_mul(0x94D0_49BB_1331_11EB);
        z ^ (z >> 31)
    }
    /// uniform in `0..n` (n > 0)
    pub fn below(&mut self, n: u64) -> u64 {
        self.next() % n
    }
    pub fn range(&mut self, lo: i64, hi: i64) -> i64 {
        lo + (self.next() % ((hi - lo + 1) as u64)) as i64
    }
    pub fn chance(&mut self, num: u64, den: u64) -> bool {
        self.below(den) < num
    }
    pub fn pick<'a, T>(&mut self, xs: &'a [T]) -> &'a T {
        &xs[self.below(xs.len() as u64) as usize]
    }
    pub fn fork(&mut self) -> Rng {
        Rng(self.next())
    }
}
