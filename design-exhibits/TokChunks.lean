import P.TokLongest
namespace Tok

/-- decoder state as in the Rust struct: machine state + `rescheduled` vector (next byte = last element) -/
structure DSt (σ : Type) where
  m : St σ
  rs : List UInt8

/-- `Vec::pop` -/
def pop (rs : List UInt8) : Option (UInt8 × List UInt8) :=
  match rs.reverse with
  | [] => none
  | b :: r => some (b, r.reverse)

theorem pop_some {rs : List UInt8} {b r} (h : pop rs = some (b, r)) : rs = r ++ [b] := by
  unfold pop at h
  cases hr : rs.reverse with
  | nil => rw [hr] at h; cases h
  | cons c cs =>
    rw [hr] at h; cases h
    have := congrArg List.reverse hr
    simpa using this

theorem pop_none {rs : List UInt8} (h : pop rs = none) : rs = [] := by
  unfold pop at h
  cases hr : rs.reverse with
  | nil => simpa using hr
  | cons c cs => rw [hr] at h; cases h

/-- `MatcherDecoder::decode_byte`, literally: the byte is pushed on the buffer first, `take_candidate`
    drains `buffer[size..]` reversed onto `rescheduled` -/
def decodeByte {σ} (A : Auto σ) (d : DSt σ) (b : UInt8) : Option (Item σ) × DSt σ :=
  let buf := d.m.buf ++ [b]
  match A.step d.m.q b with
  | some q' =>
    if A.acc q' then
      if A.term q' then
        (some (.tok buf q'), { m := fresh A, rs := d.rs ++ (buf.drop buf.length).reverse })
      else
        (none, { d with m := { q := q', buf := buf, cand := some (⟨d.m.buf.length + 1, by omega⟩, q') } })
    else
      (none, { d with m := { q := q', buf := buf, cand := d.m.cand } })
  | none =>
    match d.m.cand with
    | some (n, qc) =>
      if n.val ≤ d.m.buf.length then
        (some (.tok (buf.take n.val) qc), { m := fresh A, rs := d.rs ++ (buf.drop n.val).reverse })
      else (none, d)
    | none =>
      if buf.length > 1 then
        (some (.raw d.m.buf), { m := fresh A, rs := d.rs ++ [b] })
      else
        (some (.raw buf), { m := fresh A, rs := d.rs })

def optList {α} : Option α → List α
  | none => []
  | some a => [a]

/-- one step of the stream machine `go`, as a function of the head byte -/
theorem go_cons_eq {σ} (A : Auto σ) (d : DSt σ) (b : UInt8) (rest : List UInt8)
    (hle : ∀ n qc, d.m.cand = some (n, qc) → n.val ≤ d.m.buf.length) :
    go A d.m (b :: d.rs.reverse ++ rest) =
      let r := decodeByte A d b
      let t := go A r.2.m (r.2.rs.reverse ++ rest)
      (optList r.1 ++ t.1, t.2) := by
  rw [go.eq_def]
  simp only []
  unfold decodeByte
  cases hstep : A.step d.m.q b with
  | some q' =>
    by_cases hacc : A.acc q' = true
    · by_cases hterm : A.term q' = true
      · simp [hstep, hacc, hterm, optList]
      · simp [hstep, hacc, hterm, optList]
    · simp [hstep, hacc, optList]
  | none =>
    cases hc : d.m.cand with
    | some p =>
      obtain ⟨n, qc⟩ := p
      have := hle n qc hc
      have h1 : (d.m.buf ++ [b]).take n.val = d.m.buf.take n.val := List.take_append_of_le_length this
      have h2 : (d.m.buf ++ [b]).drop n.val = d.m.buf.drop n.val ++ [b] := List.drop_append_of_le_length this
      simp [hstep, hc, this, h1, h2, optList]
    | none =>
      by_cases hemp : d.m.buf.length = 0
      · have : d.m.buf = [] := List.eq_nil_of_length_eq_zero hemp
        simp [hstep, hc, hemp, this, optList]
      · have hpos : 0 < d.m.buf.length := by omega
        have hne : d.m.buf ≠ [] := by intro h; simp [h] at hemp
        simp [hstep, hc, hemp, hpos, hne, optList]

end Tok
