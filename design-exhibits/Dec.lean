namespace Dec

/-- decimal digits of `n`, least significant first -/
def digitsRev : Nat → Nat → List Nat     -- fuel, n
  | 0, _ => []
  | fuel + 1, n => if n < 10 then [n] else (n % 10) :: digitsRev fuel (n / 10)

/-- what Rust's `{}` prints for an unsigned integer, as digit values, most significant first -/
def showNat (n : Nat) : List Nat := (digitsRev (n + 1) n).reverse

/-- repaired `number_decode`: right to left, `result = result.saturating_add(d.saturating_mul(mult))`,
    `mult = mult.saturating_mul(10)`, all saturating at `M = usize::MAX` -/
def readRev (M : Nat) : List Nat → Nat → Nat → Nat     -- digits LSD first, mult, acc
  | [], _, acc => acc
  | d :: ds, mult, acc => readRev M ds (min M (mult * 10)) (min M (acc + min M (d * mult)))

def read (M : Nat) (ds : List Nat) : Nat := readRev M ds.reverse 1 0

/-- value of an LSD-first digit list -/
def valRev : List Nat → Nat
  | [] => 0
  | d :: ds => d + 10 * valRev ds

theorem digitsRev_val (fuel n : Nat) (h : n < fuel) : valRev (digitsRev fuel n) = n := by
  induction fuel generalizing n with
  | zero => omega
  | succ fuel ih =>
    simp only [digitsRev]
    split
    · simp [valRev]
    · simp only [valRev]
      have := ih (n / 10) (by omega)
      omega

theorem min_mul_sat (M d m : Nat) : min M (d * min M m) = min M (d * m) := by
  by_cases hm : m ≤ M
  · rw [Nat.min_eq_right hm]
  · have hm' : M < m := Nat.lt_of_not_le hm
    rw [Nat.min_eq_left (Nat.le_of_lt hm')]
    cases d with
    | zero => simp
    | succ d =>
      have h1 : M ≤ (d + 1) * M := Nat.le_mul_of_pos_left M (Nat.succ_pos d)
      have h2 : M ≤ (d + 1) * m := Nat.le_trans h1 (Nat.mul_le_mul_left _ (Nat.le_of_lt hm'))
      rw [Nat.min_eq_left h1, Nat.min_eq_left h2]

theorem min_mul10_sat (M m : Nat) : min M (min M m * 10) = min M (m * 10) := by
  have := min_mul_sat M 10 m
  simpa [Nat.mul_comm] using this

/-- C02_numeric (core): the saturating right-to-left walk computes exactly `min M (true value)` —
    never a wrapped value, for digit strings of any length, leading zeros included -/
theorem readRev_sat (M : Nat) (ds : List Nat) (m a : Nat) :
    readRev M ds (min M m) (min M a) = min M (a + m * valRev ds) := by
  induction ds generalizing m a with
  | nil => simp [readRev, valRev]
  | cons d ds ih =>
    simp only [readRev, valRev]
    rw [min_mul10_sat, min_mul_sat]
    have hacc : min M (min M a + min M (d * m)) = min M (a + d * m) := by omega
    rw [hacc, ih (m * 10) (a + d * m)]
    congr 1
    rw [Nat.mul_add, Nat.mul_comm m d]
    have : m * (10 * valRev ds) = m * 10 * valRev ds := by rw [Nat.mul_assoc]
    omega

theorem read_sat (M : Nat) (hM : 1 ≤ M) (ds : List Nat) : read M ds = min M (valRev ds.reverse) := by
  have := readRev_sat M ds.reverse 1 0
  simp only [Nat.min_eq_right hM, Nat.zero_add, Nat.one_mul, Nat.min_eq_right (Nat.zero_le M)] at this
  simpa [read] using this

/-- print then parse: the value comes back (clamped at `M`) -/
theorem read_show (M : Nat) (hM : 1 ≤ M) (n : Nat) : read M (showNat n) = min M n := by
  rw [read_sat M hM, showNat, List.reverse_reverse, digitsRev_val _ _ (by omega)]

end Dec
