import P.Graph
namespace Graph

/-- shape of `NFA::choice` after `merge_states`: fresh start `p` and stop `q`, blocks `A i` with their own
    start `st i` and stop `sp i`; `p →ε st i`, `sp i →ε q`, nothing else leaves a block or `p`, `q` is a sink -/
structure Fan {σ ι : Type} (g : Gr σ) (p q : σ) (A : ι → σ → Prop) (st sp : ι → σ) : Prop where
  p_not : ∀ i, ¬ A i p
  q_not : ∀ i, ¬ A i q
  pq : p ≠ q
  disj : ∀ i j s, A i s → A j s → i = j
  st_in : ∀ i, A i (st i)
  sp_in : ∀ i, A i (sp i)
  p_edge : ∀ c t, ¬ g.edge p c t
  p_eps : ∀ t, g.eps p t → ∃ i, t = st i
  q_edge : ∀ c t, ¬ g.edge q c t
  q_eps : ∀ t, ¬ g.eps q t
  blk_edge : ∀ i s c t, A i s → g.edge s c t → A i t
  blk_eps : ∀ i s t, A i s → g.eps s t → A i t ∨ (s = sp i ∧ t = q)

/-- the block's own graph: the fan edge to `q` removed -/
def Gr.block {σ} (g : Gr σ) (A : σ → Prop) (q : σ) : Gr σ :=
  { edge := fun s c t => A s ∧ g.edge s c t
    eps := fun s t => A s ∧ g.eps s t ∧ t ≠ q }

/-- inside block `i`, a path to `q` is a path of the block to its stop state followed by the fan edge -/
theorem Fan.from_block {σ ι} {g : Gr σ} {p q : σ} {A : ι → σ → Prop} {st sp : ι → σ}
    (hf : Fan g p q A st sp) (i : ι) {s t : σ} {w} (h : Path g s w t) (hs : A i s) (ht : t = q) :
    Path (g.block (A i) q) s w (sp i) := by
  induction h with
  | refl s => subst ht; exact absurd hs (hf.q_not i)
  | @eps s t' u w he hp ih =>
    rcases hf.blk_eps i s t' hs he with hA | ⟨h1, h2⟩
    · have hne : t' ≠ q := fun e => hf.q_not i (e ▸ hA)
      exact Path.eps ⟨hs, he, hne⟩ (ih hA ht)
    · -- the fan edge: the rest of the path starts at the sink `q`, so it is empty
      subst h1; subst h2
      cases hp with
      | refl _ => exact Path.refl _
      | eps he' _ => exact absurd he' (hf.q_eps _)
      | sym he' _ => exact absurd he' (hf.q_edge _ _)
  | @sym s t' u c w he _ ih =>
    exact Path.sym ⟨hs, he⟩ (ih (hf.blk_edge i s c t' hs he) ht)

/-- `NFA::choice` (and the repaired `optional`): the language is the union of the blocks' languages -/
theorem choice_lang {σ ι} {g : Gr σ} {p q : σ} {A : ι → σ → Prop} {st sp : ι → σ}
    (hf : Fan g p q A st sp) (w : List UInt8) (h : Path g p w q) :
    ∃ i, Path (g.block (A i) q) (st i) w (sp i) := by
  cases h with
  | refl _ => exact absurd rfl hf.pq
  | eps he hp =>
    obtain ⟨i, e⟩ := hf.p_eps _ he
    subst e
    exact ⟨i, hf.from_block i hp (hf.st_in i) rfl⟩
  | sym he _ => exact absurd he (hf.p_edge _ _)

/-- converse: each block's language is accepted -/
theorem choice_complete {σ ι} {g : Gr σ} {p q : σ} {A : ι → σ → Prop} {st sp : ι → σ}
    (i : ι) (h1 : g.eps p (st i)) (h2 : g.eps (sp i) q) {w}
    (h : Path (g.block (A i) q) (st i) w (sp i)) : Path g p w q := by
  have lift : ∀ {s t w}, Path (g.block (A i) q) s w t → Path g s w t := by
    intro s t w hp
    exact Path.mono (g := g.block (A i) q) (g' := g) (fun _ _ _ h => h.2) (fun _ _ h => h.2.1) hp
  exact Path.eps h1 (Path.trans (lift h) (Path.eps h2 (Path.refl q))) |> fun x => by simpa using x

end Graph
