import P.Tok
namespace Tok

def Accepted {σ} (A : Auto σ) (w : List UInt8) : Prop := ∃ q, runA A A.start w = some q ∧ A.acc q = true

theorem runA_none_append {σ} (A : Auto σ) (q : σ) (u v : List UInt8) (h : runA A q u = none) :
    runA A q (u ++ v) = none := by
  rw [runA_append, h]; rfl

/-- terminal states have no outgoing transition (holds for the compiled DFA: `is_terminal` = no edges) -/
def TermOk {σ} (A : Auto σ) : Prop := ∀ q, A.term q = true → ∀ c, A.step q c = none

/-- strengthened invariant: the candidate is the *longest* accepted non-empty prefix of the buffer -/
structure InvL {σ} (A : Auto σ) (s : St σ) : Prop extends Inv A s where
  cand_max : ∀ k, 1 ≤ k → k ≤ s.buf.length → Accepted A (s.buf.take k) →
    ∃ n qc, s.cand = some (n, qc) ∧ k ≤ n.val

theorem invL_fresh {σ} (A : Auto σ) : InvL A (fresh A) :=
  { toInv := inv_fresh A, cand_max := by intro k h1 h2; simp at h2; omega }

/-- what the machine does from a scanning state, described in terms of the bytes `s.buf ++ stream` -/
def Outcome {σ} (A : Auto σ) (s : St σ) (stream : List UInt8) (r : List (Item σ) × St σ) : Prop :=
  match r.1 with
  | [] => r.2.buf = s.buf ++ stream ∧ InvL A r.2
  | .tok w q :: its =>
      ∃ rest, s.buf ++ stream = w ++ rest ∧ (its, r.2) = go A (fresh A) rest ∧
        w ≠ [] ∧ runA A A.start w = some q ∧ A.acc q = true ∧
        -- longest: no longer prefix of the remaining input is accepted
        ∀ k, w.length < k → k ≤ (s.buf ++ stream).length → ¬ Accepted A ((s.buf ++ stream).take k)
  | .raw w :: its =>
      ∃ rest, s.buf ++ stream = w ++ rest ∧ (its, r.2) = go A (fresh A) rest ∧ w ≠ [] ∧
        -- nothing acceptable starts here, up to and including the byte that killed the scan
        ∀ k, 1 ≤ k → k ≤ w.length + 1 → k ≤ (s.buf ++ stream).length → ¬ Accepted A ((s.buf ++ stream).take k)

theorem take_snoc_le {α} (l : List α) (b : α) (k : Nat) (h : k ≤ l.length) : (l ++ [b]).take k = l.take k :=
  List.take_append_of_le_length h

/-- C03_tokenize (prototype): leftmost-longest, with the rest tokenised afresh -/
theorem longest {σ} (A : Auto σ) (hT : TermOk A) (s : St σ) (stream : List UInt8) (hs : InvL A s) :
    Outcome A s stream (go A s stream) := by
  fun_induction go A s stream with
  | case1 s => simp [Outcome, hs]
  | case2 s b rest q' hstep hacc hterm r ih =>
    -- accepting and terminal: emit at once; nothing longer can be live
    have hrun : runA A A.start (s.buf ++ [b]) = some q' := runA_snoc A _ _ _ _ _ hs.live hstep
    simp only [Outcome]
    refine ⟨rest, by simp, rfl, by simp, hrun, hacc, ?_⟩
    intro k hk1 hk2 ⟨q, hq, _⟩
    -- a longer prefix reads at least one more byte from the terminal state
    have hlen : (s.buf ++ [b]).length < k := hk1
    have hsplit : (s.buf ++ b :: rest).take k = (s.buf ++ [b]) ++ rest.take (k - (s.buf.length + 1)) := by
      have : s.buf ++ b :: rest = (s.buf ++ [b]) ++ rest := by simp
      rw [this, List.take_append]
      simp only [List.length_append, List.length_cons, List.length_nil] at hlen ⊢
      rw [List.take_of_length_le (by simp; omega)]
    rw [hsplit, runA_append, hrun] at hq
    cases hr : rest.take (k - (s.buf.length + 1)) with
    | nil =>
      have : (rest.take (k - (s.buf.length + 1))).length = 0 := by rw [hr]; rfl
      simp only [List.length_take, List.length_append, List.length_cons, List.length_nil] at this hlen hk2
      omega
    | cons c cs =>
      rw [hr] at hq
      simp [runA, hT q' hterm c] at hq
  | case3 s b rest q' hstep hacc hterm ih =>
    have hrun : runA A A.start (s.buf ++ [b]) = some q' := runA_snoc A _ _ _ _ _ hs.live hstep
    have hinv : InvL A { q := q', buf := s.buf ++ [b], cand := some (⟨s.buf.length + 1, by omega⟩, q') } := by
      refine { live := hrun, cand_le := ?_, cand_acc := ?_, cand_max := ?_ }
      · intro n qc h
        simp only [Option.some.injEq, Prod.mk.injEq] at h
        obtain ⟨h1, _⟩ := h; subst h1; simp
      · intro n qc h
        simp only [Option.some.injEq, Prod.mk.injEq] at h
        obtain ⟨h1, h2⟩ := h; subst h1; subst h2
        have : (s.buf ++ [b]).take (s.buf.length + 1) = s.buf ++ [b] := by
          apply List.take_of_length_le; simp
        simp only [this]; exact ⟨hrun, hacc⟩
      · intro k h1 h2 _
        exact ⟨_, _, rfl, by simpa using h2⟩
    have := ih hinv
    simpa [Outcome, List.append_assoc] using this
  | case4 s b rest q' hstep hacc ih =>
    have hrun : runA A A.start (s.buf ++ [b]) = some q' := runA_snoc A _ _ _ _ _ hs.live hstep
    have hinv : InvL A { q := q', buf := s.buf ++ [b], cand := s.cand } := by
      refine { live := hrun, cand_le := ?_, cand_acc := ?_, cand_max := ?_ }
      · intro n qc h; have := hs.cand_le n qc h; simp; omega
      · intro n qc h
        have hle := hs.cand_le n qc h
        have := hs.cand_acc n qc h
        simpa [List.take_append_of_le_length hle] using this
      · intro k h1 h2 hacc'
        simp only [List.length_append, List.length_cons, List.length_nil] at h2
        by_cases hk : k ≤ s.buf.length
        · rw [take_snoc_le _ _ _ hk] at hacc'
          exact hs.cand_max k h1 hk hacc'
        · -- k = |buf| + 1: the whole new buffer, whose state q' is not accepting
          exfalso
          have hk' : k = s.buf.length + 1 := by omega
          have : (s.buf ++ [b]).take k = s.buf ++ [b] := by
            apply List.take_of_length_le; simp; omega
          rw [this] at hacc'
          obtain ⟨q, hq, ha⟩ := hacc'
          rw [hrun] at hq; cases hq
          exact hacc ha
    have := ih hinv
    simpa [Outcome, List.append_assoc] using this
  | case5 s b rest hstep n qc hc hle r ih =>
    -- dead byte, candidate present: emit it, reschedule the rest
    obtain ⟨hca, hcb⟩ := hs.cand_acc n qc hc
    simp only [Outcome]
    refine ⟨s.buf.drop n.val ++ b :: rest, ?_, rfl, ?_, hca, hcb, ?_⟩
    · rw [← List.append_assoc, List.take_append_drop]
    · intro h
      rcases List.take_eq_nil_iff.mp h with h0 | h0
      · have := n.property; omega
      · have := n.property; simp [h0] at hle; omega
    · intro k hk1 hk2 hacc
      have hnl : (s.buf.take n.val).length = n.val := by simp [List.length_take]; omega
      rw [hnl] at hk1
      by_cases hk : k ≤ s.buf.length
      · -- a longer accepted prefix inside the buffer contradicts maximality of the candidate
        have : (s.buf ++ b :: rest).take k = s.buf.take k := List.take_append_of_le_length hk
        rw [this] at hacc
        obtain ⟨n', qc', e, hn'⟩ := hs.cand_max k (by omega) hk hacc
        rw [hc] at e; cases e; omega
      · -- beyond the buffer the scan is dead
        obtain ⟨q, hq, _⟩ := hacc
        have hsplit : (s.buf ++ b :: rest).take k = (s.buf ++ [b]) ++ rest.take (k - (s.buf.length + 1)) := by
          have : s.buf ++ b :: rest = (s.buf ++ [b]) ++ rest := by simp
          rw [this, List.take_append]
          rw [List.take_of_length_le (by simp; omega)]
          simp
        have hdead : runA A A.start (s.buf ++ [b]) = none := by
          rw [runA_append, hs.live]; simp [runA, hstep]
        rw [hsplit, runA_none_append _ _ _ _ hdead] at hq
        cases hq
  | case6 s b rest hstep n qc hc hle =>
    exact absurd (hs.cand_le n qc hc) hle
  | case7 s b rest hstep hc hemp r ih =>
    -- dead on the very first byte: it becomes a raw item of its own
    have hb : s.buf = [] := List.eq_nil_of_length_eq_zero hemp
    simp only [Outcome]
    refine ⟨rest, by simp [hb], rfl, by simp, ?_⟩
    intro k hk1 hk2 hk3 ⟨q, hq, _⟩
    have hq0 : s.q = A.start := by
      have := hs.live; rw [hb] at this; simp [runA] at this; exact this.symm
    have hdead : runA A A.start [b] = none := by simp [runA, ← hq0, hstep]
    have hsplit : (s.buf ++ b :: rest).take k = [b] ++ rest.take (k - 1) := by
      rw [hb]; cases k with
      | zero => omega
      | succ k => simp
    rw [hsplit, runA_none_append _ _ _ _ hdead] at hq
    cases hq
  | case8 s b rest hstep hc hemp r ih =>
    -- dead with a non-empty buffer and no candidate: the buffer becomes raw, the byte is re-read
    simp only [Outcome]
    refine ⟨b :: rest, rfl, rfl, ?_, ?_⟩
    · intro h; simp [h] at hemp
    · intro k hk1 hk2 hk3 hacc
      by_cases hk : k ≤ s.buf.length
      · have : (s.buf ++ b :: rest).take k = s.buf.take k := List.take_append_of_le_length hk
        rw [this] at hacc
        obtain ⟨n', qc', e, _⟩ := hs.cand_max k hk1 hk hacc
        rw [hc] at e; cases e
      · obtain ⟨q, hq, _⟩ := hacc
        have hk' : k = s.buf.length + 1 := by omega
        have hsplit : (s.buf ++ b :: rest).take k = s.buf ++ [b] := by
          have : s.buf ++ b :: rest = (s.buf ++ [b]) ++ rest := by simp
          rw [this, List.take_append_of_le_length (by simp; omega)]
          apply List.take_of_length_le; simp; omega
        have hdead : runA A A.start (s.buf ++ [b]) = none := by
          rw [runA_append, hs.live]; simp [runA, hstep]
        rw [hsplit, hdead] at hq
        cases hq

end Tok
