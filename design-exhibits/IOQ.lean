namespace IOQ

/-- model of `common::IOQueue` -/
structure Q where
  chunks : List (List UInt8)
  offset : Nat
  length : Nat

def Q.new : Q := ⟨[], 0, 0⟩

def Q.asSlice (q : Q) : List UInt8 :=
  match q.chunks with
  | [] => []
  | c :: _ => c.drop q.offset

def appendLast : List (List UInt8) → List UInt8 → List (List UInt8)
  | [], b => [b]                       -- `if chunks.is_empty() { push_back(default) }` then extend
  | [c], b => [c ++ b]
  | c :: cs, b => c :: appendLast cs b

def Q.write (q : Q) (b : List UInt8) : Q :=
  { q with chunks := appendLast q.chunks b, length := q.length + b.length }

def Q.flush (q : Q) : Q :=
  if q.asSlice.isEmpty then q else { q with chunks := q.chunks ++ [[]] }

def Q.consume (q : Q) (amt : Nat) : Q :=
  match q.chunks with
  | [] => { q with offset := 0 }
  | c :: cs =>
    if c.length > q.offset + amt then { q with offset := q.offset + amt, length := q.length - amt }
    else { chunks := cs, offset := 0, length := q.length - (c.length - q.offset) }

/-- as on the pinned tree: forgets to adjust `length` -/
def Q.clearButLastPinned (q : Q) : Q :=
  match q.chunks with
  | c :: _ :: _ => { q with chunks := [c] }
  | _ => q

/-- repaired -/
def Q.clearButLast (q : Q) : Q :=
  match q.chunks with
  | c :: d :: ds => { q with chunks := [c], length := q.length - ((d :: ds).map List.length).sum }
  | _ => q

/-- abstraction: the bytes that can still be read -/
def Q.abs (q : Q) : List UInt8 :=
  match q.chunks with
  | [] => []
  | c :: cs => c.drop q.offset ++ cs.flatten

/-- representation invariant -/
def Q.Inv (q : Q) : Prop :=
  q.length = q.abs.length ∧
  (match q.chunks with
   | [] => q.offset = 0
   | c :: _ => q.offset ≤ c.length)

theorem appendLast_flatten (cs : List (List UInt8)) (b : List UInt8) :
    (appendLast cs b).flatten = cs.flatten ++ b := by
  induction cs with
  | nil => simp [appendLast]
  | cons c cs ih =>
    cases cs with
    | nil => simp [appendLast]
    | cons d ds => simp [appendLast, ih]

theorem appendLast_head (c : List UInt8) (cs : List (List UInt8)) (b : List UInt8) :
    ∃ c' cs', appendLast (c :: cs) b = c' :: cs' ∧ c.length ≤ c'.length ∧
      c'.drop 0 ++ cs'.flatten = c ++ cs.flatten ++ b ∧ (∀ k, k ≤ c.length → c'.drop k ++ cs'.flatten = c.drop k ++ cs.flatten ++ b) := by
  cases cs with
  | nil =>
    refine ⟨c ++ b, [], by simp [appendLast], by simp, by simp, ?_⟩
    intro k hk; simp [List.drop_append_of_le_length hk]
  | cons d ds =>
    refine ⟨c, appendLast (d :: ds) b, by simp [appendLast], by simp, ?_, ?_⟩
    · simp [appendLast_flatten]
    · intro k _; simp [appendLast_flatten]

/-- C16_queue, write: appends to the readable bytes and keeps the invariant -/
theorem write_abs (q : Q) (b : List UInt8) (h : q.Inv) :
    (q.write b).abs = q.abs ++ b ∧ (q.write b).Inv := by
  obtain ⟨hl, ho⟩ := h
  cases hc : q.chunks with
  | nil =>
    simp only [hc] at ho
    simp [Q.write, Q.abs, Q.Inv, hc, appendLast, ho, hl]
  | cons c cs =>
    simp only [hc] at ho
    obtain ⟨c', cs', e, hlen, _, hk⟩ := appendLast_head c cs b
    have habs : (q.write b).abs = q.abs ++ b := by
      simp only [Q.write, Q.abs, hc, e]
      simpa [List.append_assoc] using hk q.offset ho
    refine ⟨habs, ?_, ?_⟩
    · rw [habs]; simp [Q.write, hl]
    · simp only [Q.write, hc, e]; omega

/-- C16_queue, consume: removes exactly `min amt |front remainder|` bytes from the front -/
theorem consume_abs (q : Q) (amt : Nat) (h : q.Inv) :
    (q.consume amt).abs = q.abs.drop (min amt q.asSlice.length) ∧ (q.consume amt).Inv := by
  obtain ⟨hl, ho⟩ := h
  cases hc : q.chunks with
  | nil =>
    simp only [hc] at ho
    refine ⟨by simp [Q.consume, Q.abs, Q.asSlice, hc], ?_, ?_⟩
    · simp [Q.consume, Q.abs, hc, hl]
    · simp [Q.consume, hc]
  | cons c cs =>
    simp only [hc] at ho
    have habs0 : q.abs = c.drop q.offset ++ cs.flatten := by simp [Q.abs, hc]
    have hsl : q.asSlice = c.drop q.offset := by simp [Q.asSlice, hc]
    by_cases hlt : c.length > q.offset + amt
    · have hmin : min amt (c.drop q.offset).length = amt := by simp; omega
      have hcons : q.consume amt = { q with offset := q.offset + amt, length := q.length - amt } := by
        simp [Q.consume, hc, hlt]
      have habs : (q.consume amt).abs = q.abs.drop (min amt q.asSlice.length) := by
        rw [hcons, hsl, hmin, habs0]
        simp only [Q.abs, hc]
        rw [List.drop_append_of_le_length (by simp; omega), List.drop_drop]
      refine ⟨habs, ?_, ?_⟩
      · rw [habs, hsl, hmin, hcons]
        simp only [hl, habs0, List.length_drop, List.length_append]
      · rw [hcons]; simp only [hc]; omega
    · have hmin : min amt (c.drop q.offset).length = (c.drop q.offset).length := by simp; omega
      have hcons : q.consume amt = { chunks := cs, offset := 0, length := q.length - (c.length - q.offset) } := by
        simp [Q.consume, hc, hlt]
      have habs : (q.consume amt).abs = q.abs.drop (min amt q.asSlice.length) := by
        rw [hcons, hsl, hmin, habs0]
        rw [List.drop_append_of_le_length (by simp), List.drop_length]
        cases cs <;> simp [Q.abs]
      refine ⟨habs, ?_, ?_⟩
      · rw [habs, hsl, hmin, hcons]
        simp only [hl, habs0, List.length_drop, List.length_append]
      · rw [hcons]; cases cs <;> simp

/-- C16_drop (repaired code): only whole later chunks go, the front remainder stays, `len` is exact -/
theorem clear_abs (q : Q) (h : q.Inv) :
    (q.clearButLast).abs = q.asSlice ∧ (q.clearButLast).Inv := by
  obtain ⟨hl, ho⟩ := h
  cases hc : q.chunks with
  | nil =>
    simp only [hc] at ho
    have : q.clearButLast = q := by simp [Q.clearButLast, hc]
    rw [this]
    exact ⟨by simp [Q.abs, Q.asSlice, hc], hl, by simp [hc, ho]⟩
  | cons c cs =>
    simp only [hc] at ho
    cases cs with
    | nil =>
      have : q.clearButLast = q := by simp [Q.clearButLast, hc]
      rw [this]
      exact ⟨by simp [Q.abs, Q.asSlice, hc], hl, by simp [hc, ho]⟩
    | cons d ds =>
      have hcl : q.clearButLast = { q with chunks := [c], length := q.length - ((d :: ds).map List.length).sum } := by
        simp [Q.clearButLast, hc]
      refine ⟨by rw [hcl]; simp [Q.abs, Q.asSlice, hc], ?_, by rw [hcl]; simpa using ho⟩
      rw [hcl]
      simp only [Q.abs, hc] at hl
      simp only [Q.abs, List.flatten_nil, List.append_nil, hl, List.length_append, List.length_flatten]
      omega

/-- the pinned tree's `clear_but_last` breaks `len = readable bytes`: kernel-checked witness -/
example :
    let q := ((((Q.new.write [1,2,3]).flush).write [4,5,6]).flush).write [7,8]
    q.clearButLastPinned.length = 8 ∧ q.clearButLastPinned.abs.length = 3 := by decide

end IOQ
